//! Tiny C14 workload sized for Miri / ThreadSanitizer: the multithreaded parallel-sum gadget and a
//! small multithreaded Prio3 sharding, compared with their serial counterparts inside a 3-thread
//! rayon pool. Under Miri (`-Zmiri-many-seeds`) every seed is a different, replayable
//! interleaving and the data-race detector is active.

use prio::codec::Encode;
use prio::field::{Field64, FieldElement};
use prio::flp::gadgets::{Mul, ParallelSum, ParallelSumGadget, ParallelSumMultithreaded};
use prio::flp::Gadget;
use prio::vdaf::prio3::{Prio3Histogram, Prio3HistogramMultithreaded};
use prio::vdaf::Client;

fn main() {
    let args: Vec<String> = std::env::args().collect();
    let chunks: usize = args.get(1).and_then(|s| s.parse().ok()).unwrap_or(5);
    let threads: usize = args.get(2).and_then(|s| s.parse().ok()).unwrap_or(3);
    let with_prio3 = args.get(3).map(|s| s == "prio3").unwrap_or(false);
    let pool = rayon::ThreadPoolBuilder::new().num_threads(threads).build().unwrap();

    let calls = 1;
    let n = 2; // wire polynomial length for one call
    let inp: Vec<Vec<Field64>> = (0..2 * chunks)
        .map(|w| (0..n).map(|j| Field64::from((1 + w * 7 + j * 3) as u64)).collect())
        .collect();
    let serial = <ParallelSum<Field64, Mul> as ParallelSumGadget<Field64, Mul>>::new(Mul::new(calls), chunks);
    let mt = <ParallelSumMultithreaded<Field64, Mul> as ParallelSumGadget<Field64, Mul>>::new(Mul::new(calls), chunks);
    let mut want = vec![Field64::zero(); 4];
    let mut got = vec![Field64::one(); 4];
    serial.eval_poly(&mut want, &inp).unwrap();
    pool.install(|| mt.eval_poly(&mut got, &inp)).unwrap();
    if want != got {
        println!("MISMATCH gadget chunks={chunks} threads={threads}");
        std::process::exit(1);
    }

    if with_prio3 {
        // OS randomness differs between the two shardings, so compare only that both succeed and
        // that the multithreaded path runs (race detection), not bytes (the native driver does that).
        let s = Prio3Histogram::new_histogram(2, 3, 1).unwrap();
        let m = Prio3HistogramMultithreaded::new_histogram_multithreaded(2, 3, 1).unwrap();
        let nonce = [7u8; 16];
        let (ps, sh) = s.shard(b"ctx", &1, &nonce).unwrap();
        let (pm, shm) = pool.install(|| m.shard(b"ctx", &1, &nonce)).unwrap();
        if ps.get_encoded().unwrap().len() != pm.get_encoded().unwrap().len() || sh.len() != shm.len() {
            println!("MISMATCH prio3 shapes");
            std::process::exit(1);
        }
    }
    println!("OK chunks={chunks} threads={threads} prio3={with_prio3}");
}
