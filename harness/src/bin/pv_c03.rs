//! `pv_c03`: the driver binary of property C03 (one binary per property so that a check only
//! builds, and a change to /repo only rebuilds, what that property needs). See ../runner.rs.
#![allow(dead_code, unused_imports, unused_variables, unused_mut)]

#[path = "../common.rs"]
mod common;
#[path = "../poplar_util.rs"]
mod poplar_util;
#[path = "../proto.rs"]
mod proto;
#[path = "../c03.rs"]
mod c03;
#[path = "../runner.rs"]
mod runner;

fn main() {
    runner::main_with("C03", c03::run)
}
