//! `pv_c04`: the driver binary of property C04 (one binary per property so that a check only
//! builds, and a change to /repo only rebuilds, what that property needs). See ../runner.rs.
#![allow(dead_code, unused_imports, unused_variables, unused_mut)]

#[path = "../common.rs"]
mod common;
#[path = "../poplar_util.rs"]
mod poplar_util;
#[path = "../proto.rs"]
mod proto;
#[path = "../c04.rs"]
mod c04;
#[path = "../runner.rs"]
mod runner;

fn main() {
    runner::main_with("C04", c04::run)
}
