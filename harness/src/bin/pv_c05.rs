//! `pv_c05`: the driver binary of property C05 (one binary per property so that a check only
//! builds, and a change to /repo only rebuilds, what that property needs). See ../runner.rs.
#![allow(dead_code, unused_imports, unused_variables, unused_mut)]

#[path = "../common.rs"]
mod common;
#[path = "../zoo.rs"]
mod zoo;
#[path = "../c05.rs"]
mod c05;
#[path = "../runner.rs"]
mod runner;

fn main() {
    runner::main_with("C05", c05::run)
}
