//! `pv_c06`: the driver binary of property C06 (one binary per property so that a check only
//! builds, and a change to /repo only rebuilds, what that property needs). See ../runner.rs.
#![allow(dead_code, unused_imports, unused_variables, unused_mut)]

#[path = "../common.rs"]
mod common;
#[path = "../c06.rs"]
mod c06;
#[path = "../runner.rs"]
mod runner;

fn main() {
    runner::main_with("C06", c06::run)
}
