//! `pv_c07`: the driver binary of property C07 (one binary per property so that a check only
//! builds, and a change to /repo only rebuilds, what that property needs). See ../runner.rs.
#![allow(dead_code, unused_imports, unused_variables, unused_mut)]

#[path = "../common.rs"]
mod common;
#[path = "../codec_registry.rs"]
mod codec_registry;
#[path = "../c07.rs"]
mod c07;
#[path = "../runner.rs"]
mod runner;

fn main() {
    runner::main_with("C07", c07::run)
}
