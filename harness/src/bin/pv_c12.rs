//! `pv_c12`: the driver binary of property C12 (one binary per property so that a check only
//! builds, and a change to /repo only rebuilds, what that property needs). See ../runner.rs.
#![allow(dead_code, unused_imports, unused_variables, unused_mut)]

#[path = "../common.rs"]
mod common;
#[path = "../spy_vdaf.rs"]
mod spy_vdaf;
#[path = "../c12.rs"]
mod c12;
#[path = "../runner.rs"]
mod runner;

fn main() {
    runner::main_with("C12", c12::run)
}
