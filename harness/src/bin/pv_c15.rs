//! `pv_c15`: the driver binary of property C15 (one binary per property so that a check only
//! builds, and a change to /repo only rebuilds, what that property needs). See ../runner.rs.
#![allow(dead_code, unused_imports, unused_variables, unused_mut)]

#[path = "../common.rs"]
mod common;
#[path = "../zoo.rs"]
mod zoo;
#[path = "../c15_model.rs"]
mod c15_model;
#[path = "../c15_real.rs"]
mod c15_real;
#[path = "../c15_explore.rs"]
mod c15_explore;
#[path = "../c15_noise.rs"]
mod c15_noise;
#[path = "../c15.rs"]
mod c15;
#[path = "../runner.rs"]
mod runner;

fn main() {
    runner::main_with("C15", c15::run)
}
