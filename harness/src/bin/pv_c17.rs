//! `pv_c17`: the driver binary of property C17 (one binary per property so that a check only
//! builds, and a change to /repo only rebuilds, what that property needs). See ../runner.rs.
#![allow(dead_code, unused_imports, unused_variables, unused_mut)]

#[path = "../common.rs"]
mod common;
#[path = "../proto.rs"]
mod proto;
#[path = "../zoo.rs"]
mod zoo;
#[path = "../c01.rs"]
mod c01;
#[path = "../c17.rs"]
mod c17;
#[path = "../runner.rs"]
mod runner;

fn main() {
    runner::main_with("C17", c17::run)
}
