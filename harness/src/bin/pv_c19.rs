//! `pv_c19`: the driver binary of property C19 (one binary per property so that a check only
//! builds, and a change to /repo only rebuilds, what that property needs). See ../runner.rs.
#![allow(dead_code, unused_imports, unused_variables, unused_mut)]

#[path = "../common.rs"]
mod common;
#[path = "../proto.rs"]
mod proto;
#[path = "../c19.rs"]
mod c19;
#[path = "../runner.rs"]
mod runner;

fn main() {
    runner::main_with("C19", c19::run)
}
