//! C01: Prio3 end-to-end — honest reports always verify and aggregate exactly.
//!
//! Oracle: plain-integer aggregate of the generated measurements (mod p). Every message crosses
//! its wire encoding; every library call is under the panic monitor.

use crate::common::*;
use crate::proto::*;
use crate::zoo::*;
use prio::codec::Encode;
use prio::flp::Type;
use prio::vdaf::prio3::Prio3;
use prio::vdaf::test_utils::TestVectorClient;
use prio::vdaf::xof::Xof;
use prio::vdaf::Client;
use serde_json::json;

pub fn random_size(p: &Params, cfg: &VdafCfg) -> usize {
    if p.kind.has_joint_rand() {
        2 * cfg.aggs as usize * 32
    } else {
        cfg.aggs as usize * 32
    }
}

/// Context strings; the HMAC XOF documents a panic for dst (8-byte tag + ctx) above 255 bytes,
/// which is outside the property's domain.
pub fn gen_ctx(rng: &mut Rng64, hmac: bool) -> Vec<u8> {
    match rng.below(6) {
        0 => vec![],
        1 => vec![rng.u64() as u8],
        2 => rng.bytes(if hmac { 247 } else { 300 }),
        3 => b"prio3 ctx".to_vec(),
        _ => {
            let n = rng.usize_below(40);
            rng.bytes(n)
        }
    }
}

pub fn gen_random_tape(rng: &mut Rng64, n: usize) -> Vec<u8> {
    match rng.below(8) {
        0 => vec![0u8; n],
        1 => vec![0xff; n],
        _ => rng.bytes(n),
    }
}

/// Honest verification of one Prio3 report in which every aggregator's verify state is encoded and
/// decoded (as a server persisting it would) before it is used to decode the peers' verifier shares
/// and the verifier message and to finish.
fn verify_with_persisted_state<T: Kinded, P: Xof<32>>(
    vdaf: &Prio3<T, P, 32>,
    key: &[u8; 32],
    vctx: &[u8],
    nonce: &[u8; 16],
    ps: &<Prio3<T, P, 32> as prio::vdaf::Vdaf>::PublicShare,
    shares: &[<Prio3<T, P, 32> as prio::vdaf::Vdaf>::InputShare],
) -> Result<(), (String, String)>
where
    T::Field: ZField,
{
    use prio::codec::ParameterizedDecode;
    use prio::vdaf::prio3::{Prio3VerifierMessage, Prio3VerifierShare, Prio3VerifyState};
    use prio::vdaf::{Aggregator, VerifyTransition};
    let mut states = vec![];
    let mut vshares = vec![];
    for (i, sh) in shares.iter().enumerate() {
        let (st, vs) = match catch(|| vdaf.verify_init(key, vctx, i, &(), nonce, ps, sh)) {
            Ok(Ok(x)) => x,
            Ok(Err(e)) => return Err(("verify_init".into(), e.to_string())),
            Err(pi) => return Err((format!("verify_init-panic|{}", pi.class()), pi.message)),
        };
        let sb = st.get_encoded().map_err(|e| ("state-encode".to_string(), e.to_string()))?;
        if st.encoded_len() != Some(sb.len()) {
            return Err(("state-encoded_len".into(), format!("{:?} vs {}", st.encoded_len(), sb.len())));
        }
        let st2 = match catch(|| Prio3VerifyState::<T::Field, 32>::get_decoded_with_param(&(vdaf, i), &sb)) {
            Ok(Ok(x)) => x,
            Ok(Err(e)) => return Err(("state-decode".into(), e.to_string())),
            Err(pi) => return Err((format!("state-decode-panic|{}", pi.class()), pi.message)),
        };
        if st2 != st {
            return Err(("state-roundtrip-differs".into(), format!("aggregator {i}")));
        }
        states.push(st2);
        vshares.push(vs.get_encoded().unwrap());
    }
    // Every aggregator decodes every peer's verifier share with ITS OWN reloaded state.
    let mut msg_bytes = None;
    for st in &states {
        let mut dec = vec![];
        for vb in &vshares {
            match catch(|| Prio3VerifierShare::<T::Field, 32>::get_decoded_with_param(st, vb)) {
                Ok(Ok(v)) => dec.push(v),
                Ok(Err(e)) => return Err(("verifier-share-decode-with-reloaded-state".into(), e.to_string())),
                Err(pi) => return Err((format!("verifier-share-decode-panic|{}", pi.class()), pi.message)),
            }
        }
        let msg = match catch(|| vdaf.verifier_shares_to_message(vctx, &(), dec)) {
            Ok(Ok(m)) => m,
            Ok(Err(e)) => return Err(("verifier_shares_to_message".into(), e.to_string())),
            Err(pi) => return Err((format!("verifier_shares_to_message-panic|{}", pi.class()), pi.message)),
        };
        msg_bytes = Some(msg.get_encoded().unwrap());
    }
    let mb = msg_bytes.unwrap();
    for st in states {
        let msg = match catch(|| Prio3VerifierMessage::<32>::get_decoded_with_param(&st, &mb)) {
            Ok(Ok(m)) => m,
            Ok(Err(e)) => return Err(("verifier-message-decode-with-reloaded-state".into(), e.to_string())),
            Err(pi) => return Err((format!("verifier-message-decode-panic|{}", pi.class()), pi.message)),
        };
        match catch(|| vdaf.verify_next(vctx, st, msg)) {
            Ok(Ok(VerifyTransition::Finish(_))) => {}
            Ok(Ok(_)) => return Err(("verify_next-continue".into(), "unexpected Continue".into())),
            Ok(Err(e)) => return Err(("verify_next".into(), e.to_string())),
            Err(pi) => return Err((format!("verify_next-panic|{}", pi.class()), pi.message)),
        }
    }
    Ok(())
}

struct V01<'a> {
    rng: &'a mut Rng64,
    batch: usize,
}

impl Prio3Visitor for V01<'_> {
    fn visit<T: Kinded, P: Xof<32>>(&mut self, ctx: &mut Ctx, p: &Params, cfg: &VdafCfg, vdaf: Prio3<T, P, 32>)
    where
        T::Field: ZField,
    {
        let rng = &mut *self.rng;
        let desc = format!("{} aggs={} proofs={} xof={}", p.describe(), cfg.aggs, cfg.proofs, if cfg.hmac_xof { "hmac" } else { "turboshake" });
        let sig_base = format!("{}|", p.kind.name());
        let typ = T::build(p).expect("type built once already");
        // Declared lengths agree with the reference model.
        if typ.input_len() != p.input_len() || typ.output_len() != p.output_len() || typ.joint_rand_len() != p.joint_rand_len() {
            ctx.violation(format!("{sig_base}lengths"), "input_len/output_len/joint_rand_len differ from the type definition",
                json!({"config": desc, "input_len": typ.input_len(), "want": p.input_len()}));
            return;
        }
        let vctx = gen_ctx(rng, cfg.hmac_xof);
        let key: [u8; 32] = rng.array_edge();
        let mut stats = WireStats::default();
        let mut anomaly: Option<String> = None;
        let mut outputs = vec![];
        let mut sums = vec![0u128; p.output_len()];
        let mut measurements = vec![];
        for r in 0..self.batch {
            let m = p.gen_measurement(rng);
            let lm = T::meas(p, &m);
            // Reference encoding (spec-level) vs library encoding.
            match catch(|| typ.encode_measurement(&lm)) {
                Ok(Ok(e)) => {
                    let ints = field_to_ints(&e);
                    if ints != p.encode_ref(&m) {
                        ctx.violation(format!("{sig_base}encode_measurement"), "encode_measurement differs from the spec-level encoding",
                            json!({"config": desc, "measurement": p.meas_json(&m)}));
                    }
                }
                Ok(Err(e)) => {
                    ctx.violation(format!("{sig_base}encode_measurement-err"), "in-range measurement refused by encode_measurement",
                        json!({"config": desc, "measurement": p.meas_json(&m), "err": e.to_string()}));
                    continue;
                }
                Err(pi) => {
                    ctx.violation(format!("{sig_base}encode_measurement-panic|{}", pi.class()), "encode_measurement panicked on an in-range measurement",
                        json!({"config": desc, "measurement": p.meas_json(&m), "panic": pi.message, "at": pi.location}));
                    continue;
                }
            }
            let nonce: [u8; 16] = rng.array_edge();
            let use_os_rand = rng.chance(1, 4);
            let sharded = if use_os_rand {
                catch(|| vdaf.shard(&vctx, &lm, &nonce))
            } else {
                let tape = gen_random_tape(rng, random_size(p, cfg));
                catch(|| vdaf.shard_with_random(&vctx, &lm, &nonce, &tape))
            };
            let (ps, shares) = match sharded {
                Ok(Ok(x)) => x,
                Ok(Err(e)) => {
                    ctx.violation(format!("{sig_base}shard-err"), "honest shard returned an error",
                        json!({"config": desc, "measurement": p.meas_json(&m), "err": e.to_string()}));
                    continue;
                }
                Err(pi) => {
                    ctx.violation(format!("{sig_base}shard-panic|{}", pi.class()), "honest shard panicked",
                        json!({"config": desc, "measurement": p.meas_json(&m), "panic": pi.message, "at": pi.location}));
                    continue;
                }
            };
            if shares.len() != cfg.aggs as usize {
                ctx.violation(format!("{sig_base}share-count"), "number of input shares != number of aggregators", json!({"config": desc}));
                continue;
            }
            let psb = enc(&ps, &mut anomaly);
            let isb: Vec<Vec<u8>> = shares.iter().map(|s| enc(s, &mut anomaly)).collect();
            // Aggregators may persist their verify state between verify_init and verify_next: run the
            // same report once more with every verify state crossing its wire encoding as well.
            if r % 3 == 0 {
                if let Err(e) = verify_with_persisted_state(&vdaf, &key, &vctx, &nonce, &ps, &shares) {
                    ctx.violation(format!("{sig_base}persisted-state|{}", e.0), "honest report failed when the verify states were encoded and decoded between verify_init and verify_next",
                        json!({"config": desc, "measurement": p.meas_json(&m), "detail": e.1}));
                } else {
                    ctx.count("reports_verified_with_persisted_state");
                }
            }
            let out = verify_report_simple::<_, 32>(&vdaf, &key, &vctx, &(), &nonce, &psb, &isb, &mut no_tamper, &mut stats, &mut anomaly);
            ctx.eval();
            match out {
                Outcome::Finished(o) => {
                    let c = p.contribution(&m);
                    for (s, x) in sums.iter_mut().zip(c.iter()) {
                        *s = addmod(*s, *x % p.p, p.p);
                    }
                    // Output shares of this report must sum to the contribution (mod p).
                    let mut tot = vec![0u128; p.output_len()];
                    for share in &o {
                        let b = share.get_encoded().unwrap();
                        let sz = b.len() / p.output_len().max(1);
                        for (k, ch) in b.chunks(sz).enumerate() {
                            let mut v = 0u128;
                            for (i, byte) in ch.iter().enumerate() {
                                v |= (*byte as u128) << (8 * i);
                            }
                            tot[k] = addmod(tot[k], v, p.p);
                        }
                    }
                    let want: Vec<u128> = c.iter().map(|x| x % p.p).collect();
                    if tot != want {
                        ctx.violation(format!("{sig_base}output-shares"), "output shares of an honest report do not sum to its contribution",
                            json!({"config": desc, "measurement": p.meas_json(&m), "report": r}));
                    }
                    outputs.push(o);
                    measurements.push(m);
                }
                Outcome::Rejected(stage, e) => {
                    ctx.violation(format!("{sig_base}rejected@{stage}"), "honest report rejected",
                        json!({"config": desc, "measurement": p.meas_json(&m), "stage": stage, "err": e, "ctx_len": vctx.len(),
                               "nonce": hex(&nonce), "os_rand": use_os_rand}));
                }
                Outcome::Panicked(stage, pi) => {
                    ctx.violation(format!("{sig_base}panic@{stage}|{}", pi.class()), "panic while verifying an honest report",
                        json!({"config": desc, "measurement": p.meas_json(&m), "panic": pi.message, "at": pi.location}));
                }
                Outcome::Desync(s) => {
                    ctx.violation(format!("{sig_base}desync"), "aggregators did not finish together", json!({"config": desc, "detail": s}));
                }
            }
        }
        if let Some(a) = anomaly.take() {
            ctx.violation(format!("{sig_base}encoded_len"), "encoded_len() disagrees with bytes produced / encode failed", json!({"config": desc, "detail": a}));
        }
        let n = outputs.len();
        let mut anomaly2 = None;
        let res = aggregate_and_unshard::<_, 32>(&vdaf, &(), outputs, &mut anomaly2);
        ctx.eval();
        // Expected.
        let expect_float = p.kind == Kind::Average;
        match res {
            Ok(r) => match T::result(&r) {
                ResultVec::Ints(v) => {
                    if v != sums {
                        ctx.violation(format!("{sig_base}aggregate"), "unsharded result != plain aggregate mod p",
                            json!({"config": desc, "reports": n, "got": v.iter().take(8).map(|x| x.to_string()).collect::<Vec<_>>(),
                                   "want": sums.iter().take(8).map(|x| x.to_string()).collect::<Vec<_>>(),
                                   "measurements": measurements.iter().take(4).map(|m| p.meas_json(m)).collect::<Vec<_>>()}));
                    }
                }
                ResultVec::Float(f) => {
                    let s = sums[0];
                    if s > u64::MAX as u128 {
                        ctx.violation(format!("{sig_base}average-overflow-accepted"), "Average returned a value although the sum exceeds u64", json!({"config": desc}));
                    } else {
                        let want = (s as u64 as f64) / (n as f64);
                        if !(f == want || (f.is_nan() && want.is_nan())) {
                            ctx.violation(format!("{sig_base}average"), "mean != sum/n", json!({"config": desc, "got": f, "want": want, "n": n}));
                        }
                    }
                }
            },
            Err((e, None)) => {
                let benign = expect_float && sums[0] > u64::MAX as u128;
                if benign {
                    ctx.count("average_sum_over_u64_err_as_documented");
                } else {
                    ctx.violation(format!("{sig_base}unshard-err"), "aggregate/unshard of honest output shares failed", json!({"config": desc, "err": e, "reports": n}));
                }
            }
            Err((e, Some(pi))) => {
                ctx.violation(format!("{sig_base}unshard-panic|{}", pi.class()), "aggregate/unshard panicked", json!({"config": desc, "err": e, "panic": pi.message, "at": pi.location}));
            }
        }
        // Observations.
        ctx.nontrivial(digest_str(&desc));
        ctx.count(&format!("configs_{}", p.kind.name()));
        ctx.count_n("reports_verified", n as u64);
        ctx.count_n("wire_messages", stats.messages);
        ctx.count_n("wire_bytes", stats.bytes);
        if p.partial_last_chunk() {
            ctx.count("configs_partial_last_chunk");
        }
        if cfg.aggs >= 4 {
            ctx.count("configs_helper_index_ge_3");
        }
        if cfg.proofs > 1 {
            ctx.count("configs_multiproof");
        }
        if cfg.hmac_xof {
            ctx.count("configs_hmac_xof");
        }
        ctx.max("max_aggregators", cfg.aggs as u64);
        ctx.max("max_proofs", cfg.proofs as u64);
        ctx.max("max_input_len", p.input_len() as u64);
        ctx.sample(|| json!({"config": desc, "reports": n, "first_measurement": measurements.first().map(|m| p.meas_json(m))}));
    }
}

/// Several tasks on ONE Prio3 instance that share some of (nonce sequence, context, verification key)
/// and differ in the rest, verified interleaved on one thread. Anything carried over from one call to
/// the next (a memoised XOF state keyed by only part of what it depends on, a cached derivation)
/// turns into a rejected honest report here; with random nonces and one context it never collides.
struct V01Shared<'a> {
    rng: &'a mut Rng64,
}

impl Prio3Visitor for V01Shared<'_> {
    fn visit<T: Kinded, P: Xof<32>>(&mut self, ctx: &mut Ctx, p: &Params, cfg: &VdafCfg, vdaf: Prio3<T, P, 32>)
    where
        T::Field: ZField,
    {
        let rng = &mut *self.rng;
        let desc = format!("{} aggs={} proofs={} xof={}", p.describe(), cfg.aggs, cfg.proofs, if cfg.hmac_xof { "hmac" } else { "turboshake" });
        let sig_base = format!("{}|", p.kind.name());
        let n_tasks = 2 + rng.usize_below(2);
        let batch = 1 + rng.usize_below(3);
        let share_nonce = rng.chance(4, 5);
        let share_ctx = rng.chance(1, 4);
        let share_key = rng.bool();
        let base_ctx = {
            let c = gen_ctx(rng, cfg.hmac_xof);
            if c.len() > 100 { c[..40].to_vec() } else { c }
        };
        let base_key: [u8; 32] = rng.array_edge();
        let style = rng.below(3);
        let base_nonces: Vec<[u8; 16]> = (0..batch)
            .map(|j| match style {
                0 => {
                    let mut n = [0u8; 16];
                    n[15] = j as u8;
                    n
                }
                1 => [0x5au8; 16],
                _ => rng.array(),
            })
            .collect();
        struct Rep {
            m: Vec<u128>,
            psb: Vec<u8>,
            isb: Vec<Vec<u8>>,
            nonce: [u8; 16],
        }
        let mut tasks: Vec<(Vec<u8>, [u8; 32], Vec<Rep>)> = vec![];
        let mut anomaly: Option<String> = None;
        for t in 0..n_tasks {
            let mut vctx = base_ctx.clone();
            if !share_ctx {
                match t {
                    0 => {}
                    1 => vctx.push(1),
                    _ => {
                        if vctx.is_empty() {
                            vctx.push(9)
                        } else {
                            let k = vctx.len() - 1;
                            vctx[k] ^= 0x80;
                        }
                    }
                }
            }
            let key = if share_key { base_key } else { rng.array() };
            let mut reps = vec![];
            for j in 0..batch {
                let nonce = if share_nonce { base_nonces[j] } else { rng.array() };
                let m = p.gen_measurement(rng);
                let tape = gen_random_tape(rng, random_size(p, cfg));
                match catch(|| vdaf.shard_with_random(&vctx, &T::meas(p, &m), &nonce, &tape)) {
                    Ok(Ok((ps, shares))) => reps.push(Rep { m, psb: enc(&ps, &mut anomaly), isb: shares.iter().map(|s| enc(s, &mut anomaly)).collect(), nonce }),
                    _ => return, // the plain driver reports sharding failures
                }
            }
            tasks.push((vctx, key, reps));
        }
        let mut stats = WireStats::default();
        let mut all_ok = true;
        for round in 0..2 {
            for j in 0..batch {
                let mut order: Vec<usize> = (0..n_tasks).collect();
                if round == 1 {
                    rng.shuffle(&mut order);
                }
                for &t in &order {
                    let (vctx, key, reps) = &tasks[t];
                    let rep = &reps[j];
                    let out = verify_report_simple::<_, 32>(&vdaf, key, vctx, &(), &rep.nonce, &rep.psb, &rep.isb, &mut no_tamper, &mut stats, &mut anomaly);
                    ctx.eval();
                    let wit = |extra: serde_json::Value| json!({"config": desc, "tasks": n_tasks, "task": t, "report": j, "round": round, "shared": {"nonce": share_nonce, "ctx": share_ctx, "key": share_key},
                        "ctx": hex(vctx), "nonce": hex(&rep.nonce), "measurement": p.meas_json(&rep.m), "detail": extra});
                    match out {
                        Outcome::Finished(o) => {
                            let ob: Vec<Vec<u8>> = o.iter().map(|x| x.get_encoded().unwrap()).collect();
                            let mut tot = vec![0u128; p.output_len()];
                            for b in &ob {
                                let sz = b.len() / p.output_len().max(1);
                                for (k, ch) in b.chunks(sz.max(1)).enumerate().take(p.output_len()) {
                                    let mut v = 0u128;
                                    for (i, byte) in ch.iter().enumerate() {
                                        v |= (*byte as u128) << (8 * i);
                                    }
                                    tot[k] = addmod(tot[k], v, p.p);
                                }
                            }
                            let want: Vec<u128> = p.contribution(&rep.m).iter().map(|x| x % p.p).collect();
                            if tot != want {
                                all_ok = false;
                                ctx.violation(format!("{sig_base}interleaved-tasks|output-shares"), "output shares of an honest report do not sum to its contribution when tasks sharing nonce/context/key are verified interleaved", wit(json!(null)));
                            }
                        }
                        Outcome::Rejected(stage, e) => {
                            all_ok = false;
                            ctx.violation(format!("{sig_base}interleaved-tasks|rejected@{stage}"), "honest report rejected when tasks sharing nonce/context/key are verified interleaved on one instance", wit(json!({"stage": stage, "err": e})));
                        }
                        Outcome::Panicked(stage, pi) => {
                            all_ok = false;
                            ctx.violation(format!("{sig_base}interleaved-tasks|panic@{stage}|{}", pi.class()), "panic while verifying an honest report (interleaved tasks)", wit(json!({"panic": pi.message, "at": pi.location})));
                        }
                        Outcome::Desync(sd) => {
                            all_ok = false;
                            ctx.violation(format!("{sig_base}interleaved-tasks|desync"), "aggregators did not finish together (interleaved tasks)", wit(json!(sd)));
                        }
                    }
                }
            }
        }
        if all_ok {
            ctx.count("interleaved_task_sets_completed");
            if share_nonce && !share_ctx {
                ctx.count("interleaved_same_nonce_other_ctx");
            }
            if share_nonce && share_ctx && !share_key {
                ctx.count("interleaved_same_nonce_same_ctx_other_key");
            }
        }
    }
}

pub fn run(ctx: &mut Ctx) {
    let mut rng = ctx.rng("c01");
    let n_cfg = ctx.budget(8_000, 400_000) / ctx.nshards as u64;
    let budget = if ctx.quick() { 600 } else { 3000 };
    for i in 0..n_cfg {
        let kind = Kind::ALL[(i as usize + ctx.shard) % Kind::ALL.len()];
        let mut p = gen_params(&mut rng, kind, budget);
        let heavy = rng.chance(1, 25);
        let mut cfg = gen_cfg(&mut rng, kind, heavy);
        if heavy {
            // expensive corners on small instances only
            p = gen_params(&mut rng, kind, 24);
        } else if cfg.aggs > 20 {
            cfg.aggs = 2 + (cfg.aggs % 8);
        }
        let batch = match rng.below(6) {
            0 => 0,
            1 => 1,
            2 => 2,
            _ => 1 + rng.usize_below(if heavy { 3 } else { 12 }),
        };
        ctx.trace(|| format!("cfg {i}: {} {:?} batch={batch}", p.describe(), cfg));
        let mut rng2 = Rng64::derive(ctx.seed, &["c01-case"], i * 977 + ctx.shard as u64);
        let mut v = V01 { rng: &mut rng2, batch };
        // every sixth chunked instance is the multithreaded instantiation (Prio3*Multithreaded)
        let mt = kind.has_joint_rand() && i % 6 == 4;
        if mt {
            ctx.count("configs_multithreaded_gadget");
        }
        if let Err(e) = with_prio3_ex(ctx, &p, &cfg, &mut v, mt) {
            ctx.violation(format!("{}|constructor-refused", kind.name()), "admissible parameters refused by the constructor",
                json!({"config": p.describe(), "cfg": format!("{cfg:?}"), "err": e}));
        }
    }
    // Interleaved tasks sharing nonce / context / key on one instance.
    let n_shared = (ctx.budget(3_200, 64_000) / ctx.nshards as u64).max(7);
    let mut rng = ctx.rng("c01-shared");
    for i in 0..n_shared {
        let kind = Kind::ALL[(i as usize + ctx.shard) % Kind::ALL.len()];
        let p = gen_params(&mut rng, kind, 80);
        let mut cfg = gen_cfg(&mut rng, kind, false);
        cfg.aggs = 2 + (cfg.aggs % 4);
        cfg.proofs = cfg.proofs.min(2);
        ctx.trace(|| format!("shared cfg {i}: {} {:?}", p.describe(), cfg));
        let mut rng2 = Rng64::derive(ctx.seed, &["c01-shared-case"], i * 977 + ctx.shard as u64);
        let mut v = V01Shared { rng: &mut rng2 };
        let _ = with_prio3(ctx, &p, &cfg, &mut v);
    }
    // A few long inputs per shard (thousands of elements; several 4 KiB encoding blocks; chunk
    // lengths around multiples of 8/32), serial and multithreaded.
    let n_long = (ctx.budget(64, 640) / ctx.nshards as u64).max(2);
    let mut rng = ctx.rng("c01-long");
    for i in 0..n_long {
        let kind = [Kind::SumVec, Kind::Histogram, Kind::Multihot, Kind::L1BoundSum][(i as usize + ctx.shard) % 4];
        let fp = if rng.bool() { P64 } else { P128 };
        let n = 700 + rng.usize_below(6_000);
        let chunk = match rng.below(5) {
            0 => 100,
            1 => 33 + rng.usize_below(31),
            2 => prio::vdaf::prio3::optimal_chunk_length(n),
            3 => prio::vdaf::prio3::optimal_chunk_length(n) + 1 + rng.usize_below(7),
            _ => 20 + rng.usize_below(300),
        };
        let p = match kind {
            Kind::SumVec => Params { kind, max: 1, len: n, chunk, p: fp },
            Kind::Histogram => Params { kind, max: 1, len: n, chunk, p: fp },
            Kind::Multihot => Params { kind, max: 1 + rng.below(9) as u128, len: n, chunk, p: fp },
            _ => Params { kind, max: 3, len: n / 2, chunk, p: fp },
        };
        let cfg = VdafCfg { aggs: 2 + rng.below(3) as u8, proofs: 1 + rng.below(2) as u8, alg_id: algorithm_id(kind), hmac_xof: rng.chance(1, 6) };
        let mt = rng.bool();
        ctx.trace(|| format!("long cfg {i}: {} {:?} mt={mt}", p.describe(), cfg));
        ctx.count(if mt { "long_configs_multithreaded_gadget" } else { "long_configs_serial_gadget" });
        let mut rng2 = Rng64::derive(ctx.seed, &["c01-long-case"], i * 977 + ctx.shard as u64);
        let mut v = V01 { rng: &mut rng2, batch: 2 };
        if let Err(e) = with_prio3_ex(ctx, &p, &cfg, &mut v, mt) {
            ctx.violation(format!("{}|constructor-refused", kind.name()), "admissible parameters refused by the constructor",
                json!({"config": p.describe(), "cfg": format!("{cfg:?}"), "err": e}));
        }
    }
    // Rare large instance (thorough): long input.
    if !ctx.quick() && ctx.shard < 4 {
        let p = Params { kind: Kind::SumVec, max: 1, len: 100_000 + ctx.shard, chunk: 317, p: P128 };
        let cfg = VdafCfg { aggs: 2, proofs: 1, alg_id: 3, hmac_xof: false };
        let mut rng2 = Rng64::derive(ctx.seed, &["c01-large"], ctx.shard as u64);
        let mut v = V01 { rng: &mut rng2, batch: 2 };
        let _ = with_prio3(ctx, &p, &cfg, &mut v);
    }
}
