//! C02: Prio3 robustness — invalid or tampered reports never yield output shares.

use crate::c01::{gen_ctx, gen_random_tape, random_size};
use crate::common::*;
use crate::p3forge::{forge, forge_ex, joint_rands_from_parts};
use crate::proto::*;
use crate::zoo::*;
use prio::codec::{Encode, ParameterizedDecode};
use prio::flp::Type;
use prio::vdaf::prio3::Prio3;
use prio::vdaf::test_utils::TestVectorClient;
use prio::vdaf::xof::Xof;
use prio::vdaf::{Aggregator, Vdaf};
use serde_json::json;

#[derive(Clone, Debug)]
pub enum Mutation {
    /// add `delta` (mod p) to the little-endian element of `size` bytes at byte offset `off`
    AddElem { off: usize, size: usize, delta: u128 },
    XorByte { off: usize, mask: u8 },
    SwapElems { a: usize, b: usize, size: usize },
    Replace(Vec<u8>),
    Truncate(usize),
    Extend(Vec<u8>),
}

pub fn apply_mutation(m: &Mutation, bytes: &mut Vec<u8>, p: u128) {
    match m {
        Mutation::AddElem { off, size, delta } => {
            if off + size > bytes.len() {
                return;
            }
            let mut v = 0u128;
            for i in 0..*size {
                v |= (bytes[off + i] as u128) << (8 * i);
            }
            let v = addmod(v % p, delta % p, p);
            for i in 0..*size {
                bytes[off + i] = (v >> (8 * i)) as u8;
            }
        }
        Mutation::XorByte { off, mask } => {
            if *off < bytes.len() {
                bytes[*off] ^= mask;
            }
        }
        Mutation::SwapElems { a, b, size } => {
            if a + size <= bytes.len() && b + size <= bytes.len() && a != b {
                for i in 0..*size {
                    bytes.swap(a + i, b + i);
                }
            }
        }
        Mutation::Replace(r) => *bytes = r.clone(),
        Mutation::Truncate(n) => bytes.truncate(*n),
        Mutation::Extend(e) => bytes.extend_from_slice(e),
    }
}

struct Layout {
    esz: usize,
    input_len: usize,
    proofs_len: usize,
    verifiers_len: usize,
    jr: bool,
    aggs: usize,
}

/// Generate a tamper op: (point, mutation, class label).
fn gen_op(rng: &mut Rng64, l: &Layout, other_report: Option<&(Vec<u8>, Vec<Vec<u8>>)>) -> (Point, Mutation, &'static str) {
    let delta = match rng.below(4) {
        0 => 1,
        1 => u128::MAX, // reduced mod p by apply (p - something)
        _ => rng.u128(),
    };
    let delta = if delta == 0 { 1 } else { delta };
    loop {
        match rng.below(14) {
            0 | 1 => {
                let idx = match rng.below(4) {
                    0 => 0,
                    1 => l.input_len - 1,
                    _ => rng.usize_below(l.input_len),
                };
                return (Point::InputShare(0), Mutation::AddElem { off: idx * l.esz, size: l.esz, delta }, "leader-measurement-element");
            }
            2 | 3 => {
                let idx = match rng.below(4) {
                    0 => 0,
                    1 => l.proofs_len - 1,
                    _ => rng.usize_below(l.proofs_len),
                };
                return (Point::InputShare(0), Mutation::AddElem { off: (l.input_len + idx) * l.esz, size: l.esz, delta }, "leader-proof-element");
            }
            4 if l.jr => {
                let off = (l.input_len + l.proofs_len) * l.esz + rng.usize_below(32);
                return (Point::InputShare(0), Mutation::XorByte { off, mask: 1 << rng.below(8) }, "leader-blind-byte");
            }
            5 => {
                let h = 1 + rng.usize_below(l.aggs - 1);
                return (Point::InputShare(h), Mutation::XorByte { off: rng.usize_below(32), mask: 1 << rng.below(8) }, "helper-seed-byte");
            }
            6 if l.jr => {
                let h = 1 + rng.usize_below(l.aggs - 1);
                return (Point::InputShare(h), Mutation::XorByte { off: 32 + rng.usize_below(32), mask: 1 << rng.below(8) }, "helper-blind-byte");
            }
            7 if l.jr => {
                let off = rng.usize_below(32 * l.aggs);
                return (Point::PublicShare, Mutation::XorByte { off, mask: 1 << rng.below(8) }, "public-share-joint-rand-part-byte");
            }
            8 | 9 => {
                let a = rng.usize_below(l.aggs);
                let idx = match rng.below(3) {
                    0 => 0,
                    _ => rng.usize_below(l.verifiers_len),
                };
                return (Point::VerifierShare(0, a), Mutation::AddElem { off: idx * l.esz, size: l.esz, delta }, "verifier-share-element");
            }
            10 if l.jr => {
                let a = rng.usize_below(l.aggs);
                let off = l.verifiers_len * l.esz + rng.usize_below(32);
                return (Point::VerifierShare(0, a), Mutation::XorByte { off, mask: 1 << rng.below(8) }, "verifier-share-joint-rand-part-byte");
            }
            11 if l.jr => {
                let a = rng.usize_below(l.aggs);
                return (Point::VerifierMessage(0, a), Mutation::XorByte { off: rng.usize_below(32), mask: 1 << rng.below(8) }, "verifier-message-byte");
            }
            12 => {
                // swap two leader elements
                let tot = l.input_len + l.proofs_len;
                if tot >= 2 {
                    let a = rng.usize_below(tot);
                    let b = rng.usize_below(tot);
                    return (Point::InputShare(0), Mutation::SwapElems { a: a * l.esz, b: b * l.esz, size: l.esz }, "leader-element-swap");
                }
            }
            13 => {
                if let Some((ps, shares)) = other_report {
                    match rng.below(3) {
                        0 => return (Point::InputShare(0), Mutation::Replace(shares[0].clone()), "leader-share-substituted"),
                        1 => {
                            let h = 1 + rng.usize_below(l.aggs - 1);
                            return (Point::InputShare(h), Mutation::Replace(shares[h].clone()), "helper-share-substituted");
                        }
                        _ if l.jr => return (Point::PublicShare, Mutation::Replace(ps.clone()), "public-share-substituted"),
                        _ => {}
                    }
                }
            }
            _ => {
                // structural: truncate / extend a random message
                let pt = match rng.below(4) {
                    0 => Point::InputShare(rng.usize_below(l.aggs)),
                    1 => Point::VerifierShare(0, rng.usize_below(l.aggs)),
                    2 if l.jr => Point::VerifierMessage(0, rng.usize_below(l.aggs)),
                    _ => Point::InputShare(0),
                };
                if rng.bool() {
                    return (pt, Mutation::Extend(vec![rng.u64() as u8]), "trailing-byte");
                } else {
                    return (pt, Mutation::Truncate(rng.usize_below(40)), "truncated");
                }
            }
        }
    }
}

struct V02<'a> {
    rng: &'a mut Rng64,
    tampers: usize,
}

fn sum_outputs(outs: &[Vec<u8>], out_len: usize, p: u128) -> Vec<u128> {
    let mut tot = vec![0u128; out_len];
    for b in outs {
        let sz = if out_len == 0 { 1 } else { b.len() / out_len };
        for (k, ch) in b.chunks(sz.max(1)).enumerate().take(out_len) {
            let mut v = 0u128;
            for (i, byte) in ch.iter().enumerate() {
                v |= (*byte as u128) << (8 * i);
            }
            tot[k] = addmod(tot[k], v, p);
        }
    }
    tot
}

impl Prio3Visitor for V02<'_> {
    fn visit<T: Kinded, P: Xof<32>>(&mut self, ctx: &mut Ctx, p: &Params, cfg: &VdafCfg, vdaf: Prio3<T, P, 32>)
    where
        T::Field: ZField,
    {
        let rng = &mut *self.rng;
        let k = p.kind.name();
        let desc = format!("{} aggs={} proofs={} xof={}", p.describe(), cfg.aggs, cfg.proofs, if cfg.hmac_xof { "hmac" } else { "turboshake" });
        let typ = T::build(p).unwrap();
        let vctx = gen_ctx(rng, cfg.hmac_xof);
        let key: [u8; 32] = rng.array();
        let nonce: [u8; 16] = rng.array_edge();
        let mut stats = WireStats::default();
        let mut anomaly = None;
        ctx.nontrivial(digest_str(&desc));
        ctx.count(&format!("configs_{k}"));

        // ---- honest report (scripted tape) and the forge self-check -------------------------
        let m = p.gen_measurement(rng);
        let lm = T::meas(p, &m);
        let tape = gen_random_tape(rng, random_size(p, cfg));
        let (ps, shares) = match catch(|| vdaf.shard_with_random(&vctx, &lm, &nonce, &tape)) {
            Ok(Ok(x)) => x,
            _ => {
                ctx.inconclusive(format!("honest shard failed for {desc} (C01's domain); nothing to tamper with"));
                return;
            }
        };
        let psb = enc(&ps, &mut anomaly);
        let isb: Vec<Vec<u8>> = shares.iter().map(|s| enc(s, &mut anomaly)).collect();
        let valid_inp: Vec<T::Field> = ints_to_field(&p.encode_ref(&m));
        let forge_ok = match catch(|| forge::<T, P>(&typ, cfg, &vctx, &nonce, &valid_inp, &tape)) {
            Ok(Ok(f)) => f.public_share == psb && f.input_shares == isb,
            _ => false,
        };
        if forge_ok {
            ctx.count("forge_selfcheck_ok");
        } else {
            ctx.count("forge_selfcheck_mismatch");
            ctx.note(format!("forge self-check mismatch on {desc}: invalid-input reports skipped there"));
        }
        // honest control
        let honest = verify_report_simple::<_, 32>(&vdaf, &key, &vctx, &(), &nonce, &psb, &isb, &mut no_tamper, &mut stats, &mut anomaly);
        ctx.eval();
        if !honest.finished() {
            ctx.inconclusive(format!("positive control failed: honest report {} for {desc}", honest.stage()));
            return;
        }
        ctx.count("honest_controls_accepted");

        // A confirmation run: the same artefacts under a fresh verification key.
        let confirm = |ctx: &mut Ctx, rng: &mut Rng64, psb: &[u8], isb: &[Vec<u8>], tamper: &mut dyn FnMut(Point, &mut Vec<u8>)| -> (u32, Option<Vec<u128>>) {
            let mut acc = 0;
            let mut sum = None;
            for _ in 0..3 {
                let key2: [u8; 32] = rng.array();
                let mut st = WireStats::default();
                let mut an = None;
                let o = verify_report_simple::<_, 32>(&vdaf, &key2, &vctx, &(), &nonce, psb, isb, tamper, &mut st, &mut an);
                ctx.eval();
                if let Outcome::Finished(outs) = o {
                    acc += 1;
                    let ob: Vec<Vec<u8>> = outs.iter().map(|x| x.get_encoded().unwrap()).collect();
                    sum = Some(sum_outputs(&ob, p.output_len(), p.p));
                } else {
                    break;
                }
            }
            (acc, sum)
        };

        // ---- (a) invalid input, honest proof over it -----------------------------------------
        if forge_ok {
            for (label, bad) in p.invalid_inputs(rng) {
                let badf: Vec<T::Field> = ints_to_field(&bad);
                let tape = rng.bytes(random_size(p, cfg));
                let f = match catch(|| forge::<T, P>(&typ, cfg, &vctx, &nonce, &badf, &tape)) {
                    Ok(Ok(f)) => f,
                    Ok(Err(_)) => {
                        ctx.count("invalid_refused_by_prove");
                        continue;
                    }
                    Err(pi) => {
                        ctx.note(format!("prove panicked on invalid input ({}) — C05/C16 domain", pi.class()));
                        continue;
                    }
                };
                let o = verify_report_simple::<_, 32>(&vdaf, &key, &vctx, &(), &nonce, &f.public_share, &f.input_shares, &mut no_tamper, &mut stats, &mut anomaly);
                ctx.eval();
                let class: String = label.split('@').next().unwrap().split("-vs-").next().unwrap().trim_end_matches(|c: char| c.is_ascii_digit() || c == '-').to_string();
                match o {
                    Outcome::Finished(_) => {
                        let (acc, sum) = confirm(ctx, rng, &f.public_share, &f.input_shares, &mut no_tamper);
                        if acc == 3 {
                            let valid_out = sum.as_ref().map(|s| p.output_is_valid(s));
                            ctx.violation(format!("{k}|invalid-input-accepted|{class}"),
                                "a report whose shared input is NOT a valid encoding (proof computed honestly over it) completed verification at all aggregators under 4 independent keys",
                                json!({"config": desc, "family": label, "input": bad.iter().take(40).map(|x| x.to_string()).collect::<Vec<_>>(),
                                       "output_sum_is_truncation_of_valid_encoding": valid_out, "nonce": hex(&nonce), "ctx": hex(&vctx)}));
                        } else {
                            ctx.sporadic(64, format!("{k}|invalid-input-accepted|{class}"), json!({"config": desc, "family": label, "confirmations_accepted": acc, "nonce": hex(&nonce), "ctx": hex(&vctx)}));
                        }
                    }
                    Outcome::Rejected(stage, _) => {
                        ctx.count("invalid_input_rejected");
                        ctx.count(&format!("rejected_at_{stage}"));
                    }
                    Outcome::Panicked(stage, pi) => {
                        ctx.count("invalid_input_rejected");
                        ctx.note(format!("panic while verifying an invalid report at {stage}: {} (C16's domain)", pi.class()));
                    }
                    Outcome::Desync(_) => ctx.count("invalid_input_rejected"),
                }
            }
        }

        // ---- (b) tampering after honest sharding ------------------------------------------------
        let other = {
            let m2 = p.gen_measurement(rng);
            let tape2 = rng.bytes(random_size(p, cfg));
            match catch(|| vdaf.shard_with_random(&vctx, &T::meas(p, &m2), &nonce, &tape2)) {
                Ok(Ok((ps2, sh2))) => Some((ps2.get_encoded().unwrap(), sh2.iter().map(|s| s.get_encoded().unwrap()).collect::<Vec<_>>())),
                _ => None,
            }
        };
        let lay = Layout {
            esz: <T::Field as prio::field::FieldElement>::ENCODED_SIZE,
            input_len: typ.input_len(),
            proofs_len: typ.proof_len() * cfg.proofs as usize,
            verifiers_len: typ.verifier_len() * cfg.proofs as usize,
            jr: typ.joint_rand_len() > 0,
            aggs: cfg.aggs as usize,
        };
        for t in 0..self.tampers {
            let nops = if t % 5 == 4 { 2 } else { 1 };
            let ops: Vec<(Point, Mutation, &'static str)> = (0..nops).map(|_| gen_op(rng, &lay, other.as_ref())).collect();
            let pp = p.p;
            let mut changed = false;
            let ops2 = ops.clone();
            // Substituting EVERY client message by the other honest report's is not an alteration of
            // this report: it simply is that other (valid) report.
            let mut full_substitution = false;
            if let Some((ps2, sh2)) = other.as_ref() {
                let mut ps_t = psb.clone();
                let mut sh_t = isb.clone();
                for (opt, mu, _) in &ops {
                    match opt {
                        Point::PublicShare => apply_mutation(mu, &mut ps_t, pp),
                        Point::InputShare(i) => apply_mutation(mu, &mut sh_t[*i], pp),
                        _ => {}
                    }
                }
                full_substitution = ps_t == *ps2 && sh_t == *sh2 && ops.iter().all(|o| matches!(o.0, Point::PublicShare | Point::InputShare(_)));
            }
            if full_substitution {
                ctx.count("tamper_full_substitution_not_a_fault");
                continue;
            }
            let mut tamper = |pt: Point, b: &mut Vec<u8>| {
                // A message counts as altered only if its FINAL bytes differ from the original.
                let before = b.clone();
                for (opt, mu, _) in &ops2 {
                    if *opt == pt {
                        apply_mutation(mu, b, pp);
                    }
                }
                if *b != before {
                    changed = true;
                }
            };
            let o = verify_report_simple::<_, 32>(&vdaf, &key, &vctx, &(), &nonce, &psb, &isb, &mut tamper, &mut stats, &mut anomaly);
            ctx.eval();
            let class = ops.iter().map(|o| o.2).collect::<Vec<_>>().join("+");
            if !changed {
                ctx.count("tamper_noop_not_a_fault");
                continue;
            }
            match o {
                Outcome::Finished(_) => {
                    let mut tamper2 = |pt: Point, b: &mut Vec<u8>| {
                        for (opt, mu, _) in &ops {
                            if *opt == pt {
                                apply_mutation(mu, b, pp);
                            }
                        }
                    };
                    let (acc, sum) = confirm(ctx, rng, &psb, &isb, &mut tamper2);
                    if acc == 3 {
                        ctx.violation(format!("{k}|tampered-accepted|{class}"),
                            "a report altered after honest sharding completed verification at all aggregators under 4 independent keys",
                            json!({"config": desc, "ops": format!("{:?}", ops.iter().map(|o| (o.0, &o.1)).collect::<Vec<_>>()), "measurement": p.meas_json(&m),
                                   "output_sum_valid": sum.map(|s| p.output_is_valid(&s)), "nonce": hex(&nonce), "ctx": hex(&vctx), "tape": hex_trunc(&tape, 128)}));
                    } else {
                        ctx.sporadic(64, format!("{k}|tampered-accepted|{class}"), json!({"config": desc, "ops": format!("{:?}", ops.iter().map(|o| (o.0, &o.1)).collect::<Vec<_>>()), "confirmations_accepted": acc, "nonce": hex(&nonce), "ctx": hex(&vctx)}));
                    }
                }
                Outcome::Rejected(stage, _) => {
                    ctx.count("tampered_rejected");
                    ctx.count(&format!("rejected_at_{stage}"));
                    ctx.count(&format!("tamper_class_{}", ops[0].2));
                }
                Outcome::Panicked(stage, pi) => {
                    ctx.count("tampered_rejected");
                    ctx.note(format!("panic while verifying a tampered report at {stage}: {} (C16's domain)", pi.class()));
                }
                Outcome::Desync(_) => ctx.count("tampered_rejected"),
            }
        }

        // ---- API-level alteration: a verifier message stripped of its joint-randomness seed ----------
        // (constructible by decoding an empty message under the state of an instance without joint
        // randomness; unreachable through this instance's own decoder, which demands the seed)
        if lay.jr {
            use prio::vdaf::prio3::Prio3VerifierMessage;
            if let Ok(cvdaf) = Prio3::<prio::flp::types::Count<T::Field>, P, 32>::new(cfg.aggs, 1, 1, prio::flp::types::Count::new()) {
                let ctape = rng.bytes(cfg.aggs as usize * 32);
                if let Ok(Ok((cps, csh))) = catch(|| cvdaf.shard_with_random(&vctx, &true, &nonce, &ctape)) {
                    if let Ok(Ok((cstate, _))) = catch(|| cvdaf.verify_init(&key, &vctx, 0, &(), &nonce, &cps, &csh[0])) {
                        if let Ok(seedless) = Prio3VerifierMessage::<32>::get_decoded_with_param(&cstate, &[]) {
                            let mut finished = 0;
                            let mut n_states = 0;
                            for (i, b) in isb.iter().enumerate() {
                                let sh = <Prio3<T, P, 32> as Vdaf>::InputShare::get_decoded_with_param(&(&vdaf, i), b).unwrap();
                                if let Ok(Ok((st, _))) = catch(|| vdaf.verify_init(&key, &vctx, i, &(), &nonce, &ps, &sh)) {
                                    n_states += 1;
                                    ctx.eval();
                                    if let Ok(Ok(prio::vdaf::VerifyTransition::Finish(_))) = catch(|| vdaf.verify_next(&vctx, st, seedless.clone())) {
                                        finished += 1;
                                    }
                                }
                            }
                            if n_states > 0 && finished == n_states {
                                ctx.violation(format!("{k}|tampered-accepted|verifier-message-seed-stripped"),
                                    "a verifier message stripped of its joint-randomness seed made every aggregator finish (the joint-randomness agreement check was skipped)",
                                    json!({"config": desc, "measurement": p.meas_json(&m)}));
                            } else {
                                ctx.count("seedless_verifier_message_rejected");
                            }
                        }
                    }
                }
            }
        }

        // ---- share count check ------------------------------------------------------------------
        {
            let mut states = vec![];
            let mut vshares = vec![];
            let mut ok = true;
            for (i, b) in isb.iter().enumerate() {
                let sh = <Prio3<T, P, 32> as Vdaf>::InputShare::get_decoded_with_param(&(&vdaf, i), b).unwrap();
                match catch(|| vdaf.verify_init(&key, &vctx, i, &(), &nonce, &ps, &sh)) {
                    Ok(Ok((s, v))) => {
                        states.push(s);
                        vshares.push(v);
                    }
                    _ => ok = false,
                }
            }
            if ok {
                let variants: Vec<(&str, Vec<_>)> = vec![
                    ("dropped-last", vshares[..vshares.len() - 1].to_vec()),
                    ("dropped-first", vshares[1..].to_vec()),
                    ("duplicated", vshares.iter().cloned().chain(std::iter::once(vshares[0].clone())).collect()),
                    ("empty", vec![]),
                ];
                for (name, v) in variants {
                    ctx.eval();
                    match catch(|| vdaf.verifier_shares_to_message(&vctx, &(), v)) {
                        Ok(Err(_)) => ctx.count("wrong_share_count_rejected"),
                        Ok(Ok(_)) => ctx.violation(format!("{k}|wrong-share-count-accepted|{name}"), "verifier_shares_to_message accepted the wrong number of verifier shares",
                            json!({"config": desc, "variant": name})),
                        Err(pi) => ctx.note(format!("panic in verifier_shares_to_message with {name} shares: {} (C16's domain)", pi.class())),
                    }
                }
            }
        }
        ctx.count_n("wire_messages", stats.messages);
        ctx.sample(|| json!({"config": desc, "measurement": p.meas_json(&m), "tampers": self.tampers}));
    }
}

// ---------------------------------------------------------------------------------------------
// (c) The adaptive client: non-bit values chosen AFTER reading the joint randomness
// ---------------------------------------------------------------------------------------------

fn powmod(mut b: u128, mut e: u128, p: u128) -> u128 {
    let mut r = 1u128;
    while e > 0 {
        if e & 1 == 1 {
            r = mulmod(r, b, p);
        }
        b = mulmod(b, b, p);
        e >>= 1;
    }
    r
}

/// Square root modulo the (NTT-friendly) prime `p` by Tonelli-Shanks; None for non-residues.
fn sqrtmod(a: u128, p: u128, rng: &mut Rng64) -> Option<u128> {
    if a == 0 {
        return Some(0);
    }
    if powmod(a, (p - 1) / 2, p) != 1 {
        return None;
    }
    let (mut q, mut s) = (p - 1, 0u32);
    while q % 2 == 0 {
        q /= 2;
        s += 1;
    }
    let z = loop {
        let z = 2 + rng.u128() % (p - 3);
        if powmod(z, (p - 1) / 2, p) == p - 1 {
            break z;
        }
    };
    let (mut m, mut c, mut t, mut r) = (s, powmod(z, q, p), powmod(a, q, p), powmod(a, q.div_ceil(2), p));
    while t != 1 {
        let mut i = 0u32;
        let mut t2 = t;
        while t2 != 1 {
            t2 = mulmod(t2, t2, p);
            i += 1;
        }
        let mut b = c;
        for _ in 0..(m - i - 1) {
            b = mulmod(b, b, p);
        }
        m = i;
        c = mulmod(b, b, p);
        t = mulmod(t, c, p);
        r = mulmod(r, b, p);
    }
    Some(r)
}

struct V02Adaptive<'a> {
    rng: &'a mut Rng64,
}

impl V02Adaptive<'_> {
    /// The joint-randomness parts the LIBRARY's aggregators derive for these shares, read off their
    /// round-one verifier shares (public API; a malicious client can run this locally).
    fn library_parts<T: Kinded, P: Xof<32>>(vdaf: &Prio3<T, P, 32>, key: &[u8; 32], vctx: &[u8], nonce: &[u8; 16], ps: &[u8], isb: &[Vec<u8>]) -> Option<Vec<[u8; 32]>>
    where
        T::Field: ZField,
    {
        let n = isb.len();
        let mut rec: Vec<Option<[u8; 32]>> = vec![None; n];
        {
            let mut hook = |pt: Point, b: &mut Vec<u8>| {
                if let Point::VerifierShare(0, i) = pt {
                    if i < n && b.len() >= 32 {
                        rec[i] = Some(<[u8; 32]>::try_from(&b[b.len() - 32..]).unwrap());
                    }
                }
            };
            let mut st = WireStats::default();
            let mut an = None;
            let _ = verify_report_simple::<_, 32>(vdaf, key, vctx, &(), nonce, ps, isb, &mut hook, &mut st, &mut an);
        }
        rec.into_iter().collect()
    }
}

impl Prio3Visitor for V02Adaptive<'_> {
    fn visit<T: Kinded, P: Xof<32>>(&mut self, ctx: &mut Ctx, p: &Params, cfg: &VdafCfg, vdaf: Prio3<T, P, 32>)
    where
        T::Field: ZField,
    {
        let rng = &mut *self.rng;
        let fp = p.p;
        let desc = format!("{} aggs={} proofs={} xof={}", p.describe(), cfg.aggs, cfg.proofs, if cfg.hmac_xof { "hmac" } else { "turboshake" });
        let typ = T::build(p).unwrap();
        let n = typ.input_len();
        if p.kind != Kind::SumVec || cfg.proofs != 1 || n < 2 {
            return;
        }
        let vctx = gen_ctx(rng, cfg.hmac_xof);
        let nonce: [u8; 16] = rng.array();
        let own_key: [u8; 32] = rng.array();
        let m = p.gen_measurement(rng);
        let valid: Vec<u128> = p.encode_ref(&m);
        let tape = rng.bytes(random_size(p, cfg));
        // honest base report (spec-level forge; must agree with the library on honest data)
        let Ok(Ok(f1)) = catch(|| forge::<T, P>(&typ, cfg, &vctx, &nonce, &ints_to_field::<T::Field>(&valid), &tape)) else { return };
        let Some(parts) = Self::library_parts(&vdaf, &own_key, &vctx, &nonce, &f1.public_share, &f1.input_shares) else {
            ctx.count("adaptive_parts_not_observable");
            return;
        };
        ctx.nontrivial(digest_str(&format!("adaptive|{desc}")));
        // positions (i < j) of the two non-bits: leading, trailing, spread, block boundaries, random
        let esz = <T::Field as prio::field::FieldElement>::ENCODED_SIZE;
        let per_block = 4096 / esz;
        let mut pairs: Vec<(usize, usize)> = vec![(0, 1), (n - 2, n - 1), (0, n - 1), (0, n / 2)];
        if n > per_block + 1 {
            pairs.extend([(per_block - 1, per_block), (0, per_block), (1, n - per_block.min(n - 2))]);
        }
        for _ in 0..3 {
            let i = rng.usize_below(n - 1);
            pairs.push((i, i + 1 + rng.usize_below(n - 1 - i)));
        }
        pairs.retain(|(i, j)| i < j && *j < n);
        pairs.dedup();
        for (i, j) in pairs {
            ctx.eval();
            ctx.count("adaptive_attempts");
            // joint randomness as the aggregators will derive it from the published parts
            let jr: Vec<u128> = field_to_ints(&joint_rands_from_parts::<T, P>(&typ, cfg, &vctx, &parts));
            let coef = |t: usize| powmod(jr[t / p.chunk], (t % p.chunk) as u128 + 1, fp);
            let (ci, cj) = (coef(i), coef(j));
            if cj == 0 {
                continue;
            }
            // x(x-1) c_i + y(y-1) c_j = 0
            let mut sol = None;
            for x in 2u128..40 {
                let c = mulmod(submod(0, mulmod(ci, mulmod(x, x - 1, fp), fp), fp), powmod(cj, fp - 2, fp), fp);
                let disc = addmod(1, mulmod(4, c, fp), fp);
                if let Some(sq) = sqrtmod(disc, fp, rng) {
                    let y = mulmod(addmod(1, sq, fp), powmod(2, fp - 2, fp), fp);
                    if y > 1 {
                        sol = Some((x, y));
                        break;
                    }
                }
            }
            let Some((x, y)) = sol else { continue };
            // self-check of the algebra (harness only)
            let chk = addmod(mulmod(ci, mulmod(x, x - 1, fp), fp), mulmod(cj, mulmod(y, submod(y, 1, fp), fp), fp), fp);
            if chk != 0 {
                ctx.inconclusive("adaptive client: the solved non-bit pair does not cancel (harness algebra bug)");
                return;
            }
            let mut bad = valid.clone();
            bad[i] = x;
            bad[j] = y;
            let Ok(Ok(f2)) = catch(|| forge_ex::<T, P>(&typ, cfg, &vctx, &nonce, &ints_to_field::<T::Field>(&bad), &tape, Some(&parts))) else { continue };
            // Do the aggregators still derive the same parts for the CHANGED shares? If not, the joint
            // randomness moved with the measurement share, the pair no longer cancels: attack defeated.
            match Self::library_parts(&vdaf, &own_key, &vctx, &nonce, &f2.public_share, &f2.input_shares) {
                Some(p2) if p2 == parts => ctx.count("adaptive_joint_randomness_did_not_move"),
                _ => {
                    ctx.count("adaptive_defeated_joint_randomness_bound_to_share");
                    continue;
                }
            }
            // The joint randomness ignored the two altered elements: submit the forged report.
            let mut acc = 0;
            let mut sum = None;
            let mut keys = vec![];
            for _ in 0..4 {
                let key: [u8; 32] = rng.array();
                keys.push(hex(&key));
                let mut st = WireStats::default();
                let mut an = None;
                let o = verify_report_simple::<_, 32>(&vdaf, &key, &vctx, &(), &nonce, &f2.public_share, &f2.input_shares, &mut no_tamper, &mut st, &mut an);
                ctx.eval();
                if let Outcome::Finished(outs) = o {
                    acc += 1;
                    let ob: Vec<Vec<u8>> = outs.iter().map(|x| x.get_encoded().unwrap()).collect();
                    sum = Some(sum_outputs(&ob, p.output_len(), p.p));
                } else {
                    break;
                }
            }
            if acc == 4 {
                let valid_out = sum.as_ref().map(|s| p.output_is_valid(s));
                ctx.violation("SumVec|adaptive-two-nonbits-accepted".to_string(),
                    "a client that chose two non-bit entries AFTER reading the joint randomness (which did not change with those entries of its measurement share) was accepted by all aggregators under 4 independent keys",
                    json!({"config": desc, "positions": [i, j], "values": [x.to_string(), y.to_string()], "output_sum_is_truncation_of_valid_encoding": valid_out,
                           "nonce": hex(&nonce), "ctx": hex(&vctx), "verify_keys": keys, "public_share": hex_trunc(&f2.public_share, 256),
                           "leader_input_share_head": hex_trunc(&f2.input_shares[0], 256)}));
            } else {
                ctx.count("adaptive_forged_report_rejected_anyway");
            }
        }
    }
}

fn part_adaptive(ctx: &mut Ctx) {
    let mut rng = ctx.rng("c02-adaptive");
    let n_cfg = (ctx.budget(1_600, 48_000) / ctx.nshards as u64).max(4);
    for i in 0..n_cfg {
        let fp = if rng.bool() { P64 } else { P128 };
        // lengths on both sides of one and two 4 KiB encoding blocks (256 / 512 field elements)
        let len = match i % 8 {
            0 => 2 + rng.usize_below(6),
            1 => 20 + rng.usize_below(100),
            2 => 250 + rng.usize_below(14),
            3 => 300 + rng.usize_below(300),
            4 => 505 + rng.usize_below(20),
            5 => 1020 + rng.usize_below(10),
            6 => 1100 + rng.usize_below(1500),
            _ => 2 + rng.usize_below(600),
        };
        let max = if rng.chance(3, 4) { 1 } else { 3 };
        let n = len * bits_of(max);
        let chunk = match rng.below(4) {
            0 => 1 + rng.usize_below(n),
            1 => n,
            _ => prio::vdaf::prio3::optimal_chunk_length(n),
        };
        let p = Params { kind: Kind::SumVec, max, len, chunk, p: fp };
        let mut cfg = gen_cfg(&mut rng, Kind::SumVec, false);
        cfg.aggs = 2 + rng.below(3) as u8;
        cfg.proofs = 1;
        ctx.trace(|| format!("adaptive cfg {i}: {} {:?}", p.describe(), cfg));
        let mut rng2 = Rng64::derive(ctx.seed, &["c02-adaptive-case"], i * 7001 + ctx.shard as u64);
        let mut v = V02Adaptive { rng: &mut rng2 };
        if let Err(e) = with_prio3(ctx, &p, &cfg, &mut v) {
            ctx.inconclusive(format!("constructor refused {}: {e}", p.describe()));
        }
    }
}

pub fn run(ctx: &mut Ctx) {
    let mut rng = ctx.rng("c02");
    let n_cfg = ctx.budget(10_000, 1_000_000) / ctx.nshards as u64;
    for i in 0..n_cfg {
        let kind = Kind::ALL[(i as usize + ctx.shard) % Kind::ALL.len()];
        // every fifth chunked instance is the multithreaded instantiation, on a larger budget so that
        // chunk lengths beyond 32 / partial blocks occur
        let mt = kind.has_joint_rand() && i % 5 == 2;
        let budget = if mt || rng.chance(1, 10) { 400 } else { 60 };
        let p = gen_params(&mut rng, kind, budget);
        let mut cfg = gen_cfg(&mut rng, kind, false);
        cfg.aggs = match rng.below(6) {
            0 | 1 | 2 => 2,
            3 => 3,
            4 => 5,
            _ => 2 + rng.below(6) as u8,
        };
        cfg.proofs = cfg.proofs.min(3);
        ctx.trace(|| format!("cfg {i}: {} {:?}", p.describe(), cfg));
        let mut rng2 = Rng64::derive(ctx.seed, &["c02-case"], i * 6007 + ctx.shard as u64);
        let mut v = V02 { rng: &mut rng2, tampers: 16 };
        if mt {
            ctx.count("configs_multithreaded_gadget");
        }
        if let Err(e) = with_prio3_ex(ctx, &p, &cfg, &mut v, mt) {
            ctx.inconclusive(format!("constructor refused {}: {e}", p.describe()));
        }
    }
    part_adaptive(ctx);
    if ctx.counters.get("forge_selfcheck_ok").copied().unwrap_or(0) == 0 {
        ctx.inconclusive("forge self-check never matched shard_with_random: invalid-input reports could not be produced");
    }
}
