//! C03: Poplar1 end-to-end — honest reports give exact prefix counts at every level.
//!
//! Oracle: plain prefix counting (and exact heavy hitters) over the plain inputs. Every honest
//! report must be accepted by both aggregators at every admissible aggregation parameter, the two
//! output shares of a report must sum to the indicator vector of its input over the candidate
//! prefixes, and the unsharded aggregate must equal the plain prefix counts. Public share, input
//! shares, verifier shares/messages, output shares, aggregate shares and the aggregation parameter
//! cross their wire encodings; every library call runs under the panic/overflow monitor.
//!
//! Workload: (A) exhaustive candidate sets for bits <= 3; (B) random instances over
//! bits in {1,2,3,5,8,13,64,256,1024} x prefix-set shapes (on-path, siblings along the path, dense
//! random up to 2000 prefixes, long-common-prefix / divergence-at-every-depth / ring-boundary
//! shapes aimed at the RingBufferCache(len) inside eval_and_sketch) x sequences of admissible
//! parameters on the same reports; (C) deep instances bits in {21846, 21847, 21848, 21900, 65535,
//! 65536} at levels {0, 1, mid, 21844..21847, bits-2, bits-1}; (D) full heavy-hitters runs.

use crate::common::*;
use crate::poplar_util::*;
use crate::proto::*;
use prio::codec::{Decode, Encode};
use prio::vdaf::poplar1::{Poplar1, Poplar1AggregationParam};
use prio::vdaf::test_utils::TestVectorClient;
use prio::vdaf::xof::XofTurboShake128;
use prio::vdaf::{Aggregator, Client};
use serde_json::{json, Value};
use std::collections::{HashMap, VecDeque};

type P1 = Poplar1<XofTurboShake128, 32>;

/// First inner level whose correlated-randomness fast-forward count (3 * level) exceeds u16.
const DEEP_LEVEL: usize = 21846;

struct Report {
    nonce: [u8; 16],
    ps: Vec<u8>,
    isb: Vec<Vec<u8>>,
    tape: Option<Vec<u8>>,
}

struct Inst {
    bits: usize,
    vdaf: P1,
    vctx: Vec<u8>,
    key: [u8; 32],
    inputs: Vec<Bits>,
    reports: Vec<Report>,
}

fn bits_class(bits: usize) -> &'static str {
    if bits > DEEP_LEVEL {
        "bits>21846"
    } else {
        "bits<=21846"
    }
}

fn level_class(level: usize, bits: usize) -> String {
    let kind = if level == bits - 1 { "leaf" } else { "inner" };
    let depth = if level >= DEEP_LEVEL { "level>=21846" } else { "level<21846" };
    let top = if level == 0xffff { "|level=0xffff" } else { "" };
    format!("{kind}|{depth}{top}")
}

fn gen_vctx(rng: &mut Rng64) -> Vec<u8> {
    match rng.below(6) {
        0 => vec![],
        1 => vec![rng.u64() as u8],
        2 => rng.bytes(300),
        3 => b"poplar1 ctx".to_vec(),
        _ => {
            let n = rng.usize_below(40);
            rng.bytes(n)
        }
    }
}

fn gen_tape(rng: &mut Rng64) -> Vec<u8> {
    // 2 IDPF keys (16 bytes each) + 3 seeds (32 bytes each), see vdaf.rs TestVectorClient.
    let n = 32 + 3 * 32;
    match rng.below(10) {
        0 => vec![0u8; n],
        1 => vec![0xff; n],
        _ => rng.bytes(n),
    }
}

/// Shard a batch honestly. Any refusal/panic is a violation (returns None then).
fn shard_batch(ctx: &mut Ctx, rng: &mut Rng64, bits: usize, inputs: Vec<Bits>) -> Option<Inst> {
    let vctx = gen_vctx(rng);
    let key: [u8; 32] = rng.array_edge();
    shard_batch_with(ctx, rng, bits, inputs, vctx, key, None)
}

/// As `shard_batch`, with the context, verification key and (optionally) the nonces dictated by
/// the caller, so that several tasks can share some of them.
fn shard_batch_with(ctx: &mut Ctx, rng: &mut Rng64, bits: usize, inputs: Vec<Bits>, vctx: Vec<u8>, key: [u8; 32], nonces: Option<&[[u8; 16]]>) -> Option<Inst> {
    let vdaf = Poplar1::new_turboshake128(bits);
    let mut reports = Vec::with_capacity(inputs.len());
    for (xi, x) in inputs.iter().enumerate() {
        let m = to_input(x);
        let nonce: [u8; 16] = match nonces {
            Some(n) => n[xi % n.len()],
            None => rng.array_edge(),
        };
        let os = rng.chance(1, 4);
        let tape = if os { None } else { Some(gen_tape(rng)) };
        let r = match &tape {
            None => catch(|| vdaf.shard(&vctx, &m, &nonce)),
            Some(t) => catch(|| vdaf.shard_with_random(&vctx, &m, &nonce, t)),
        };
        let wit = |extra: Value| {
            json!({"bits": bits, "input": bits_str(x), "ctx": hex(&vctx), "nonce": hex(&nonce),
                   "random_tape": tape.as_ref().map(|t| hex(t)), "detail": extra})
        };
        let (ps, shares) = match r {
            Ok(Ok(v)) => v,
            Ok(Err(e)) => {
                ctx.violation(format!("shard-err|{}", bits_class(bits)), "honest shard returned an error", wit(json!(e.to_string())));
                return None;
            }
            Err(pi) => {
                ctx.violation(format!("shard-panic|{}|{}", bits_class(bits), pi.class()), "honest shard panicked",
                    wit(json!({"panic": pi.message, "at": pi.location})));
                return None;
            }
        };
        if shares.len() != 2 {
            ctx.violation("shard-share-count", "shard did not return two input shares", wit(json!(shares.len())));
            return None;
        }
        ctx.count(if os { "reports_os_random" } else { "reports_scripted_random" });
        let psb = match catch(|| ps.get_encoded()) {
            Ok(Ok(b)) => b,
            other => {
                ctx.violation(format!("encode-public-share|{}", bits_class(bits)), "public share of an honest report cannot be encoded",
                    wit(json!(format!("{:?}", other.map(|r| r.map(|_| ()).map_err(|e| e.to_string()))))));
                return None;
            }
        };
        // The public share's advertised length must match (it is part of what travels).
        if let Some(l) = ps.encoded_len() {
            if l != psb.len() {
                ctx.violation("encoded_len|public-share", "encoded_len() of the public share differs from the bytes produced",
                    wit(json!({"encoded_len": l, "bytes": psb.len()})));
            }
        }
        // Input shares: encoded with `encode` (the advertised length of Poplar1InputShare is C07's
        // subject and deliberately not judged here).
        let mut isb = vec![];
        for s in &shares {
            let mut b = vec![];
            match catch(|| s.encode(&mut b)) {
                Ok(Ok(())) => isb.push(b),
                _ => {
                    ctx.violation(format!("encode-input-share|{}", bits_class(bits)), "input share of an honest report cannot be encoded", wit(json!(null)));
                    return None;
                }
            }
        }
        reports.push(Report { nonce, ps: psb, isb, tape });
    }
    ctx.max("max_bits", bits as u64);
    ctx.max("max_batch", inputs.len() as u64);
    Some(Inst { bits, vdaf, vctx, key, inputs, reports })
}

/// Model of a FIFO ring of capacity `n` used the way `Idpf::eval` uses its cache; returns
/// (hits, evictions). Only an estimate for the evidence ("did the workload exercise the cache?").
fn simulate_ring(prefixes: &[Bits]) -> (u64, u64) {
    let cap = prefixes.len().max(1);
    let mut ring: VecDeque<Vec<bool>> = VecDeque::new();
    let mut present: HashMap<Vec<bool>, u32> = HashMap::new();
    let (mut hits, mut evictions) = (0u64, 0u64);
    for p in prefixes {
        let mut start = 0usize;
        let mut k = p.len() - 1;
        while k > 0 {
            if present.contains_key(&p[..k]) {
                hits += 1;
                start = k;
                break;
            }
            k -= 1;
        }
        // inserts for levels start..len-1 (inner levels only; the leaf is never cached, but the
        // sim does not know bits: it is an estimate)
        for l in start..p.len() {
            if ring.len() == cap {
                let old = ring.pop_front().unwrap();
                evictions += 1;
                if let Some(c) = present.get_mut(&old) {
                    *c -= 1;
                    if *c == 0 {
                        present.remove(&old);
                    }
                }
            }
            let key = p[..=l].to_vec();
            *present.entry(key.clone()).or_insert(0) += 1;
            ring.push_back(key);
        }
    }
    (hits, evictions)
}

/// Verify every report of `inst` at the parameter given by `prefixes`, aggregate, unshard, and
/// compare with the plain prefix counts. Returns the library's unsharded result if everything
/// completed.
fn run_param(ctx: &mut Ctx, inst: &Inst, prefixes: &[Bits], shape: &str) -> Option<Vec<u64>> {
    let bits = inst.bits;
    let level = prefixes[0].len() - 1;
    let lc = level_class(level, bits);
    let leaf = level == bits - 1;
    let base_wit = |extra: Value| {
        json!({"bits": bits, "level": level, "shape": shape, "prefixes": prefixes_json(prefixes, 8),
               "ctx": hex(&inst.vctx), "verify_key": hex(&inst.key), "detail": extra})
    };
    let param = match make_param(prefixes) {
        Ok(p) => p,
        Err(e) => {
            ctx.violation(format!("param-refused|{lc}"), "an admissible aggregation parameter (sorted distinct equal-length prefixes) was refused",
                base_wit(json!(e)));
            return None;
        }
    };
    // The aggregation parameter crosses the wire too.
    let param = match catch(|| param.get_encoded()) {
        Ok(Ok(b)) => match catch(|| Poplar1AggregationParam::get_decoded(&b)) {
            Ok(Ok(p2)) => {
                if p2 != param {
                    ctx.violation(format!("agg-param-wire|{lc}|roundtrip-differs"), "aggregation parameter changed by its wire round trip", base_wit(json!(hex_trunc(&b, 64))));
                }
                if let Some(l) = param.encoded_len() {
                    if l != b.len() {
                        ctx.violation(format!("agg-param-wire|{lc}|encoded_len"), "encoded_len() of the aggregation parameter differs from the bytes produced",
                            base_wit(json!({"encoded_len": l, "bytes": b.len()})));
                    }
                }
                ctx.count("agg_params_through_wire");
                // The decoder rebuilds every prefix in fresh, aligned storage. An aggregator that built the
                // parameter itself uses it as constructed (prefixes backed by arbitrary storage offsets, see
                // `to_input`), so every other parameter is used as constructed; both are equal values.
                if digest(&[&b]) % 2 == 0 {
                    ctx.count("agg_params_used_as_constructed");
                    param
                } else {
                    p2
                }
            }
            Ok(Err(e)) => {
                ctx.violation(format!("agg-param-wire|{lc}|decode-err"), "encoded admissible aggregation parameter refused by its decoder", base_wit(json!(e.to_string())));
                param
            }
            Err(pi) => {
                ctx.violation(format!("agg-param-wire|{lc}|decode-panic|{}", pi.class()), "decoder of the aggregation parameter panicked on an honest encoding",
                    base_wit(json!({"panic": pi.message, "at": pi.location})));
                param
            }
        },
        Ok(Err(e)) => {
            ctx.violation(format!("agg-param-wire|{lc}|encode-err"), "admissible aggregation parameter cannot be encoded", base_wit(json!(e.to_string())));
            param
        }
        Err(pi) => {
            ctx.violation(format!("agg-param-wire|{lc}|encode-panic|{}", pi.class()), "encoding an admissible aggregation parameter panicked",
                base_wit(json!({"panic": pi.message, "at": pi.location})));
            param
        }
    };

    let m255 = M255::new();
    let want = prefix_counts(prefixes, &inst.inputs);
    let mut stats = WireStats::default();
    let mut anomaly: Option<String> = None;
    let mut outputs = vec![];
    let mut ok = true;
    for (r, rep) in inst.reports.iter().enumerate() {
        let out = verify_report_simple::<P1, 32>(&inst.vdaf, &inst.key, &inst.vctx, &param, &rep.nonce, &rep.ps, &rep.isb, &mut no_tamper, &mut stats, &mut anomaly);
        ctx.eval();
        ctx.count("verifications");
        if level >= DEEP_LEVEL {
            ctx.count(if leaf { "verifications_leaf_level_ge_21846" } else { "verifications_inner_level_ge_21846" });
        }
        let wit = |extra: Value| {
            let mut w = base_wit(extra);
            w["report_index"] = json!(r);
            w["input"] = json!(bits_str(&inst.inputs[r]));
            w["nonce"] = json!(hex(&rep.nonce));
            w["random_tape"] = json!(rep.tape.as_ref().map(|t| hex(t)));
            // scripted reports are reproducible from the tape; OS-random ones need the shares
            let cap = if rep.tape.is_some() { 128 } else { 16384 };
            w["public_share"] = json!(hex_trunc(&rep.ps, cap));
            w["input_shares"] = json!(rep.isb.iter().map(|b| hex_trunc(b, cap)).collect::<Vec<_>>());
            w
        };
        match out {
            Outcome::Finished(o) => {
                let a = o[0].get_encoded().unwrap_or_default();
                let b = o[1].get_encoded().unwrap_or_default();
                let got = sum_output_shares(&a, &b, leaf, prefixes.len(), &m255);
                let ind: Vec<Option<u64>> = prefixes.iter().map(|p| Some(is_prefix(p, &inst.inputs[r]) as u64)).collect();
                if got.as_ref() != Some(&ind) {
                    ctx.violation(format!("output-shares|{lc}"), "output shares of an honest report do not sum to the indicator vector of its input",
                        wit(json!({"got": format!("{:?}", got.map(|v| v.into_iter().take(16).collect::<Vec<_>>()))})));
                    ok = false;
                }
                outputs.push(o);
            }
            Outcome::Rejected(stage, e) => {
                ctx.violation(format!("rejected@{stage}|{lc}"), "honest report rejected at an admissible aggregation parameter", wit(json!({"stage": stage, "err": e})));
                ok = false;
            }
            Outcome::Panicked(stage, pi) => {
                ctx.violation(format!("panic@{stage}|{lc}|{}", pi.class()), "panic while verifying an honest report at an admissible aggregation parameter",
                    wit(json!({"stage": stage, "panic": pi.message, "at": pi.location})));
                ok = false;
            }
            Outcome::Desync(s) => {
                ctx.violation(format!("desync|{lc}"), "aggregators did not finish in the same round", wit(json!(s)));
                ok = false;
            }
        }
    }
    if let Some(a) = anomaly.take() {
        ctx.violation(format!("encoded_len|protocol-message|{lc}"), "encoded_len() of a protocol message disagrees with the bytes produced / encode failed", base_wit(json!(a)));
    }
    ctx.count_n("wire_messages", stats.messages);
    ctx.count_n("wire_bytes", stats.bytes);
    ctx.count(if leaf { "params_leaf_level" } else { "params_inner_level" });
    ctx.max("max_prefixes", prefixes.len() as u64);
    ctx.max("max_level", level as u64);
    if prefixes.len() >= 1000 {
        ctx.count("params_ge_1000_prefixes");
    }
    if !ok {
        return None;
    }
    let n = outputs.len();
    let mut anomaly2 = None;
    let res = aggregate_and_unshard::<P1, 32>(&inst.vdaf, &param, outputs, &mut anomaly2);
    ctx.eval();
    if let Some(a) = anomaly2 {
        ctx.violation(format!("encoded_len|aggregate-share|{lc}"), "encoded_len() of an aggregate share disagrees with the bytes produced", base_wit(json!(a)));
    }
    match res {
        Ok(v) => {
            if v != want {
                ctx.violation(format!("aggregate|{lc}"), "unsharded result differs from the plain prefix counts",
                    base_wit(json!({"reports": n, "got": v.iter().take(16).collect::<Vec<_>>(), "want": want.iter().take(16).collect::<Vec<_>>(),
                                    "inputs": inst.inputs.iter().take(8).map(|x| bits_str(x)).collect::<Vec<_>>()})));
                return None;
            }
            ctx.count("aggregations_checked");
            if want.iter().any(|c| *c >= 2) {
                ctx.count("aggregations_with_count_ge_2");
            }
            if want.iter().all(|c| *c == 0) {
                ctx.count("aggregations_all_zero");
            }
            // Evidence: distinct (bits, level, shape, set size, batch size).
            ctx.nontrivial(digest_str(&format!("{bits}|{level}|{shape}|{}|{}", prefixes.len(), n)));
            ctx.count(&format!("shape_{shape}"));
            ctx.set_insert("bits_seen", format!("{bits}"));
            // Cache-interaction estimate (bounded cost).
            let l = level + 1;
            if prefixes.len() >= 2 && prefixes.len() * l * l <= 20_000_000 {
                let (h, e) = simulate_ring(prefixes);
                ctx.count_n("cache_sim_hits", h);
                ctx.count_n("cache_sim_evictions", e);
                if h > 0 && e > 0 {
                    ctx.count("params_with_cache_hits_and_evictions");
                }
            }
            ctx.sample(|| json!({"bits": bits, "level": level, "shape": shape, "prefixes": prefixes_json(prefixes, 4), "reports": n,
                                 "counts": want.iter().take(8).collect::<Vec<_>>()}));
            Some(v)
        }
        Err((e, None)) => {
            ctx.violation(format!("unshard-err|{lc}"), "aggregate/unshard of honest output shares failed", base_wit(json!(e)));
            None
        }
        Err((e, Some(pi))) => {
            ctx.violation(format!("unshard-panic|{lc}|{}", pi.class()), "aggregate/unshard panicked", base_wit(json!({"err": e, "panic": pi.message, "at": pi.location})));
            None
        }
    }
}

// ---------------------------------------------------------------------------------------------
// Workload generators
// ---------------------------------------------------------------------------------------------

fn gen_inputs(rng: &mut Rng64, bits: usize, batch: usize) -> Vec<Bits> {
    let mut v: Vec<Bits> = vec![];
    for _ in 0..batch {
        let x = match rng.below(10) {
            // duplicates
            0 | 1 | 2 if !v.is_empty() => v[rng.usize_below(v.len())].clone(),
            // shares a long prefix with an earlier input
            3 | 4 if !v.is_empty() && bits > 1 => {
                let mut x = v[rng.usize_below(v.len())].clone();
                let d = rng.usize_below(bits);
                for b in x[d..].iter_mut() {
                    *b = rng.bool();
                }
                x
            }
            5 => vec![false; bits],
            6 => vec![true; bits],
            _ => random_bits(rng, bits),
        };
        v.push(x);
    }
    v
}

const SHAPES: [&str; 7] = ["onpath", "siblings", "dense", "longcommon", "everydepth", "ringboundary", "full"];

/// A sibling of `x` at depth `d` (differs from x first at bit d), of length level+1.
fn diverge(rng: &mut Rng64, x: &[bool], d: usize, level: usize, mirror: bool) -> Bits {
    let mut p = x[..=level].to_vec();
    p[d] = !p[d];
    if !mirror {
        for b in p[d + 1..].iter_mut() {
            *b = rng.bool();
        }
    }
    p
}

fn gen_prefix_set(rng: &mut Rng64, shape: &str, inputs: &[Bits], level: usize, maxn: usize) -> Vec<Bits> {
    let l = level + 1;
    let x = inputs[rng.usize_below(inputs.len())].clone();
    let full_size = if l <= 11 { Some(1usize << l) } else { None };
    let mut out: Vec<Bits> = vec![];
    match shape {
        "onpath" => {
            for y in inputs {
                out.push(y[..l].to_vec());
            }
            if out.len() > maxn {
                out.truncate(maxn);
            }
        }
        "siblings" | "everydepth" => {
            let mirror = shape == "siblings";
            out.push(x[..l].to_vec());
            if l <= maxn.saturating_sub(1) {
                for d in 0..l {
                    out.push(diverge(rng, &x, d, level, mirror));
                }
            } else {
                out.push(diverge(rng, &x, 0, level, mirror));
                out.push(diverge(rng, &x, level, level, mirror));
                for _ in 0..maxn.saturating_sub(3) {
                    let d = rng.usize_below(l);
                    out.push(diverge(rng, &x, d, level, mirror));
                }
            }
        }
        "dense" => {
            let n = 1 + rng.usize_below(maxn);
            if let Some(f) = full_size {
                if n >= f {
                    return gen_prefix_set(rng, "full", inputs, level, maxn);
                }
            }
            for _ in 0..n {
                if rng.chance(1, 8) {
                    let y = &inputs[rng.usize_below(inputs.len())];
                    out.push(y[..l].to_vec());
                } else {
                    out.push(random_bits(rng, l));
                }
            }
        }
        "longcommon" => {
            // all candidates share x[..l-t] and differ only in the last t bits
            let n = 2 + rng.usize_below(maxn.max(3) - 1);
            let mut t = 1;
            while (1usize << t) < 2 * n && t < l && t < 20 {
                t += 1;
            }
            out.push(x[..l].to_vec());
            for _ in 0..n {
                let mut p = x[..l].to_vec();
                for b in p[l - t..].iter_mut() {
                    *b = rng.bool();
                }
                out.push(p);
            }
        }
        "ringboundary" => {
            // N candidates; divergence depths concentrated where the FIFO ring of capacity N has
            // just evicted (depth ~ level - N), plus very early and very late divergences.
            let n = (2 + rng.usize_below(maxn.clamp(3, 48) - 1)).min(maxn.max(2));
            out.push(x[..l].to_vec());
            for i in 0..n {
                let around = level as i64 - n as i64 + (rng.below(7) as i64 - 3);
                let d = match i % 4 {
                    0 => around.clamp(0, level as i64) as usize,
                    1 => level - rng.usize_below(l.min(3)),
                    2 => rng.usize_below(l.min(3)),
                    _ => rng.usize_below(l),
                };
                let mirror = rng.bool();
                out.push(diverge(rng, &x, d, level, mirror));
            }
        }
        "full" => {
            if let Some(f) = full_size {
                if f <= maxn.max(2) {
                    for v in 0..f {
                        out.push((0..l).map(|i| (v >> (l - 1 - i)) & 1 == 1).collect());
                    }
                } else {
                    return gen_prefix_set(rng, "dense", inputs, level, maxn);
                }
            } else {
                return gen_prefix_set(rng, "dense", inputs, level, maxn);
            }
        }
        _ => unreachable!(),
    }
    let mut out = normalize(out);
    if out.len() > maxn.max(1) {
        // keep a contiguous run so that the sorted structure (shared prefixes) is preserved
        let s = rng.usize_below(out.len() - maxn.max(1) + 1);
        out = out[s..s + maxn.max(1)].to_vec();
    }
    out
}

/// Candidates at `level` that extend the candidates `prev` (an admissible successor parameter).
fn extend_set(rng: &mut Rng64, prev: &[Bits], inputs: &[Bits], level: usize, maxn: usize, shrink: bool) -> Vec<Bits> {
    let l = level + 1;
    let mut out = vec![];
    for p in prev {
        // on-path extensions
        for y in inputs {
            if is_prefix(p, y) && rng.chance(3, 4) {
                out.push(y[..l].to_vec());
            }
        }
        // random extensions
        let k = if shrink { rng.usize_below(2) } else { 1 + rng.usize_below(2) };
        for _ in 0..k {
            let mut q = p.clone();
            while q.len() < l {
                q.push(rng.bool());
            }
            out.push(q);
        }
    }
    let mut out = normalize(out);
    if out.is_empty() {
        let mut q = prev[0].clone();
        while q.len() < l {
            q.push(false);
        }
        out.push(q);
    }
    if shrink && out.len() > 1 {
        let keep = 1 + rng.usize_below(out.len());
        rng.shuffle(&mut out);
        out.truncate(keep);
        out = normalize(out);
    }
    if out.len() > maxn.max(1) {
        let s = rng.usize_below(out.len() - maxn.max(1) + 1);
        out = out[s..s + maxn.max(1)].to_vec();
    }
    out
}

fn check_sequence_admissible(ctx: &mut Ctx, seq: &[Vec<Bits>]) {
    // Observation only (admissibility is C20's subject): the library's own rule should accept the
    // sequences this driver calls admissible.
    let params: Vec<Poplar1AggregationParam> = seq.iter().filter_map(|s| make_param(s).ok()).collect();
    if params.len() != seq.len() {
        return;
    }
    for i in 1..params.len() {
        let okv = catch(|| <P1 as Aggregator<32, 16>>::is_agg_param_valid(&params[i], &params[..i]));
        match okv {
            Ok(true) => ctx.count("seq_steps_admissible_per_library"),
            _ => {
                ctx.count("seq_steps_NOT_admissible_per_library");
                ctx.note("is_agg_param_valid rejected a successor parameter that this driver generated as admissible (see C20)");
            }
        }
    }
}

fn levels_of_interest(rng: &mut Rng64, bits: usize) -> Vec<usize> {
    let mut v = vec![0usize, 1, bits / 2, bits.saturating_sub(2), bits - 1];
    v.push(rng.usize_below(bits));
    v.retain(|l| *l < bits);
    v.sort();
    v.dedup();
    v
}

fn part_exhaustive(ctx: &mut Ctx) {
    let mut rng = ctx.rng("c03-exhaustive");
    let mut case = 0u64;
    for bits in 1..=3usize {
        let mut inputs: Vec<Bits> = (0..1usize << bits).map(|v| (0..bits).map(|i| (v >> (bits - 1 - i)) & 1 == 1).collect()).collect();
        let extra = rng.usize_below(4);
        for _ in 0..extra {
            let d = inputs[rng.usize_below(1 << bits)].clone();
            inputs.push(d);
        }
        let mut inst: Option<Inst> = None;
        for level in 0..bits {
            let l = level + 1;
            let all: Vec<Bits> = (0..1usize << l).map(|v| (0..l).map(|i| (v >> (l - 1 - i)) & 1 == 1).collect()).collect();
            for mask in 1u32..(1u32 << all.len()) {
                case += 1;
                if !ctx.mine(case) {
                    continue;
                }
                if inst.is_none() {
                    inst = shard_batch(ctx, &mut rng, bits, inputs.clone());
                    if inst.is_none() {
                        return;
                    }
                }
                let set: Vec<Bits> = all.iter().enumerate().filter(|(i, _)| mask >> i & 1 == 1).map(|(_, p)| p.clone()).collect();
                if run_param(ctx, inst.as_ref().unwrap(), &set, "exhaustive").is_some() {
                    ctx.count("exhaustive_small_sets_checked");
                }
            }
        }
    }
}

fn part_random(ctx: &mut Ctx) {
    let mut rng = ctx.rng("c03-random");
    const BITS: [usize; 9] = [1, 2, 3, 5, 8, 13, 64, 256, 1024];
    // Work units ~ number of single-prefix evaluations at depth 64 (very roughly).
    let mut budget: i64 = ctx.budget(40_000, 1_200_000) as i64;
    let mut i = 0usize;
    while budget > 0 {
        let bits = BITS[(i + ctx.shard) % BITS.len()];
        i += 1;
        let batch = match rng.below(8) {
            0 => 1,
            1 => 2,
            2 => 64,
            _ => 1 + rng.usize_below(if bits >= 256 { 8 } else { 40 }),
        };
        let batch = if bits >= 1024 { batch.min(4) } else if bits >= 256 { batch.min(16) } else { batch };
        let inputs = gen_inputs(&mut rng, bits, batch);
        let dup = {
            let mut s = inputs.clone();
            s.sort();
            s.dedup();
            s.len() < inputs.len()
        };
        if dup {
            ctx.count("batches_with_duplicates");
        }
        ctx.trace(|| format!("random inst {i}: bits={bits} batch={batch}"));
        let Some(inst) = shard_batch(ctx, &mut rng, bits, inputs) else { continue };
        budget -= (batch * bits / 64 + 1) as i64;
        // How many prefixes can we afford here?
        let cost_per_prefix = (bits as i64 / 64 + 1) * batch as i64;
        let maxn_cap = ((budget.max(1) / 4) / cost_per_prefix.max(1)).clamp(2, 2000) as usize;
        let mode = rng.below(4);
        match mode {
            // single parameters at interesting levels with every shape
            0 | 1 => {
                for level in levels_of_interest(&mut rng, bits) {
                    let shape = SHAPES[rng.usize_below(SHAPES.len())];
                    let maxn = match rng.below(4) {
                        0 => maxn_cap,
                        1 => maxn_cap.min(200),
                        _ => maxn_cap.min(24),
                    };
                    let set = gen_prefix_set(&mut rng, shape, &inst.inputs, level, maxn);
                    budget -= set.len() as i64 * ((level as i64 + 1) / 64 + 1) * batch as i64;
                    run_param(ctx, &inst, &set, shape);
                    if budget <= 0 {
                        break;
                    }
                }
            }
            // sequence: each level once (small bits) or skipping levels, growing/shrinking sets
            _ => {
                let shrink = mode == 3;
                let levels: Vec<usize> = if bits <= 13 && rng.bool() {
                    (0..bits).collect()
                } else {
                    let mut v = vec![];
                    let mut l = rng.usize_below(bits.min(4));
                    while l < bits {
                        v.push(l);
                        l += 1 + rng.usize_below((bits / 4).max(1));
                    }
                    if rng.bool() && *v.last().unwrap() != bits - 1 {
                        v.push(bits - 1);
                    }
                    v
                };
                let maxn = maxn_cap.min(if rng.chance(1, 5) { 300 } else { 16 });
                let first_shape = SHAPES[rng.usize_below(SHAPES.len())];
                let mut seq: Vec<Vec<Bits>> = vec![];
                for (k, level) in levels.iter().enumerate() {
                    let set = if k == 0 {
                        gen_prefix_set(&mut rng, first_shape, &inst.inputs, *level, maxn)
                    } else {
                        extend_set(&mut rng, seq.last().unwrap(), &inst.inputs, *level, maxn, shrink)
                    };
                    seq.push(set);
                }
                check_sequence_admissible(ctx, &seq);
                let tag = if levels.len() == bits { "seq-every-level" } else if shrink { "seq-skipping-shrinking" } else { "seq-skipping" };
                let mut completed = 0;
                for set in &seq {
                    budget -= set.len() as i64 * ((set[0].len() as i64) / 64 + 1) * batch as i64;
                    if run_param(ctx, &inst, set, tag).is_some() {
                        completed += 1;
                    }
                }
                if completed == seq.len() && seq.len() >= 2 {
                    ctx.count("sequences_completed");
                    ctx.max("max_sequence_len", seq.len() as u64);
                }
            }
        }
    }
}

/// Several aggregation tasks that share some of (nonce sequence, context, verification key) and
/// differ in the rest are verified INTERLEAVED on one thread (task A report 0, task B report 0, A
/// again, ...). Any state carried from one call to the next (a memo keyed by only part of what the
/// derived value depends on, a cache that outlives its report) shows up as a rejected honest report
/// or a wrong count. Ordinary use has random nonces and one context per thread and never collides.
fn part_shared_state(ctx: &mut Ctx) {
    let mut rng = ctx.rng("c03-shared-state");
    let n_cases = (ctx.budget(1_600, 40_000) / ctx.nshards as u64).max(4);
    for case in 0..n_cases {
        let bits = *rng.choose(&[2usize, 3, 5, 8, 16, 16, 64, 130]);
        let n_tasks = 2 + rng.usize_below(3);
        let batch = 1 + rng.usize_below(3);
        // what the tasks share
        let share_nonce = rng.chance(4, 5);
        let share_ctx = rng.chance(1, 4);
        let share_key = rng.bool();
        let base_ctx = gen_vctx(&mut rng);
        let base_ctx = if base_ctx.len() > 200 { base_ctx[..40].to_vec() } else { base_ctx };
        let base_key: [u8; 32] = rng.array_edge();
        let nonce_style = rng.below(3);
        let base_nonces: Vec<[u8; 16]> = (0..batch)
            .map(|j| match nonce_style {
                0 => {
                    let mut n = [0u8; 16]; // counter nonces
                    n[15] = j as u8;
                    n
                }
                1 => [0xabu8; 16], // one nonce for everything
                _ => rng.array(),
            })
            .collect();
        let mut insts = vec![];
        for t in 0..n_tasks {
            let vctx = if share_ctx {
                base_ctx.clone()
            } else {
                match t {
                    0 => base_ctx.clone(),
                    1 => {
                        let mut c = base_ctx.clone();
                        c.push(1);
                        c
                    }
                    2 => {
                        let mut c = base_ctx.clone();
                        if c.is_empty() {
                            c.push(7)
                        } else {
                            let k = c.len() - 1;
                            c[k] ^= 0x80;
                        }
                        c
                    }
                    _ => { let n = 1 + rng.usize_below(20); rng.bytes(n) }
                }
            };
            let key = if share_key { base_key } else { rng.array() };
            let nonces: Vec<[u8; 16]> = if share_nonce { base_nonces.clone() } else { (0..batch).map(|_| rng.array()).collect() };
            let inputs = gen_inputs(&mut rng, bits, batch);
            match shard_batch_with(ctx, &mut rng, bits, inputs, vctx, key, Some(&nonces)) {
                Some(i) => insts.push(i),
                None => break,
            }
        }
        if insts.len() != n_tasks {
            continue;
        }
        ctx.trace(|| format!("shared-state case {case}: bits={bits} tasks={n_tasks} share nonce/ctx/key={share_nonce}/{share_ctx}/{share_key}"));
        // levels: an inner one and the leaf (when distinct), same for all tasks
        let mut levels = vec![bits - 1];
        if bits > 1 {
            levels.push(rng.usize_below(bits - 1));
        }
        let mut all_ok = true;
        for level in levels {
            let sets: Vec<Vec<Bits>> = insts.iter().map(|i| { let sh = if rng.bool() { "onpath" } else { "siblings" }; gen_prefix_set(&mut rng, sh, &i.inputs, level, 12) }).collect();
            for round in 0..2 {
                let mut order: Vec<usize> = (0..n_tasks).collect();
                if round == 1 {
                    rng.shuffle(&mut order);
                }
                for &t in &order {
                    if run_param(ctx, &insts[t], &sets[t], "shared-state-interleaved").is_none() {
                        all_ok = false;
                    }
                }
            }
        }
        if all_ok {
            ctx.count("shared_state_cases_completed");
            if share_nonce && !share_ctx {
                ctx.count("shared_state_cases_same_nonce_other_ctx");
            }
            if share_nonce && share_ctx && !share_key {
                ctx.count("shared_state_cases_same_nonce_same_ctx_other_key");
            }
            if !share_nonce && share_ctx {
                ctx.count("shared_state_cases_other_nonce_same_ctx");
            }
        }
    }
}

fn part_deep(ctx: &mut Ctx) {
    let mut rng = ctx.rng("c03-deep");
    const DEEP_BITS: [usize; 6] = [21846, 21847, 21848, 21900, 65535, 65536];
    let n = ctx.budget(2, 36);
    for k in 0..n as usize {
        let bits = DEEP_BITS[(ctx.shard + k + (ctx.seed as usize % 6)) % DEEP_BITS.len()];
        let batch = 1 + (k % 2);
        let inputs = gen_inputs(&mut rng, bits, batch);
        ctx.trace(|| format!("deep inst {k}: bits={bits} batch={batch}"));
        let Some(inst) = shard_batch(ctx, &mut rng, bits, inputs) else { continue };
        let mut levels: Vec<usize> = vec![0, 1, bits / 2, 21844, 21845, 21846, 21847, 21848, 30000, 43690, 43691, 65533, 65534, 65535, bits - 2, bits - 1];
        levels.retain(|l| *l < bits);
        levels.sort();
        levels.dedup();
        // Always the deepest inner level and the leaf; plus a rotating choice of the others
        // (quick), or all of them (every fourth instance in thorough).
        let mut chosen: Vec<usize> = vec![bits - 2, bits - 1];
        if !ctx.quick() && k % 4 == 0 {
            chosen = levels.clone();
        } else {
            for j in 0..3 {
                chosen.push(levels[(ctx.shard * 3 + k * 5 + j * 7 + ctx.seed as usize) % levels.len()]);
            }
            // first level past the u16 fast-forward boundary, when it is an inner level
            if bits >= 21848 {
                chosen.push(21846);
            }
        }
        chosen.sort();
        chosen.dedup();
        let mut seq: Vec<Vec<Bits>> = vec![];
        for level in chosen {
            let shape = match rng.below(4) {
                0 => "onpath",
                1 => "siblings",
                2 => "ringboundary",
                _ => "everydepth",
            };
            let set = if seq.is_empty() || rng.bool() {
                gen_prefix_set(&mut rng, shape, &inst.inputs, level, 4)
            } else {
                extend_set(&mut rng, seq.last().unwrap(), &inst.inputs, level, 4, false)
            };
            ctx.trace(|| format!("  deep level {level} n={}", set.len()));
            if run_param(ctx, &inst, &set, "deep").is_some() {
                ctx.count("deep_params_completed");
            }
            seq.push(set);
        }
    }
}

/// Large candidate sets (up to 2000 prefixes) at deep-ish levels: guaranteed presence in every run.
fn part_big_sets(ctx: &mut Ctx) {
    let mut rng = ctx.rng("c03-bigsets");
    let configs: Vec<(usize, usize)> = if ctx.quick() {
        // (bits, number of prefixes)
        vec![[(64, 2000), (256, 1200), (13, 2000), (64, 1000)][ctx.shard % 4]]
    } else {
        vec![(64, 2000), (256, 2000), (1024, 2000), (13, 2000)]
    };
    for (bits, n) in configs {
        let batch = 1 + rng.usize_below(3);
        let inputs = gen_inputs(&mut rng, bits, batch);
        let Some(inst) = shard_batch(ctx, &mut rng, bits, inputs) else { continue };
        for level in [bits - 1, bits / 2 + 5] {
            if level >= bits {
                continue;
            }
            let shape = ["dense", "longcommon", "everydepth"][rng.usize_below(3)];
            let mut set = gen_prefix_set(&mut rng, shape, &inst.inputs, level, n);
            if set.len() < n / 2 {
                // top up with random prefixes sharing a long prefix with an input
                let x = inst.inputs[0].clone();
                let mut more = set.clone();
                while more.len() < n && (level + 1 >= 12 || more.len() < (1usize << (level + 1))) {
                    let d = level - rng.usize_below((level + 1).min(16));
                    more.push(diverge(&mut rng, &x, d, level, false));
                    if more.len() % 64 == 0 {
                        more = normalize(more);
                    }
                }
                set = normalize(more);
            }
            if run_param(ctx, &inst, &set, "bigset").is_some() {
                ctx.count("bigset_params_completed");
            }
        }
    }
}

/// Deterministic Zipf(support, s) sampler by inverse CDF.
fn zipf_batch(rng: &mut Rng64, bits: usize, support: usize, s: f64, n: usize) -> Vec<Bits> {
    let items: Vec<Bits> = (0..support).map(|_| random_bits(rng, bits)).collect();
    let w: Vec<f64> = (1..=support).map(|k| 1.0 / (k as f64).powf(s)).collect();
    let tot: f64 = w.iter().sum();
    (0..n)
        .map(|_| {
            let u = (rng.u64() >> 11) as f64 / (1u64 << 53) as f64 * tot;
            let mut acc = 0.0;
            let mut idx = support - 1;
            for (k, x) in w.iter().enumerate() {
                acc += x;
                if u < acc {
                    idx = k;
                    break;
                }
            }
            items[idx].clone()
        })
        .collect()
}

fn heavy_hitters(ctx: &mut Ctx, rng: &mut Rng64, bits: usize, n: usize, support: usize, threshold: u64) {
    let inputs = zipf_batch(rng, bits, support, 1.03, n);
    let Some(inst) = shard_batch(ctx, rng, bits, inputs) else { return };
    let mut cands: Vec<Bits> = vec![vec![false], vec![true]];
    let mut result: Vec<Bits> = vec![];
    let mut complete = true;
    let mut seq = vec![];
    for level in 0..bits {
        if cands.is_empty() {
            break;
        }
        seq.push(cands.clone());
        let Some(counts) = run_param(ctx, &inst, &cands, "heavy-hitters") else {
            complete = false;
            break;
        };
        ctx.count("hh_levels");
        let survivors: Vec<Bits> = cands.iter().zip(counts.iter()).filter(|(_, c)| **c >= threshold).map(|(p, _)| p.clone()).collect();
        if level == bits - 1 {
            result = survivors;
        } else {
            cands = vec![];
            for p in survivors {
                let mut a = p.clone();
                a.push(false);
                let mut b = p;
                b.push(true);
                cands.push(a);
                cands.push(b);
            }
        }
    }
    if !complete {
        return;
    }
    if bits <= 64 {
        check_sequence_admissible(ctx, &seq);
    }
    // Exact heavy hitters over the plain inputs.
    let mut tally: HashMap<&Bits, u64> = HashMap::new();
    for x in &inst.inputs {
        *tally.entry(x).or_insert(0) += 1;
    }
    let mut exact: Vec<Bits> = tally.iter().filter(|(_, c)| **c >= threshold).map(|(x, _)| (*x).clone()).collect();
    exact.sort();
    result.sort();
    ctx.eval();
    if exact != result {
        ctx.violation("heavy-hitters", "the iterative heavy-hitters procedure did not return exactly the strings occurring >= threshold times",
            json!({"bits": bits, "threshold": threshold, "inputs": inst.inputs.iter().take(64).map(|x| bits_str(x)).collect::<Vec<_>>(),
                   "got": result.iter().map(|x| bits_str(x)).collect::<Vec<_>>(), "want": exact.iter().map(|x| bits_str(x)).collect::<Vec<_>>()}));
    } else {
        ctx.count("hh_runs_completed");
        ctx.count_n("hh_heavy_hitters_found", exact.len() as u64);
        ctx.max("hh_max_reports", n as u64);
        ctx.max("hh_max_bits", bits as u64);
        ctx.nontrivial(digest_str(&format!("hh|{bits}|{n}|{threshold}|{}", exact.len())));
    }
}

fn part_heavy_hitters(ctx: &mut Ctx) {
    let mut rng = ctx.rng("c03-hh");
    if ctx.quick() {
        let bits = [4usize, 8, 16, 24, 32][ctx.shard % 5];
        let n = 12 + rng.usize_below(20);
        let t = 2 + rng.below(3);
        heavy_hitters(ctx, &mut rng, bits, n, 6, t);
    } else {
        // The big run (64 bits, 500 Zipf-distributed inputs) on four shards with different
        // thresholds/supports; smaller runs elsewhere.
        if ctx.shard % 4 == 0 {
            let support = [32usize, 64, 128, 16][(ctx.shard / 4) % 4];
            let t = [10u64, 5, 20, 40][(ctx.shard / 4) % 4];
            heavy_hitters(ctx, &mut rng, 64, 500, support, t);
        } else {
            for _ in 0..3 {
                let bits = [3usize, 8, 16, 32, 64, 128, 256][rng.usize_below(7)];
                let n = 20 + rng.usize_below(if bits > 64 { 40 } else { 150 });
                let t = 1 + rng.below(6);
                let support = 4 + rng.usize_below(30);
                heavy_hitters(ctx, &mut rng, bits, n, support, t);
            }
        }
    }
}

pub fn run(ctx: &mut Ctx) {
    let parts: [(&str, fn(&mut Ctx)); 6] = [
        ("exhaustive", part_exhaustive),
        ("shared_state", part_shared_state),
        ("heavy_hitters", part_heavy_hitters),
        ("deep", part_deep),
        ("big_sets", part_big_sets),
        ("random", part_random),
    ];
    for (name, f) in parts {
        let t0 = std::time::Instant::now();
        f(ctx);
        ctx.max(&format!("part_{name}_wall_ms"), t0.elapsed().as_millis() as u64);
    }
    // Anti-vacuity per shard: every shard is responsible for each of the four parts.
    let c = |ctx: &Ctx, k: &str| ctx.counters.get(k).copied().unwrap_or(0);
    if ctx.violations.is_empty() {
        if c(ctx, "exhaustive_small_sets_checked") == 0 {
            ctx.inconclusive("no exhaustive small candidate set completed on this shard");
        }
        if c(ctx, "hh_runs_completed") == 0 {
            ctx.inconclusive("no heavy-hitters run completed on this shard");
        }
        if c(ctx, "deep_params_completed") == 0 {
            ctx.inconclusive("no deep-instance parameter completed on this shard");
        }
        if c(ctx, "aggregations_checked") < 10 {
            ctx.inconclusive("fewer than 10 aggregations compared on this shard");
        }
    }
}
