//! C04: Poplar1 robustness — accepted reports contribute a zero or one-hot 0/1 vector.
//!
//! Oracles (both with 3-fresh-verification-keys confirmation before anything is reported):
//!   (G) whenever both aggregators Finish, the sum of the two output shares (decoded from their
//!       wire bytes by the harness) over the candidate prefixes is all-zero or one-hot with value 1;
//!   (R) a report built by one of the listed malicious strategies is not accepted when the
//!       aggregation parameter queries an affected candidate. Which candidates are affected is
//!       derived from the sketch algebra: for a point function with value (v, w) on the path and
//!       correlated randomness (a, b, c, A*, B*) the verifier is the polynomial
//!           r^2 (v^2 - v) + r (A* v + 2 a v - w) + (A* a + B* + a^2 - b - c)
//!       in the verification randomness r of the on-path candidate (only the constant term when
//!       the on-path candidate is not queried); rejection is demanded iff a coefficient is != 0.
//!
//! The malicious client uses the public API only: `Idpf::gen` with arbitrary programmed values,
//! input shares materialised by DECODING crafted bytes, correlated randomness derived with the
//! public XOF API (poplar_util.rs; cross-checked against `shard_with_random` on honest inputs in
//! the same run), and byte alterations of anything that crosses the wire.
//!
//! Deliberately NOT in the workload (would be false alarms, see NOTES.md): an in-transit adversary
//! that replaces BOTH round-two verifier shares by values chosen to cancel (e.g. both zero), or
//! substitutes the (empty) round-two message: no two-party sketch can resist that, the protocol
//! relies on each aggregator combining the shares itself.

use crate::common::*;
use crate::poplar_util::*;
use crate::proto::*;
use num_bigint::BigUint;
use num_traits::Zero;
use prio::codec::{Decode, Encode, ParameterizedDecode};
use prio::field::{Field255, Field64};
use prio::idpf::{Idpf, IdpfOutputShare, NoCache};
use prio::vdaf::poplar1::{Poplar1, Poplar1AggregationParam, Poplar1FieldVec, Poplar1IdpfValue, Poplar1InputShare, Poplar1PublicShare, Poplar1VerifierMessage, Poplar1VerifierState};
use prio::vdaf::test_utils::TestVectorClient;
use prio::vdaf::xof::{Seed, XofTurboShake128};
use prio::vdaf::{Aggregator, VerifyTransition};
use serde_json::{json, Value};

type P1 = Poplar1<XofTurboShake128, 32>;
type PIdpf = Idpf<Poplar1IdpfValue<Field64>, Poplar1IdpfValue<Field255>>;

#[derive(Clone)]
struct Art {
    bits: usize,
    alpha: Bits,
    vctx: Vec<u8>,
    nonce: [u8; 16],
    ps: Vec<u8>,
    isb: Vec<Vec<u8>>,
}

impl Art {
    fn json(&self) -> Value {
        json!({"bits": self.bits, "alpha": bits_str(&self.alpha), "ctx": hex(&self.vctx), "nonce": hex(&self.nonce),
               "public_share": hex_trunc(&self.ps, 8192), "input_shares": self.isb.iter().map(|b| hex_trunc(b, 8192)).collect::<Vec<_>>()})
    }
}

#[derive(Clone, Debug)]
enum Alter {
    Xor { off: usize, mask: u8 },
    Truncate(usize),
    Append(Vec<u8>),
    Replace(Vec<u8>),
}

fn apply_alter(b: &mut Vec<u8>, a: &Alter) {
    match a {
        Alter::Xor { off, mask } => {
            if *off < b.len() {
                b[*off] ^= *mask;
            }
        }
        Alter::Truncate(n) => {
            let l = b.len().saturating_sub(*n);
            b.truncate(l);
        }
        Alter::Append(x) => b.extend_from_slice(x),
        Alter::Replace(x) => *b = x.clone(),
    }
}

#[derive(Clone, Debug, Default)]
struct Tamper {
    items: Vec<(Point, Alter)>,
    /// Swap the two aggregators' verifier shares of this round.
    swap_round: Option<usize>,
}

impl Tamper {
    fn none() -> Self {
        Tamper::default()
    }
    fn one(p: Point, a: Alter) -> Self {
        Tamper { items: vec![(p, a)], swap_round: None }
    }
    fn json(&self) -> Value {
        json!({"alterations": self.items.iter().map(|(p, a)| format!("{p:?}: {a:?}")).collect::<Vec<_>>(), "swap_verifier_shares_of_round": self.swap_round})
    }
}

fn exec(vdaf: &P1, art: &Art, param: &Poplar1AggregationParam, key: &[u8; 32], t: &Tamper, stats: &mut WireStats) -> Outcome<Poplar1FieldVec> {
    let mut extra: Vec<(Point, Alter)> = vec![];
    let mut anomaly = None;
    if let Some(round) = t.swap_round {
        let mut rec: [Option<Vec<u8>>; 2] = [None, None];
        {
            let mut hook = |pt: Point, b: &mut Vec<u8>| {
                for (p, a) in &t.items {
                    if *p == pt {
                        apply_alter(b, a);
                    }
                }
                if let Point::VerifierShare(r, i) = pt {
                    if r == round && i < 2 {
                        rec[i] = Some(b.clone());
                    }
                }
            };
            let mut s = WireStats::default();
            let _ = verify_report_simple::<P1, 32>(vdaf, key, &art.vctx, param, &art.nonce, &art.ps, &art.isb, &mut hook, &mut s, &mut anomaly);
        }
        if let [Some(a), Some(b)] = rec {
            extra.push((Point::VerifierShare(round, 0), Alter::Replace(b)));
            extra.push((Point::VerifierShare(round, 1), Alter::Replace(a)));
        }
    }
    let mut hook = |pt: Point, b: &mut Vec<u8>| {
        for (p, a) in t.items.iter().chain(extra.iter()) {
            if *p == pt {
                apply_alter(b, a);
            }
        }
    };
    verify_report_simple::<P1, 32>(vdaf, key, &art.vctx, param, &art.nonce, &art.ps, &art.isb, &mut hook, stats, &mut anomaly)
}

#[derive(Clone, Debug)]
enum Verdict {
    /// both finished; sum valid; true = one-hot, false = all-zero
    AcceptedValid(bool),
    AcceptedInvalid(String),
    Rejected(String),
    Panicked(String, String),
    Desync,
}

impl Verdict {
    fn accepted(&self) -> bool {
        matches!(self, Verdict::AcceptedValid(_) | Verdict::AcceptedInvalid(_))
    }
    fn tag(&self) -> String {
        match self {
            Verdict::AcceptedValid(true) => "accepted-onehot".into(),
            Verdict::AcceptedValid(false) => "accepted-zero".into(),
            Verdict::AcceptedInvalid(_) => "accepted-INVALID".into(),
            Verdict::Rejected(s) => format!("rejected@{s}"),
            Verdict::Panicked(s, _) => format!("panicked@{s}"),
            Verdict::Desync => "desync".into(),
        }
    }
}

fn classify(out: Outcome<Poplar1FieldVec>, leaf: bool, n: usize, m255: &M255) -> Verdict {
    match out {
        Outcome::Finished(o) => {
            if o.len() != 2 {
                return Verdict::AcceptedInvalid(format!("{} output shares", o.len()));
            }
            let a = o[0].get_encoded().unwrap_or_default();
            let b = o[1].get_encoded().unwrap_or_default();
            match sum_output_shares(&a, &b, leaf, n, m255) {
                Some(v) if zero_or_one_hot(&v) => Verdict::AcceptedValid(v.iter().any(|x| *x == Some(1))),
                Some(v) => Verdict::AcceptedInvalid(format!("sum={:?}", v.iter().take(16).collect::<Vec<_>>())),
                None => Verdict::AcceptedInvalid(format!("output shares of unexpected shape: {} / {} bytes for {} prefixes", a.len(), b.len(), n)),
            }
        }
        Outcome::Rejected(s, _) => Verdict::Rejected(s.into()),
        Outcome::Panicked(s, pi) => Verdict::Panicked(s.into(), format!("{} at {}", pi.message, pi.location)),
        Outcome::Desync(_) => Verdict::Desync,
    }
}

struct Case<'a> {
    vdaf: &'a P1,
    art: &'a Art,
    prefixes: &'a [Bits],
    tamper: &'a Tamper,
    must_reject: bool,
    strategy: &'a str,
    detail: Value,
}

/// Execute one (report, parameter, tampering) case under a fresh verification key and judge it.
fn judge(ctx: &mut Ctx, rng: &mut Rng64, c: &Case) -> Option<Verdict> {
    let level = c.prefixes[0].len() - 1;
    let leaf = level == c.art.bits - 1;
    let lk = if leaf { "leaf" } else { "inner" };
    let param = match make_param(c.prefixes) {
        Ok(p) => p,
        Err(_) => {
            ctx.count("harness_param_refused");
            return None;
        }
    };
    let m255 = M255::new();
    let mut stats = WireStats::default();
    let key: [u8; 32] = rng.array();
    let v = classify(exec(c.vdaf, c.art, &param, &key, c.tamper, &mut stats), leaf, c.prefixes.len(), &m255);
    ctx.eval();
    ctx.count("executions");
    ctx.count_n("wire_messages", stats.messages);
    let outcome_class = match &v {
        Verdict::AcceptedValid(_) => "accepted-valid".to_string(),
        other => other.tag(),
    };
    ctx.count(&format!("{}:{}", c.strategy, if v.accepted() { "accepted" } else { "rejected" }));
    ctx.count(&outcome_class);
    if c.must_reject {
        ctx.count("must_reject_cases");
        if !v.accepted() {
            ctx.count("must_reject_rejected");
        }
    }
    if let Verdict::Panicked(stage, what) = &v {
        ctx.note(format!("panic while processing an adversarial report (counts as a rejection here; see C08/C16): {stage}: {what}"));
    }
    ctx.nontrivial(digest_str(&format!("{}|{}|{}|{}|{}", c.strategy, c.art.bits, level, c.must_reject, v.tag())));
    if c.must_reject && ctx.samples.len() < ctx.max_samples && ctx.evaluations % 97 == 0 {
        ctx.sample(|| json!({"strategy": c.strategy, "bits": c.art.bits, "level": level, "candidates": c.prefixes.iter().map(|p| bits_str(p)).collect::<Vec<_>>(),
                             "alpha": bits_str(&c.art.alpha), "tamper": c.tamper.json(), "detail": c.detail, "outcome": v.tag()}));
    }
    let invalid = matches!(v, Verdict::AcceptedInvalid(_));
    if invalid || (c.must_reject && v.accepted()) {
        // Confirm under three fresh independent verification keys.
        let mut keys = vec![hex(&key)];
        let mut acc = 0;
        let mut inv = 0;
        let mut tags = vec![v.tag()];
        for _ in 0..3 {
            let k: [u8; 32] = rng.array();
            keys.push(hex(&k));
            let v2 = classify(exec(c.vdaf, c.art, &param, &k, c.tamper, &mut stats), leaf, c.prefixes.len(), &m255);
            ctx.eval();
            if v2.accepted() {
                acc += 1;
            }
            if matches!(v2, Verdict::AcceptedInvalid(_)) {
                inv += 1;
            }
            tags.push(v2.tag());
        }
        let wit = json!({"report": c.art.json(), "level": level, "prefixes": c.prefixes.iter().map(|p| bits_str(p)).collect::<Vec<_>>(),
                         "tamper": c.tamper.json(), "strategy": c.strategy, "detail": c.detail, "verify_keys": keys, "outcomes": tags,
                         "first": format!("{v:?}")});
        if invalid && inv == 3 {
            ctx.violation(format!("invalid-output|{}|{lk}", c.strategy),
                "both aggregators finished although the sum of their output shares is neither all-zero nor one-hot with value one (4/4 under independent verification keys)", wit);
        } else if c.must_reject && acc == 3 {
            ctx.violation(format!("accepted|{}|{lk}", c.strategy),
                "a report built by a malicious strategy was accepted at a parameter that queries an affected candidate (4/4 under independent verification keys)", wit);
        } else {
            // Inner levels use Field64, the leaf level Field255: a single acceptance is not a plausible fluke.
            ctx.sporadic(64, format!("{}|{}|{lk}", if invalid { "invalid-output" } else { "accepted" }, c.strategy), wit);
        }
    }
    Some(v)
}

// ---------------------------------------------------------------------------------------------
// Honest reports (controls) and the monitored re-implementation
// ---------------------------------------------------------------------------------------------

fn gen_vctx(rng: &mut Rng64) -> Vec<u8> {
    match rng.below(5) {
        0 => vec![],
        1 => b"poplar1".to_vec(),
        _ => {
            let n = rng.usize_below(24);
            rng.bytes(n)
        }
    }
}

/// Honest report from the real client with a scripted tape; the harness re-implementation of the
/// correlated randomness is compared byte for byte with what the library produced.
fn honest_report(ctx: &mut Ctx, rng: &mut Rng64, vdaf: &P1, bits: usize, alpha: &Bits, vctx: &[u8], nonce: &[u8; 16]) -> Option<Art> {
    honest_report_with_model(ctx, rng, vdaf, bits, alpha, vctx, nonce).map(|x| x.0)
}

fn honest_report_with_model(ctx: &mut Ctx, rng: &mut Rng64, vdaf: &P1, bits: usize, alpha: &Bits, vctx: &[u8], nonce: &[u8; 16]) -> Option<(Art, HonestCorr)> {
    let tape = rng.bytes(32 + 96);
    let m = to_input(alpha);
    let (ps, shares) = match catch(|| vdaf.shard_with_random(vctx, &m, nonce, &tape)) {
        Ok(Ok(x)) => x,
        _ => {
            ctx.count("honest_shard_failures");
            return None;
        }
    };
    let psb = ps.get_encoded().ok()?;
    let mut isb = vec![];
    for s in &shares {
        let mut b = vec![];
        s.encode(&mut b).ok()?;
        isb.push(b);
    }
    // Cross-check of the re-implementation.
    let m255 = M255::new();
    let pr: [[u8; 32]; 3] = [tape[32..64].try_into().unwrap(), tape[64..96].try_into().unwrap(), tape[96..128].try_into().unwrap()];
    let hc = model_honest_corr(bits, vctx, nonce, &pr, &m255);
    let k0: [u8; 16] = tape[..16].try_into().unwrap();
    let k1: [u8; 16] = tape[16..32].try_into().unwrap();
    let mine = [
        encode_input_share(&k0, &pr[0], &hc.corr_inner[0], &hc.corr_leaf[0]),
        encode_input_share(&k1, &pr[1], &hc.corr_inner[1], &hc.corr_leaf[1]),
    ];
    ctx.count("model_crosschecks");
    ctx.count_n("model_stream_rejections_seen", hc.rejections);
    if mine[0] != isb[0] || mine[1] != isb[1] || psb.len() != (PublicShareLayout { bits }).total() {
        ctx.count("model_crosscheck_MISMATCH");
        ctx.inconclusive(format!(
            "harness re-implementation of Poplar1 sharding (correlated randomness / wire layout) disagrees with shard_with_random at bits={bits}: the malicious-client workload would be meaningless"
        ));
        return None;
    }
    Some((Art { bits, alpha: alpha.clone(), vctx: vctx.to_vec(), nonce: *nonce, ps: psb, isb }, hc))
}

/// Positive control: the honest report must be accepted at `prefixes` with the indicator vector.
fn honest_control(ctx: &mut Ctx, rng: &mut Rng64, vdaf: &P1, art: &Art, prefixes: &[Bits]) -> bool {
    let c = Case { vdaf, art, prefixes, tamper: &Tamper::none(), must_reject: false, strategy: "honest-control", detail: json!(null) };
    let onpath = prefixes.iter().any(|p| is_prefix(p, &art.alpha));
    match judge(ctx, rng, &c) {
        Some(Verdict::AcceptedValid(oh)) if oh == onpath => {
            ctx.count("honest_controls_accepted");
            true
        }
        Some(other) => {
            ctx.count("honest_control_FAILED");
            ctx.inconclusive(format!("honest positive control not accepted with the expected vector ({}): C04 cannot be judged in this configuration (see C03)", other.tag()));
            false
        }
        None => false,
    }
}

// ---------------------------------------------------------------------------------------------
// Candidate sets
// ---------------------------------------------------------------------------------------------

/// Up to `maxn` candidates at `level`; contains alpha's prefix iff `with_onpath`. `also` are
/// prefixes forced into the set. Returns None if impossible (e.g. no off-path prefix requested at
/// a level where that leaves nothing).
fn gen_set(rng: &mut Rng64, alpha: &Bits, level: usize, maxn: usize, with_onpath: bool, also: &[Bits]) -> Option<Vec<Bits>> {
    let l = level + 1;
    let on = alpha[..l].to_vec();
    let mut out: Vec<Bits> = also.to_vec();
    if with_onpath {
        out.push(on.clone());
    }
    let extra = rng.usize_below(maxn.max(1));
    for _ in 0..extra {
        let p = match rng.below(3) {
            0 => {
                // sibling at a random depth
                let d = rng.usize_below(l);
                let mut p = on.clone();
                p[d] = !p[d];
                for b in p[d + 1..].iter_mut() {
                    if rng.bool() {
                        *b = !*b;
                    }
                }
                p
            }
            1 => {
                let mut p = on.clone();
                p[l - 1] = !p[l - 1];
                p
            }
            _ => random_bits(rng, l),
        };
        out.push(p);
    }
    if !with_onpath {
        out.retain(|p| *p != on);
        if out.is_empty() {
            let mut p = on.clone();
            let d = rng.usize_below(l);
            p[d] = !p[d];
            out.push(p);
        }
    }
    let mut out = normalize(out);
    if out.len() > maxn.max(1) {
        // keep forced ones + on-path
        let must: Vec<Bits> = out.iter().filter(|p| also.contains(p) || (with_onpath && **p == on)).cloned().collect();
        let mut rest: Vec<Bits> = out.iter().filter(|p| !must.contains(p)).cloned().collect();
        rng.shuffle(&mut rest);
        rest.truncate(maxn.saturating_sub(must.len()));
        out = normalize(must.into_iter().chain(rest).collect());
    }
    if out.is_empty() {
        None
    } else {
        Some(out)
    }
}

// ---------------------------------------------------------------------------------------------
// Part 1: programmed values / correlated randomness (malicious client from public API)
// ---------------------------------------------------------------------------------------------

#[derive(Clone)]
struct Plan {
    kind: &'static str,
    v: BigUint,
    w: BigUint,
    a_star: BigUint,
    b_star: BigUint,
    /// coefficients of the verifier polynomial in r
    c2: BigUint,
    c1: BigUint,
    c0: BigUint,
}

impl Plan {
    fn reject_always(&self) -> bool {
        !self.c0.is_zero()
    }
    fn reject_if_onpath(&self) -> bool {
        !(self.c0.is_zero() && self.c1.is_zero() && self.c2.is_zero())
    }
    fn strategy(&self) -> &'static str {
        if !self.c0.is_zero() {
            "programmed:corr-inconsistent"
        } else if !self.c2.is_zero() {
            "programmed:value-not-0-1"
        } else if !self.c1.is_zero() {
            "programmed:authenticator-mismatch"
        } else {
            "programmed:valid"
        }
    }
    fn json(&self) -> Value {
        json!({"kind": self.kind, "v": self.v.to_string(), "w": self.w.to_string(), "A": self.a_star.to_string(), "B": self.b_star.to_string()})
    }
}

fn make_plan(f: &Fp, abc: &[BigUint; 3], kind: &'static str, v: BigUint, w: BigUint, a_star: BigUint, b_star: BigUint) -> Plan {
    let [a, b, c] = abc;
    let c2 = f.sub(&f.mul(&v, &v), &v);
    let two_av = f.mul(&f.u(2), &f.mul(a, &v));
    let c1 = f.sub(&f.add(&f.mul(&a_star, &v), &two_av), &w);
    let c0 = f.sub(&f.sub(&f.add(&f.add(&f.mul(&a_star, a), &b_star), &f.mul(a, a)), b), c);
    Plan { kind, v, w, a_star, b_star, c2, c1, c0 }
}

fn consistent_ab(f: &Fp, abc: &[BigUint; 3], k: &BigUint) -> (BigUint, BigUint) {
    let [a, b, c] = abc;
    let big_a = f.add(&f.neg(&f.mul(&f.u(2), a)), k);
    let big_b = f.add(&f.sub(&f.add(&f.mul(a, a), b), &f.mul(a, k)), c);
    (big_a, big_b)
}

fn bad_value(f: &Fp, rng: &mut Rng64) -> BigUint {
    match rng.below(5) {
        0 => f.u(2),
        1 => f.sub(&f.u(0), &f.u(1)), // p - 1
        2 => f.u(3),
        3 => (&f.p + BigUint::from(1u32)) / BigUint::from(2u32), // 1/2
        _ => loop {
            let x = f.rand(rng);
            if x > f.u(1) {
                break x;
            }
        },
    }
}

fn gen_plan(rng: &mut Rng64, f: &Fp, abc: &[BigUint; 3], force_bad: bool) -> Plan {
    let k = f.rand(rng);
    let (ca, cb) = consistent_ab(f, abc, &k);
    let roll = if force_bad { 40 + rng.below(60) } else { rng.below(100) };
    match roll {
        0..=34 => make_plan(f, abc, "honest(1,k)", f.u(1), k.clone(), ca, cb),
        35..=39 => make_plan(f, abc, "zero(0,0)", f.u(0), f.u(0), ca, cb),
        40..=59 => {
            // v not in {0,1}, w = k v, randomness consistent with k: only the r^2 term catches it
            let v = bad_value(f, rng);
            let w = f.mul(&k, &v);
            make_plan(f, abc, "value(v,kv)", v, w, ca, cb)
        }
        60..=64 => {
            // v not in {0,1} and w chosen so that the r^2 and r terms cancel at r = 1 (and r = 0):
            // only genuinely random verification randomness catches it
            let v = bad_value(f, rng);
            let w = f.add(&f.mul(&k, &v), &f.sub(&f.mul(&v, &v), &v));
            make_plan(f, abc, "value(v,kv+v^2-v)", v, w, ca, cb)
        }
        65..=74 => {
            // authenticator mismatch: w != k v for v in {0, 1, 2, p-1}
            let v = match rng.below(4) {
                0 => f.u(0),
                1 => f.u(1),
                2 => f.u(2),
                _ => f.sub(&f.u(0), &f.u(1)),
            };
            let w = f.add(&f.mul(&k, &v), &f.rand_nonzero(rng));
            make_plan(f, abc, "auth(v,kv+d)", v, w, ca, cb)
        }
        75..=82 => {
            let d = f.rand_nonzero(rng);
            make_plan(f, abc, "corr(B+d)", f.u(1), k.clone(), ca, f.add(&cb, &d))
        }
        83..=89 => {
            let d = f.rand_nonzero(rng);
            make_plan(f, abc, "corr(A+d)", f.u(1), k.clone(), f.add(&ca, &d), cb)
        }
        _ => {
            // A shifted and B re-solved so that the constant term vanishes: the report looks
            // consistent until the on-path candidate is queried
            let d = f.rand_nonzero(rng);
            let a_star = f.add(&ca, &d);
            let [a, b, c] = abc;
            let b_star = f.add(&f.sub(&f.neg(&f.mul(&a_star, a)), &f.mul(a, a)), &f.add(b, c));
            make_plan(f, abc, "corr(A+d,B solved)", f.u(1), k.clone(), a_star, b_star)
        }
    }
}

fn f64_elem(x: &BigUint) -> Field64 {
    Field64::get_decoded(&big_to_u64(x).to_le_bytes()).expect("canonical Field64")
}

fn f255_elem(x: &BigUint) -> Field255 {
    Field255::get_decoded(&le32(x)).expect("canonical Field255")
}

struct Malicious {
    art: Art,
    plans: Vec<Plan>,
    corr_seed_mismatch: bool,
}

/// Build a report whose IDPF is programmed with arbitrary (v, w) per level and whose correlated
/// randomness shares are arbitrary (A*, B*) per level, using only `Idpf::gen`, the public XOF and
/// the wire layout of `Poplar1InputShare`.
fn build_malicious(ctx: &mut Ctx, rng: &mut Rng64, bits: usize, alpha: &Bits, vctx: &[u8], nonce: &[u8; 16], bad_levels: &[usize], all_random: bool, corr_seed_mismatch: bool) -> Option<Malicious> {
    let f64m = Fp::f64();
    let f255m = Fp::new();
    let seeds: [[u8; 32]; 2] = [rng.array(), rng.array()];
    let s0 = derive_abc(&seeds[0], 0, vctx, nonce, bits, &f255m);
    let s1 = derive_abc(&seeds[1], 1, vctx, nonce, bits, &f255m);
    let abc = sum_abc(&s0, &s1, &f255m);
    let mut plans = Vec::with_capacity(bits);
    for l in 0..bits {
        let leaf = l == bits - 1;
        let f = if leaf { &f255m } else { &f64m };
        let t: [BigUint; 3] = if leaf {
            abc.leaf.clone()
        } else {
            [BigUint::from(abc.inner[l][0]), BigUint::from(abc.inner[l][1]), BigUint::from(abc.inner[l][2])]
        };
        let plan = if all_random {
            gen_plan(rng, f, &t, false)
        } else if bad_levels.contains(&l) {
            gen_plan(rng, f, &t, true)
        } else {
            let k = f.rand(rng);
            let (ca, cb) = consistent_ab(f, &t, &k);
            make_plan(f, &t, "honest(1,k)", f.u(1), k, ca, cb)
        };
        plans.push(plan);
    }
    // IDPF with the programmed values (public API: OS-random keys, returned to the caller).
    let idpf: PIdpf = Idpf::new((), ());
    let inner_vals: Vec<Poplar1IdpfValue<Field64>> = plans[..bits - 1].iter().map(|p| Poplar1IdpfValue::new([f64_elem(&p.v), f64_elem(&p.w)])).collect();
    let leaf_val = Poplar1IdpfValue::new([f255_elem(&plans[bits - 1].v), f255_elem(&plans[bits - 1].w)]);
    let m = to_input(alpha);
    let (ps, keys) = match catch(|| idpf.gen(&m, inner_vals, leaf_val, vctx, nonce)) {
        Ok(Ok(x)) => x,
        _ => {
            ctx.count("idpf_gen_failures");
            return None;
        }
    };
    let psb = ps.get_encoded().ok()?;
    // Split (A*, B*) into shares.
    let mut inner0 = vec![];
    let mut inner1 = vec![];
    for p in &plans[..bits - 1] {
        let ra = f64m.rand(rng);
        let rb = f64m.rand(rng);
        inner1.push([big_to_u64(&ra), big_to_u64(&rb)]);
        inner0.push([big_to_u64(&f64m.sub(&p.a_star, &ra)), big_to_u64(&f64m.sub(&p.b_star, &rb))]);
    }
    let pl = &plans[bits - 1];
    let ra = f255m.rand(rng);
    let rb = f255m.rand(rng);
    let leaf0 = [f255m.sub(&pl.a_star, &ra), f255m.sub(&pl.b_star, &rb)];
    let leaf1 = [ra, rb];
    let mut share_seeds = seeds;
    if corr_seed_mismatch {
        // the aggregator will derive (a, b, c) from a seed the client did not use
        let j = rng.usize_below(2);
        share_seeds[j] = rng.array();
    }
    let isb = vec![
        encode_input_share(keys[0].as_ref(), &share_seeds[0], &inner0, &leaf0),
        encode_input_share(keys[1].as_ref(), &share_seeds[1], &inner1, &leaf1),
    ];
    Some(Malicious { art: Art { bits, alpha: alpha.clone(), vctx: vctx.to_vec(), nonce: *nonce, ps: psb, isb }, plans, corr_seed_mismatch })
}

fn pick_bits(rng: &mut Rng64, quick: bool) -> usize {
    if quick {
        *rng.choose(&[1usize, 2, 3, 4, 8, 8, 12, 16, 16, 33])
    } else {
        *rng.choose(&[1usize, 2, 3, 4, 8, 12, 16, 16, 31, 64, 64, 130, 256])
    }
}

fn part_programmed(ctx: &mut Ctx, n: u64) {
    let mut rng = ctx.rng("c04-programmed");
    for i in 0..n {
        let bits = pick_bits(&mut rng, ctx.quick());
        let vdaf = Poplar1::new_turboshake128(bits);
        let alpha = random_bits(&mut rng, bits);
        let vctx = gen_vctx(&mut rng);
        let nonce: [u8; 16] = rng.array();
        let mode = rng.below(10);
        let (bad_levels, all_random, seed_mismatch): (Vec<usize>, bool, bool) = match mode {
            0 => (vec![], false, false),                                  // re-implementation control: everything honest
            1 => (vec![], false, true),                                   // honest values, corr seed swapped out
            2 | 3 => (vec![], true, false),                               // different plan at every level
            4 => (vec![bits - 1], false, false),                          // leaf only
            5 if bits > 1 => (vec![bits - 2], false, false),              // last inner level only
            _ => (vec![rng.usize_below(bits)], false, false),             // one bad level
        };
        ctx.trace(|| format!("programmed {i}: bits={bits} mode={mode} bad={bad_levels:?}"));
        let Some(mal) = build_malicious(ctx, &mut rng, bits, &alpha, &vctx, &nonce, &bad_levels, all_random, seed_mismatch) else { continue };
        ctx.count("malicious_reports_built");
        // Honest control in the same configuration.
        let honest = honest_report(ctx, &mut rng, &vdaf, bits, &alpha, &vctx, &nonce);
        // Levels to query: the bad ones, a neighbour, and a random one.
        let mut levels: Vec<usize> = bad_levels.clone();
        levels.push(rng.usize_below(bits));
        if all_random {
            levels.push(rng.usize_below(bits));
            levels.push(bits - 1);
        }
        if let Some(b) = bad_levels.first() {
            if *b + 1 < bits {
                levels.push(*b + 1);
            }
            if *b > 0 {
                levels.push(*b - 1);
            }
        }
        levels.sort();
        levels.dedup();
        for level in levels {
            let plan = &mal.plans[level];
            for with_onpath in [true, false] {
                let Some(set) = gen_set(&mut rng, &alpha, level, 8, with_onpath, &[]) else { continue };
                if let Some(h) = &honest {
                    honest_control(ctx, &mut rng, &vdaf, h, &set);
                }
                let (must, strategy): (bool, &str) = if mal.corr_seed_mismatch {
                    (true, "corr-seed-mismatch")
                } else if with_onpath {
                    (plan.reject_if_onpath(), plan.strategy())
                } else {
                    (plan.reject_always(), if plan.reject_always() { "programmed:corr-inconsistent" } else { "programmed:onpath-not-queried" })
                };
                // optional non-adaptive alteration of a sketch share / message on top
                let mut tamper = Tamper::none();
                let mut strat = strategy.to_string();
                if must && rng.chance(1, 5) {
                    tamper = random_sketch_tamper(&mut rng, level == bits - 1);
                    strat = format!("{strategy}+sketch-alteration");
                }
                let c = Case { vdaf: &vdaf, art: &mal.art, prefixes: &set, tamper: &tamper, must_reject: must, strategy: &strat,
                               detail: json!({"plan_at_level": plan.json(), "onpath_queried": with_onpath, "mode": mode}) };
                let v = judge(ctx, &mut rng, &c);
                // Self-check of the model: a report the algebra calls valid should be accepted
                // (not demanded by the property; a failure makes the run inconclusive).
                if !must && tamper.items.is_empty() && tamper.swap_round.is_none() {
                    match v {
                        Some(ref x) if x.accepted() => ctx.count("model_predicted_accept_and_accepted"),
                        Some(ref x) => {
                            ctx.count("model_predicted_accept_BUT_rejected");
                            ctx.inconclusive(format!("harness model predicted acceptance of a crafted-but-valid report ({}, kind {}), library said {}", strategy, plan.kind, x.tag()));
                        }
                        None => {}
                    }
                    if mode == 0 && with_onpath {
                        if matches!(v, Some(Verdict::AcceptedValid(true))) {
                            ctx.count("reimplementation_controls_accepted");
                        }
                    }
                }
            }
        }
    }
}

/// Sum of the two aggregators' round-two sketch verifier shares for `art` at `param` under `key`
/// (what the sketch demands to be zero), observed through the public API only.
fn observe_round_two_sum(vdaf: &P1, art: &Art, param: &Poplar1AggregationParam, key: &[u8; 32], f: &Fp) -> Option<BigUint> {
    let m = manual_init(vdaf, art, param, key)?;
    let msg = catch(|| vdaf.verifier_shares_to_message(&art.vctx, param, m.shares.clone())).ok()?.ok()?;
    let mut sum = BigUint::zero();
    for st in m.states {
        match catch(|| vdaf.verify_next(&art.vctx, st, msg.clone())).ok()?.ok()? {
            VerifyTransition::Continue(_, sh) => {
                let b = sh.get_encoded().ok()?;
                if b.len() != f.elem_size() {
                    return None;
                }
                sum = f.add(&sum, &BigUint::from_bytes_le(&b));
            }
            VerifyTransition::Finish(_) => return None,
        }
    }
    Some(sum)
}

/// The simulate-and-cancel client. It programs a bad value (not 0/1, or an authenticator that does
/// not match), runs both aggregators LOCALLY under a verification key of its own choosing, reads the
/// round-two verifier value sigma' that its report produces there, and subtracts sigma' from its
/// share of the correlated-randomness offset B, so that the report verifies whenever the real
/// verification randomness equals the simulated one. With randomness that genuinely depends on the
/// aggregators' secret key the real run sees sigma = c2 (r^2 - r'^2) + c1 (r - r') != 0 and rejects;
/// any randomness that is fixed, predictable or independent of the key lets the report through.
fn part_predicted_randomness(ctx: &mut Ctx, n: u64) {
    let mut rng = ctx.rng("c04-predicted");
    let f64m = Fp::f64();
    let f255m = Fp::new();
    for i in 0..n {
        let bits = pick_bits(&mut rng, ctx.quick());
        let vdaf = Poplar1::new_turboshake128(bits);
        let alpha = random_bits(&mut rng, bits);
        let vctx = gen_vctx(&mut rng);
        let nonce: [u8; 16] = rng.array();
        let level = match rng.below(3) {
            0 => bits - 1,
            _ => rng.usize_below(bits),
        };
        let leaf = level == bits - 1;
        let f = if leaf { &f255m } else { &f64m };
        let Some(mal) = build_malicious(ctx, &mut rng, bits, &alpha, &vctx, &nonce, &[level], false, false) else { continue };
        let plan = &mal.plans[level];
        if plan.c2.is_zero() && plan.c1.is_zero() {
            // only the constant term is off: cancelling it yields a VALID report, nothing to assert
            ctx.count("predicted_randomness_plan_becomes_valid");
            continue;
        }
        // candidate sets: the lone on-path candidate (the sharpest case) or small company
        let maxn = *rng.choose(&[1usize, 1, 1, 2, 3, 8]);
        let set = if maxn == 1 { vec![alpha[..=level].to_vec()] } else {
            match gen_set(&mut rng, &alpha, level, maxn, true, &[]) { Some(s) => s, None => continue }
        };
        let Ok(param) = make_param(&set) else { continue };
        let own_key: [u8; 32] = rng.array();
        let Some(sigma) = observe_round_two_sum(&vdaf, &mal.art, &param, &own_key, f) else {
            ctx.count("predicted_randomness_simulation_failed");
            continue;
        };
        // subtract sigma' from aggregator 0's share of B at `level`
        let mut art = mal.art.clone();
        let es = f.elem_size();
        let off = if leaf { 48 + (bits - 1) * 16 + 32 } else { 48 + level * 16 + 8 };
        let old = BigUint::from_bytes_le(&art.isb[0][off..off + es]);
        art.isb[0][off..off + es].copy_from_slice(&f.enc(&f.sub(&old, &sigma)));
        // self-check of the attack construction: under the client's OWN key the adjusted report must now verify
        match observe_round_two_sum(&vdaf, &art, &param, &own_key, f) {
            Some(z) if z.is_zero() => ctx.count("predicted_randomness_selfcheck_ok"),
            _ => {
                ctx.count("predicted_randomness_selfcheck_FAILED");
                ctx.inconclusive("simulate-and-cancel: the adjusted report does not verify under the client's own key (harness model of the input-share layout or of the sketch is off)");
                continue;
            }
        }
        ctx.count("predicted_randomness_reports_built");
        ctx.count(&format!("predicted_randomness_candidates_{}", if set.len() == 1 { "1" } else { "2+" }));
        ctx.trace(|| format!("predicted {i}: bits={bits} level={level} candidates={}", set.len()));
        if let Some(h) = honest_report(ctx, &mut rng, &vdaf, bits, &alpha, &vctx, &nonce) {
            honest_control(ctx, &mut rng, &vdaf, &h, &set);
        }
        let strat = format!("simulate-and-cancel:{}", plan.strategy().trim_start_matches("programmed:"));
        let c = Case { vdaf: &vdaf, art: &art, prefixes: &set, tamper: &Tamper::none(), must_reject: true, strategy: &strat,
                       detail: json!({"plan_at_level": plan.json(), "client_simulation_key": hex(&own_key), "sigma_under_client_key": sigma.to_string(), "candidates": set.len()}) };
        judge(ctx, &mut rng, &c);
    }
}

/// A non-adaptive alteration of a verifier share or verifier message in transit (single byte
/// flip, truncation, extension, or swapping the two aggregators' shares).
fn random_sketch_tamper(rng: &mut Rng64, leaf: bool) -> Tamper {
    let es = if leaf { 32 } else { 8 };
    let mask = 1u8 << rng.below(8);
    let ones = |n: usize| -> Vec<u8> {
        let mut v = vec![0u8; n * es];
        for i in 0..n {
            v[i * es] = 1;
        }
        v
    };
    match rng.below(13) {
        // Constant (key-independent, hence non-adaptive) replacements of the round-one sketch: the combined
        // sketch all-zero / all-one at both aggregators or at one, or both sketch SHARES zeroed. A report whose
        // data is invalid must still not be accepted; honest data may be refused (not C04's subject).
        9 => Tamper { items: vec![(Point::VerifierMessage(0, 0), Alter::Replace(vec![0u8; 3 * es])), (Point::VerifierMessage(0, 1), Alter::Replace(vec![0u8; 3 * es]))], swap_round: None },
        10 => Tamper { items: vec![(Point::VerifierShare(0, 0), Alter::Replace(vec![0u8; 3 * es])), (Point::VerifierShare(0, 1), Alter::Replace(vec![0u8; 3 * es]))], swap_round: None },
        11 => Tamper { items: vec![(Point::VerifierMessage(0, 0), Alter::Replace(ones(3))), (Point::VerifierMessage(0, 1), Alter::Replace(ones(3)))], swap_round: None },
        12 => Tamper::one(Point::VerifierMessage(0, rng.usize_below(2)), Alter::Replace(vec![0u8; 3 * es])),
        0 | 1 => Tamper::one(Point::VerifierShare(0, rng.usize_below(2)), Alter::Xor { off: rng.usize_below(3 * es), mask }),
        2 => Tamper::one(Point::VerifierShare(1, rng.usize_below(2)), Alter::Xor { off: rng.usize_below(es), mask }),
        3 => {
            // the same alteration of the round-one message delivered to both aggregators
            let off = rng.usize_below(3 * es);
            Tamper { items: vec![(Point::VerifierMessage(0, 0), Alter::Xor { off, mask }), (Point::VerifierMessage(0, 1), Alter::Xor { off, mask })], swap_round: None }
        }
        4 => Tamper::one(Point::VerifierMessage(0, rng.usize_below(2)), Alter::Xor { off: rng.usize_below(3 * es), mask }),
        5 => Tamper { items: vec![], swap_round: Some(0) },
        6 => Tamper { items: vec![], swap_round: Some(1) },
        7 => Tamper::one(Point::VerifierShare(rng.usize_below(2), rng.usize_below(2)), Alter::Truncate(1 + rng.usize_below(es))),
        _ => {
            let n = 1 + rng.usize_below(es);
            Tamper::one(Point::VerifierMessage(rng.usize_below(2), rng.usize_below(2)), Alter::Append(rng.bytes(n)))
        }
    }
}

// ---------------------------------------------------------------------------------------------
// Part 2: multi-candidate functions by tampering with a correction word of an honest report
// ---------------------------------------------------------------------------------------------

#[derive(Clone, Copy, Debug, PartialEq)]
enum CwKind {
    SeedReplace,
    SeedBit,
    Ctrl(usize),
    CtrlBoth,
}

/// Is candidate `p` affected by tampering with the seed / control bit(s) of the level-`l`
/// correction word? (It is applied when stepping from the on-path node of depth l to its
/// children; nodes off the path apply it on both sides or on neither, which cancels.)
fn cw_affected(p: &Bits, alpha: &Bits, l: usize, kind: CwKind) -> bool {
    if p.len() < l + 1 || p[..l] != alpha[..l] {
        return false;
    }
    match kind {
        CwKind::SeedReplace | CwKind::SeedBit | CwKind::CtrlBoth => true,
        CwKind::Ctrl(c) => p[l] == (c == 1),
    }
}

fn part_cw(ctx: &mut Ctx, n: u64) {
    let mut rng = ctx.rng("c04-cw");
    for i in 0..n {
        let bits = pick_bits(&mut rng, ctx.quick());
        let vdaf = Poplar1::new_turboshake128(bits);
        let alpha = random_bits(&mut rng, bits);
        let vctx = gen_vctx(&mut rng);
        let nonce: [u8; 16] = rng.array();
        let Some(honest) = honest_report(ctx, &mut rng, &vdaf, bits, &alpha, &vctx, &nonce) else { continue };
        let lay = PublicShareLayout { bits };
        let l = match rng.below(4) {
            0 => 0,
            1 => bits - 1,
            _ => rng.usize_below(bits),
        };
        let kind = match rng.below(6) {
            0 | 1 => CwKind::SeedReplace,
            2 => CwKind::SeedBit,
            3 => CwKind::Ctrl(0),
            4 => CwKind::Ctrl(1),
            _ => CwKind::CtrlBoth,
        };
        let mut art = honest.clone();
        match kind {
            CwKind::SeedReplace => {
                let (s, e) = lay.seed_range(l);
                let r = rng.bytes(16);
                if art.ps[s..e] == r[..] {
                    continue;
                }
                art.ps[s..e].copy_from_slice(&r);
            }
            CwKind::SeedBit => {
                let (s, _) = lay.seed_range(l);
                art.ps[s + rng.usize_below(16)] ^= 1 << rng.below(8);
            }
            CwKind::Ctrl(c) => {
                let (byte, mask) = lay.ctrl_bit(l, c);
                art.ps[byte] ^= mask;
            }
            CwKind::CtrlBoth => {
                for c in 0..2 {
                    let (byte, mask) = lay.ctrl_bit(l, c);
                    art.ps[byte] ^= mask;
                }
            }
        }
        let strategy = match kind {
            CwKind::SeedReplace | CwKind::SeedBit => "cw-seed",
            _ => "cw-control-bits",
        };
        ctx.trace(|| format!("cw {i}: bits={bits} l={l} {kind:?}"));
        // Query levels: the tampered level, below it (deeper), above it (unaffected control).
        let mut levels = vec![l, bits - 1, rng.usize_below(bits)];
        if l + 1 < bits {
            levels.push(l + 1);
        }
        if l > 0 {
            levels.push(l - 1);
        }
        levels.sort();
        levels.dedup();
        for level in levels {
            for want_affected in [true, false] {
                // Forced candidate: an affected one (on-path, or in the sibling subtree).
                let mut also = vec![];
                if want_affected && level >= l {
                    let mut p = alpha[..=level].to_vec();
                    match kind {
                        CwKind::Ctrl(c) => p[l] = c == 1,
                        _ => {
                            if rng.bool() {
                                p[l] = !p[l];
                            }
                        }
                    }
                    for b in p[l + 1..].iter_mut() {
                        if rng.bool() {
                            *b = rng.bool();
                        }
                    }
                    also.push(p);
                }
                let with_onpath = rng.bool();
                let Some(mut set) = gen_set(&mut rng, &alpha, level, 8, with_onpath, &also) else { continue };
                if !want_affected {
                    set.retain(|p| !cw_affected(p, &alpha, l, kind));
                    if set.is_empty() {
                        continue;
                    }
                }
                let must = set.iter().any(|p| cw_affected(p, &alpha, l, kind));
                honest_control(ctx, &mut rng, &vdaf, &honest, &set);
                let n_aff = set.iter().filter(|p| cw_affected(p, &alpha, l, kind)).count();
                if n_aff >= 2 {
                    ctx.count("cw_cases_with_ge_2_affected_candidates");
                }
                let mut tamper = Tamper::none();
                let mut strat = if must { strategy.to_string() } else { format!("{strategy}:unaffected-candidates") };
                if must && rng.chance(1, 6) {
                    tamper = random_sketch_tamper(&mut rng, level == bits - 1);
                    strat = format!("{strategy}+sketch-alteration");
                }
                let c = Case { vdaf: &vdaf, art: &art, prefixes: &set, tamper: &tamper, must_reject: must, strategy: &strat,
                               detail: json!({"cw_level": l, "kind": format!("{kind:?}"), "affected_candidates": n_aff}) };
                let v = judge(ctx, &mut rng, &c);
                if !must {
                    match v {
                        Some(ref x) if x.accepted() => ctx.count("cw_unaffected_accepted"),
                        Some(ref x) => {
                            ctx.count("cw_unaffected_BUT_rejected");
                            ctx.inconclusive(format!("harness model says no queried candidate is affected by the correction-word change, library said {}", x.tag()));
                        }
                        None => {}
                    }
                }
            }
        }
    }
}

// ---------------------------------------------------------------------------------------------
// Part 2b: a crafted TWO-point function whose values sum to (1, k)
// ---------------------------------------------------------------------------------------------

/// Sum of the two parties' IDPF output shares at `prefix` (public `Idpf::eval`), as integers.
fn eval_sum(vdaf: &P1, art: &Art, prefix: &Bits, f: &Fp) -> Option<(BigUint, BigUint)> {
    let ps = Poplar1PublicShare::get_decoded_with_param(vdaf, &art.ps).ok()?;
    let idpf: PIdpf = Idpf::new((), ());
    let es = f.elem_size();
    let mut tot = (BigUint::zero(), BigUint::zero());
    for j in 0..2 {
        let key = Seed::<16>::get_decoded(&art.isb[j][..16]).ok()?;
        let out = catch(|| idpf.eval(j, &ps, &key, &to_input(prefix), &art.vctx, &art.nonce, &mut NoCache::new())).ok()?.ok()?;
        let b = match out {
            IdpfOutputShare::Inner(v) => v.get_encoded().ok()?,
            IdpfOutputShare::Leaf(v) => v.get_encoded().ok()?,
        };
        if b.len() != 2 * es {
            return None;
        }
        tot.0 = f.add(&tot.0, &BigUint::from_bytes_le(&b[..es]));
        tot.1 = f.add(&tot.1, &BigUint::from_bytes_le(&b[es..]));
    }
    Some(tot)
}

/// The malicious client replaces the seed of the level-`l` correction word of its own honest
/// report (which makes BOTH children of the on-path node non-zero), evaluates the resulting
/// function with the public evaluator, and re-solves the correction word's payload so that the
/// two children carry (1 - g, k - h) and (g, h): they sum to the honest (1, k), so every check
/// that is linear in the candidates is satisfied; only independent per-candidate verification
/// randomness (the r_i^2 term) exposes it.
fn part_two_point(ctx: &mut Ctx, n: u64) {
    let mut rng = ctx.rng("c04-twopoint");
    let f64m = Fp::f64();
    let f255m = Fp::new();
    for i in 0..n {
        let bits = pick_bits(&mut rng, ctx.quick());
        let vdaf = Poplar1::new_turboshake128(bits);
        let alpha = random_bits(&mut rng, bits);
        let vctx = gen_vctx(&mut rng);
        let nonce: [u8; 16] = rng.array();
        let Some((honest, hc)) = honest_report_with_model(ctx, &mut rng, &vdaf, bits, &alpha, &vctx, &nonce) else { continue };
        let lay = PublicShareLayout { bits };
        let l = match rng.below(3) {
            0 => bits - 1,
            _ => rng.usize_below(bits),
        };
        let leaf = l == bits - 1;
        let f = if leaf { &f255m } else { &f64m };
        let k = if leaf { hc.auth_leaf.clone() } else { BigUint::from(hc.auth_inner[l]) };
        let on = alpha[..=l].to_vec();
        let mut sib = on.clone();
        sib[l] = !sib[l];
        // Sanity of the evaluator on the honest report: (1, k) on the path, (0, 0) next to it.
        if eval_sum(&vdaf, &honest, &on, f) != Some((f.u(1), k.clone())) || eval_sum(&vdaf, &honest, &sib, f) != Some((f.u(0), f.u(0))) {
            ctx.count("two_point_evaluator_sanity_FAILED");
            ctx.inconclusive("public IDPF evaluation of an honest report did not give (1, authenticator) on the path and zero beside it: harness model of the authenticator is off");
            continue;
        }
        let mut art = honest.clone();
        let (s, e) = lay.seed_range(l);
        let r = rng.bytes(16);
        art.ps[s..e].copy_from_slice(&r);
        let (Some(g), Some(cur)) = (eval_sum(&vdaf, &art, &sib, f), eval_sum(&vdaf, &art, &on, f)) else {
            ctx.count("two_point_build_failed");
            continue;
        };
        let want = (f.sub(&f.u(1), &g.0), f.sub(&k, &g.1));
        let d = (f.sub(&want.0, &cur.0), f.sub(&want.1, &cur.1));
        let (ps_, pe) = if leaf { (lay.leaf_start(), lay.leaf_start() + 64) } else { lay.inner_payload_range(l) };
        let es = f.elem_size();
        let old = (BigUint::from_bytes_le(&art.ps[ps_..ps_ + es]), BigUint::from_bytes_le(&art.ps[ps_ + es..pe]));
        let mut built = false;
        for sign in 0..2 {
            let nv = if sign == 0 { (f.add(&old.0, &d.0), f.add(&old.1, &d.1)) } else { (f.sub(&old.0, &d.0), f.sub(&old.1, &d.1)) };
            art.ps[ps_..ps_ + es].copy_from_slice(&f.enc(&nv.0));
            art.ps[ps_ + es..pe].copy_from_slice(&f.enc(&nv.1));
            if eval_sum(&vdaf, &art, &on, f).as_ref() == Some(&want) && eval_sum(&vdaf, &art, &sib, f).as_ref() == Some(&g) {
                built = true;
                break;
            }
        }
        if !built || g.0.is_zero() {
            ctx.count("two_point_build_failed");
            continue;
        }
        ctx.count("two_point_reports_built");
        ctx.trace(|| format!("twopoint {i}: bits={bits} l={l}"));
        // Queries at level l: both crafted candidates (the sharp case), each alone, and with
        // unaffected company.
        for q in 0..4 {
            let mut set = match q {
                0 => vec![on.clone(), sib.clone()],
                1 => vec![on.clone()],
                2 => vec![sib.clone()],
                _ => match gen_set(&mut rng, &alpha, l, 8, true, &[sib.clone()]) {
                    Some(s) => s,
                    None => continue,
                },
            };
            set = normalize(set);
            honest_control(ctx, &mut rng, &vdaf, &honest, &set);
            let strategy = if set.contains(&on) && set.contains(&sib) { "two-point-sum-to-one" } else { "two-point:one-of-them-queried" };
            let c = Case { vdaf: &vdaf, art: &art, prefixes: &set, tamper: &Tamper::none(), must_reject: true, strategy,
                           detail: json!({"cw_level": l, "on_path_value": [want.0.to_string(), want.1.to_string()], "sibling_value": [g.0.to_string(), g.1.to_string()],
                                          "authenticator": k.to_string()}) };
            judge(ctx, &mut rng, &c);
        }
    }
}

/// Two non-zero candidates that sum to the honest (1, k) but sit `m` positions apart in the sorted
/// candidate list (m = 1..72, 96, 128, ...), with all-zero candidates in between. The malicious
/// client flips, in its own honest report, the control-bit correction of level `lt` for the
/// direction that LEAVES alpha's path: the whole sibling subtree becomes non-zero while alpha's own
/// side stays clean. It then queries, at a deeper level `l`, alpha's prefix, the sibling subtree's
/// nearest corner `G`, and m-1 clean (zero) candidates between them, and re-solves the level-`l`
/// payload so that alpha's prefix carries (1 - g, k - h) where (g, h) is G's value. Any verification
/// randomness that is shared between candidate positions at distance m (a restarted or periodic
/// stream, a refill bug) lets exactly this report through; independent randomness rejects it.
fn part_far_two_point(ctx: &mut Ctx, n: u64) {
    let mut rng = ctx.rng("c04-fartwopoint");
    let f64m = Fp::f64();
    let f255m = Fp::new();
    let mut dists: Vec<usize> = (1..=72).collect();
    dists.extend([95, 96, 97, 127, 128, 129, 160, 192, 255, 256, 257]);
    for i in 0..n {
        let m = dists[(i as usize + ctx.shard * 7) % dists.len()];
        let bits = *rng.choose(&[12usize, 16, 16, 20, 33]);
        let span_min = (usize::BITS - (m + 24).leading_zeros()) as usize; // 2^span >= m + 24
        let l = if rng.chance(1, 3) { bits - 1 } else { span_min + rng.usize_below(bits - span_min) };
        if l < span_min {
            continue;
        }
        let lt = rng.usize_below(l - span_min + 1); // tampered level; span = l - lt >= span_min
        let span = l - lt;
        let mut alpha = random_bits(&mut rng, bits);
        let sib_right = !alpha[lt];
        let extra = rng.usize_below(20);
        let width = 1u64 << span.min(40);
        // value of alpha's bits lt+1..=l (only the low 40 bits are steered; higher ones are all-0 / all-1)
        let a: u64 = if sib_right { width - (m as u64) - extra as u64 } else { (m as u64) - 1 + extra as u64 };
        let set_low = |p: &mut Bits, v: u64| {
            for j in 0..span {
                let bit_from_lsb = span - 1 - j;
                p[lt + 1 + j] = if bit_from_lsb < 40 { (v >> bit_from_lsb) & 1 == 1 } else { sib_right };
            }
        };
        set_low(&mut alpha, a);
        let vdaf = Poplar1::new_turboshake128(bits);
        let vctx = gen_vctx(&mut rng);
        let nonce: [u8; 16] = rng.array();
        let Some((honest, hc)) = honest_report_with_model(ctx, &mut rng, &vdaf, bits, &alpha, &vctx, &nonce) else { continue };
        let lay = PublicShareLayout { bits };
        let leaf = l == bits - 1;
        let f = if leaf { &f255m } else { &f64m };
        let k = if leaf { hc.auth_leaf.clone() } else { BigUint::from(hc.auth_inner[l]) };
        let on = alpha[..=l].to_vec();
        // G: the sibling subtree's corner nearest to alpha's side
        let mut g_pref = on.clone();
        g_pref[lt] = !alpha[lt];
        for b in g_pref[lt + 1..].iter_mut() {
            *b = !sib_right;
        }
        // m-1 clean candidates strictly between `on` and `G`
        let mut pool: Vec<u64> = if sib_right { (a + 1..width).collect() } else { (0..a).collect() };
        rng.shuffle(&mut pool);
        pool.truncate(m - 1);
        let mut set: Vec<Bits> = vec![on.clone(), g_pref.clone()];
        for v in &pool {
            let mut p = on.clone();
            set_low(&mut p, *v);
            set.push(p);
        }
        // clean company outside the subtree of the tampered node (lands before or after the pair)
        if lt > 0 {
            for _ in 0..rng.usize_below(40) {
                let p = random_bits(&mut rng, l + 1);
                if p[..lt] != alpha[..lt] {
                    set.push(p);
                }
            }
        }
        let set = normalize(set);
        let (io, ig) = (set.iter().position(|p| *p == on), set.iter().position(|p| *p == g_pref));
        let (Some(io), Some(ig)) = (io, ig) else { continue };
        if io.abs_diff(ig) != m {
            ctx.count("far_two_point_distance_construction_FAILED");
            ctx.inconclusive("far two-point: the constructed candidate list does not have the intended index distance (harness bug)");
            continue;
        }
        let mut art = honest.clone();
        let (cb, cm) = lay.ctrl_bit(lt, if sib_right { 1 } else { 0 });
        art.ps[cb] ^= cm;
        // alpha's side must still be clean: (1, k) on the path, zero at a filler
        let filler_ok = set.iter().filter(|p| **p != on && **p != g_pref).take(2).all(|p| eval_sum(&vdaf, &art, p, f) == Some((f.u(0), f.u(0))));
        let (Some(g), Some(cur)) = (eval_sum(&vdaf, &art, &g_pref, f), eval_sum(&vdaf, &art, &on, f)) else {
            ctx.count("far_two_point_build_failed");
            continue;
        };
        if !filler_ok || cur != (f.u(1), k.clone()) {
            ctx.count("far_two_point_clean_side_not_clean");
            ctx.inconclusive("far two-point: flipping a control-bit correction for the off-path direction disturbed the on-path side (harness model of the IDPF is off)");
            continue;
        }
        if g.0.is_zero() || g.0 == f.u(1) {
            ctx.count("far_two_point_build_failed");
            continue;
        }
        let want = (f.sub(&f.u(1), &g.0), f.sub(&k, &g.1));
        let d = (f.sub(&want.0, &cur.0), f.sub(&want.1, &cur.1));
        let (ps_, pe) = if leaf { (lay.leaf_start(), lay.leaf_start() + 64) } else { lay.inner_payload_range(l) };
        let es = f.elem_size();
        let old = (BigUint::from_bytes_le(&art.ps[ps_..ps_ + es]), BigUint::from_bytes_le(&art.ps[ps_ + es..pe]));
        let mut built = false;
        for sign in 0..2 {
            let nv = if sign == 0 { (f.add(&old.0, &d.0), f.add(&old.1, &d.1)) } else { (f.sub(&old.0, &d.0), f.sub(&old.1, &d.1)) };
            art.ps[ps_..ps_ + es].copy_from_slice(&f.enc(&nv.0));
            art.ps[ps_ + es..pe].copy_from_slice(&f.enc(&nv.1));
            if eval_sum(&vdaf, &art, &on, f).as_ref() == Some(&want) && eval_sum(&vdaf, &art, &g_pref, f).as_ref() == Some(&g) {
                built = true;
                break;
            }
        }
        if !built {
            // G's own control bits made it move with the payload (probability 1/2): not buildable this way
            ctx.count("far_two_point_build_failed");
            continue;
        }
        ctx.count("far_two_point_reports_built");
        ctx.count(&format!("far_two_point_distance_{}", if m <= 31 { "1-31" } else if m == 32 { "32" } else if m <= 63 { "33-63" } else if m == 64 { "64" } else if m <= 128 { "65-128" } else { "129+" }));
        ctx.set_insert("far_two_point_distances", format!("{m:03}"));
        ctx.max("far_two_point_max_candidates", set.len() as u64);
        ctx.trace(|| format!("fartwopoint {i}: bits={bits} l={l} lt={lt} m={m}"));
        honest_control(ctx, &mut rng, &vdaf, &honest, &set);
        let c = Case { vdaf: &vdaf, art: &art, prefixes: &set, tamper: &Tamper::none(), must_reject: true, strategy: "far-two-point-sum-to-one",
                       detail: json!({"tampered_ctrl_level": lt, "query_level": l, "index_distance": m, "index_on_path": io, "index_far_point": ig,
                                      "on_path_value": [want.0.to_string(), want.1.to_string()], "far_value": [g.0.to_string(), g.1.to_string()], "authenticator": k.to_string()}) };
        judge(ctx, &mut rng, &c);
    }
}

// ---------------------------------------------------------------------------------------------
// Part 3: byte alterations of every region; splicing and swapping
// ---------------------------------------------------------------------------------------------

fn part_bytes(ctx: &mut Ctx, n: u64) {
    let mut rng = ctx.rng("c04-bytes");
    for i in 0..n {
        let bits = pick_bits(&mut rng, ctx.quick());
        let vdaf = Poplar1::new_turboshake128(bits);
        let alpha = random_bits(&mut rng, bits);
        let vctx = gen_vctx(&mut rng);
        let nonce: [u8; 16] = rng.array();
        let Some(honest) = honest_report(ctx, &mut rng, &vdaf, bits, &alpha, &vctx, &nonce) else { continue };
        let lay = PublicShareLayout { bits };
        let level = match rng.below(3) {
            0 => bits - 1,
            _ => rng.usize_below(bits),
        };
        let leaf = level == bits - 1;
        let with_onpath = rng.chance(3, 4);
        let Some(set) = gen_set(&mut rng, &alpha, level, 8, with_onpath, &[]) else { continue };
        honest_control(ctx, &mut rng, &vdaf, &honest, &set);
        let mask = 1u8 << rng.below(8);
        let mut art = honest.clone();
        let mut tamper = Tamper::none();
        // (strategy, must_reject)
        let (strategy, must): (String, bool) = match rng.below(12) {
            0 | 1 | 2 => {
                // public share byte, chosen per region so that every region is hit
                let off = match rng.below(4) {
                    0 => rng.usize_below(lay.ctrl_len()),
                    1 => lay.seeds_start() + rng.usize_below(16 * bits),
                    2 if bits > 1 => lay.inner_start() + rng.usize_below(16 * (bits - 1)),
                    _ => lay.leaf_start() + rng.usize_below(64),
                };
                tamper = Tamper::one(Point::PublicShare, Alter::Xor { off, mask });
                let (region, l) = lay.classify(off);
                match region {
                    "ctrl" => {
                        let bit = off * 8 + mask.trailing_zeros() as usize;
                        let (l, c) = (bit / 2, bit % 2);
                        if l >= bits {
                            ("ps-byte:ctrl-padding".into(), false)
                        } else {
                            let m = set.iter().any(|p| cw_affected(p, &alpha, l, CwKind::Ctrl(c)));
                            (if m { "ps-byte:ctrl".into() } else { "ps-byte:ctrl:unaffected-candidates".into() }, m)
                        }
                    }
                    "seed" => {
                        let m = set.iter().any(|p| cw_affected(p, &alpha, l, CwKind::SeedBit));
                        (if m { "ps-byte:seed".into() } else { "ps-byte:seed:unaffected-candidates".into() }, m)
                    }
                    _ => {
                        // payload of level l: only the on-path candidate of exactly that level
                        let m = l == level && with_onpath;
                        (if m { "ps-byte:payload".into() } else { "ps-byte:payload:unaffected-candidates".into() }, m)
                    }
                }
            }
            3 | 4 | 5 => {
                let j = rng.usize_below(2);
                let regions = input_share_regions(bits);
                let (name, s, e) = regions[rng.usize_below(regions.len())];
                let off = s + rng.usize_below(e - s);
                tamper = Tamper::one(Point::InputShare(j), Alter::Xor { off, mask });
                let m = match name {
                    "idpf_key" | "corr_seed" => true,
                    "corr_inner" => (off - 48) / 16 == level,
                    _ => leaf,
                };
                (if m { format!("is-byte:{name}") } else { format!("is-byte:{name}:other-level") }, m)
            }
            6 => {
                // length changes of public share / input shares (no claim: a decoder refusing is
                // a rejection, one accepting must still yield a valid vector)
                let pt = if rng.bool() { Point::PublicShare } else { Point::InputShare(rng.usize_below(2)) };
                let nb = 1 + rng.usize_below(16);
                let a = if rng.bool() { Alter::Truncate(nb) } else { Alter::Append(rng.bytes(nb)) };
                tamper = Tamper::one(pt, a);
                ("length-change".into(), false)
            }
            7 => {
                // the two whole input shares swapped
                art.isb.swap(0, 1);
                ("input-shares-swapped".into(), true)
            }
            8 => {
                // only the IDPF keys swapped: everything under alpha's first bit becomes garbage
                let k0: Vec<u8> = art.isb[0][..16].to_vec();
                let k1: Vec<u8> = art.isb[1][..16].to_vec();
                if k0 == k1 {
                    continue;
                }
                art.isb[0][..16].copy_from_slice(&k1);
                art.isb[1][..16].copy_from_slice(&k0);
                let m = set.iter().any(|p| p[0] == alpha[0]);
                (if m { "idpf-keys-swapped".into() } else { "idpf-keys-swapped:unaffected-candidates".into() }, m)
            }
            9 => {
                // public share of another honest report (same bits / ctx / nonce) spliced in
                let beta = random_bits(&mut rng, bits);
                let Some(other) = honest_report(ctx, &mut rng, &vdaf, bits, &beta, &vctx, &nonce) else { continue };
                art.ps = other.ps;
                ("public-share-spliced".into(), true)
            }
            10 => {
                // one input share taken from another honest report
                let beta = random_bits(&mut rng, bits);
                let Some(other) = honest_report(ctx, &mut rng, &vdaf, bits, &beta, &vctx, &nonce) else { continue };
                let j = rng.usize_below(2);
                art.isb[j] = other.isb[j].clone();
                ("input-share-spliced".into(), true)
            }
            _ => {
                // honest report, sketch traffic altered: only oracle (G) applies
                tamper = random_sketch_tamper(&mut rng, leaf);
                ("honest+sketch-alteration".into(), false)
            }
        };
        ctx.trace(|| format!("bytes {i}: bits={bits} level={level} {strategy}"));
        let c = Case { vdaf: &vdaf, art: &art, prefixes: &set, tamper: &tamper, must_reject: must, strategy: &strategy,
                       detail: json!({"onpath_queried": with_onpath}) };
        judge(ctx, &mut rng, &c);
    }
}

// ---------------------------------------------------------------------------------------------
// Part 4: state/message variant mismatches (API level, no wire in between)
// ---------------------------------------------------------------------------------------------

struct Manual {
    states: Vec<Poplar1VerifierState>,
    shares: Vec<Poplar1FieldVec>,
}

fn manual_init(vdaf: &P1, art: &Art, param: &Poplar1AggregationParam, key: &[u8; 32]) -> Option<Manual> {
    let ps = Poplar1PublicShare::get_decoded_with_param(vdaf, &art.ps).ok()?;
    let mut states = vec![];
    let mut shares = vec![];
    for j in 0..2 {
        let is = Poplar1InputShare::<32>::get_decoded_with_param(&(vdaf, j), &art.isb[j]).ok()?;
        let (st, sh) = catch(|| vdaf.verify_init(key, &art.vctx, j, param, &art.nonce, &ps, &is)).ok()?.ok()?;
        states.push(st);
        shares.push(sh);
    }
    Some(Manual { states, shares })
}

/// Feed `msgs[j]` to `states[j]` and keep driving the protocol honestly from there. Returns the
/// output shares if both aggregators finish.
fn drive(vdaf: &P1, vctx: &[u8], param: &Poplar1AggregationParam, states: Vec<Poplar1VerifierState>, msgs: Vec<Poplar1VerifierMessage>) -> Option<Vec<Poplar1FieldVec>> {
    let mut states = states;
    let mut msgs = msgs;
    for _ in 0..4 {
        let mut outs = vec![];
        let mut next_states = vec![];
        let mut next_shares = vec![];
        for (st, m) in states.into_iter().zip(msgs.into_iter()) {
            match catch(|| vdaf.verify_next(vctx, st, m)) {
                Ok(Ok(VerifyTransition::Finish(o))) => outs.push(o),
                Ok(Ok(VerifyTransition::Continue(s, sh))) => {
                    next_states.push(s);
                    next_shares.push(sh);
                }
                _ => return None,
            }
        }
        if outs.len() == 2 {
            return Some(outs);
        }
        if next_states.len() != 2 {
            return None;
        }
        let msg = catch(|| vdaf.verifier_shares_to_message(vctx, param, next_shares)).ok()?.ok()?;
        states = next_states;
        msgs = vec![msg.clone(), msg];
    }
    None
}

fn part_variants(ctx: &mut Ctx, n: u64) {
    let mut rng = ctx.rng("c04-variants");
    let m255 = M255::new();
    for _ in 0..n {
        let bits = *rng.choose(&[2usize, 3, 4, 8, 16]);
        let vdaf = Poplar1::new_turboshake128(bits);
        let alpha = random_bits(&mut rng, bits);
        let vctx = gen_vctx(&mut rng);
        let nonce: [u8; 16] = rng.array();
        let key: [u8; 32] = rng.array();
        // R: invalid report (value 2 or authenticator mismatch at every level); H: honest report.
        let all: Vec<usize> = (0..bits).collect();
        let Some(mal) = build_malicious(ctx, &mut rng, bits, &alpha, &vctx, &nonce, &all, false, false) else { continue };
        let Some(honest) = honest_report(ctx, &mut rng, &vdaf, bits, &alpha, &vctx, &nonce) else { continue };
        let lv_inner = rng.usize_below(bits - 1);
        let lv_leaf = bits - 1;
        let set_inner = gen_set(&mut rng, &alpha, lv_inner, 4, true, &[]).unwrap();
        let set_leaf = gen_set(&mut rng, &alpha, lv_leaf, 4, true, &[]).unwrap();
        let (Ok(p_inner), Ok(p_leaf)) = (make_param(&set_inner), make_param(&set_leaf)) else { continue };
        // Honest material: round-one messages (inner / leaf) and the Done message.
        let (Some(h_in), Some(h_lf)) = (manual_init(&vdaf, &honest, &p_inner, &key), manual_init(&vdaf, &honest, &p_leaf, &key)) else {
            ctx.count("variants_setup_failed");
            continue;
        };
        let (Ok(Ok(msg_inner)), Ok(Ok(msg_leaf))) = (
            catch(|| vdaf.verifier_shares_to_message(&vctx, &p_inner, h_in.shares.clone())),
            catch(|| vdaf.verifier_shares_to_message(&vctx, &p_leaf, h_lf.shares.clone())),
        ) else {
            ctx.count("variants_setup_failed");
            continue;
        };
        // Done: drive H's inner run one step.
        let mut done: Option<Poplar1VerifierMessage> = None;
        {
            let mut sh2 = vec![];
            for st in h_in.states.iter() {
                if let Ok(Ok(VerifyTransition::Continue(_, sh))) = catch(|| vdaf.verify_next(&vctx, st.clone(), msg_inner.clone())) {
                    sh2.push(sh);
                }
            }
            if sh2.len() == 2 {
                if let Ok(Ok(m)) = catch(|| vdaf.verifier_shares_to_message(&vctx, &p_inner, sh2)) {
                    done = Some(m);
                }
            }
        }
        let Some(done) = done else {
            ctx.count("variants_setup_failed");
            continue;
        };
        // Positive control: H itself finishes when driven by this runner.
        if drive(&vdaf, &vctx, &p_inner, h_in.states.clone(), vec![msg_inner.clone(), msg_inner.clone()]).is_none() {
            ctx.count("honest_control_FAILED");
            ctx.inconclusive("API-level runner: honest report did not finish");
            continue;
        }
        ctx.count("variants_honest_controls_finished");
        // The malicious report's own states.
        let (Some(r_in), Some(r_lf)) = (manual_init(&vdaf, &mal.art, &p_inner, &key), manual_init(&vdaf, &mal.art, &p_leaf, &key)) else {
            ctx.count("variants_setup_failed");
            continue;
        };
        // R's round-two states (fed its own, honestly combined, round-one message).
        let r_msg_inner = catch(|| vdaf.verifier_shares_to_message(&vctx, &p_inner, r_in.shares.clone())).ok().and_then(|r| r.ok());
        let mut r_round2: Vec<Poplar1VerifierState> = vec![];
        if let Some(m) = &r_msg_inner {
            for st in r_in.states.iter() {
                if let Ok(Ok(VerifyTransition::Continue(s, _))) = catch(|| vdaf.verify_next(&vctx, st.clone(), m.clone())) {
                    r_round2.push(s);
                }
            }
        }
        let mut cases: Vec<(&str, &Poplar1AggregationParam, usize, bool, Vec<Poplar1VerifierState>, Poplar1VerifierMessage)> = vec![
            ("variant-mismatch:round-one-state+done", &p_inner, set_inner.len(), false, r_in.states.clone(), done.clone()),
            ("variant-mismatch:round-one-state+done", &p_leaf, set_leaf.len(), true, r_lf.states.clone(), done.clone()),
            ("variant-mismatch:leaf-state+inner-message", &p_leaf, set_leaf.len(), true, r_lf.states.clone(), msg_inner.clone()),
            ("variant-mismatch:inner-state+leaf-message", &p_inner, set_inner.len(), false, r_in.states.clone(), msg_leaf.clone()),
        ];
        if r_round2.len() == 2 {
            cases.push(("variant-mismatch:round-two-state+sketch-message", &p_inner, set_inner.len(), false, r_round2.clone(), msg_inner.clone()));
            cases.push(("variant-mismatch:round-two-state+sketch-message", &p_inner, set_inner.len(), false, r_round2.clone(), msg_leaf.clone()));
        }
        for (name, param, nset, leaf, states, msg) in cases {
            ctx.eval();
            ctx.count("executions");
            ctx.count("variant_mismatch_cases");
            match drive(&vdaf, &vctx, param, states, vec![msg.clone(), msg]) {
                None => {
                    ctx.count("variant_mismatch_rejected");
                    ctx.nontrivial(digest_str(&format!("{name}|{bits}|{leaf}")));
                }
                Some(o) => {
                    let a = o[0].get_encoded().unwrap_or_default();
                    let b = o[1].get_encoded().unwrap_or_default();
                    let valid = sum_output_shares(&a, &b, leaf, nset, &m255).map(|v| zero_or_one_hot(&v)).unwrap_or(false);
                    // Deterministic (no verification randomness involved in the acceptance).
                    ctx.violation(format!("accepted|{name}|{}", if leaf { "leaf" } else { "inner" }),
                        "both aggregators finished an invalid report after being handed a verifier message whose variant does not match their state",
                        json!({"report": mal.art.json(), "honest_report": honest.json(), "verify_key": hex(&key), "inner_level": lv_inner,
                               "inner_prefixes": set_inner.iter().map(|p| bits_str(p)).collect::<Vec<_>>(),
                               "leaf_prefixes": set_leaf.iter().map(|p| bits_str(p)).collect::<Vec<_>>(), "output_sum_valid": valid}));
                }
            }
        }
    }
}

pub fn run(ctx: &mut Ctx) {
    let per_shard = |ctx: &Ctx, q: u64, t: u64| (ctx.budget(q, t) / ctx.nshards as u64).max(1);
    let n1 = per_shard(ctx, 72_000, 600_000);
    let n2 = per_shard(ctx, 48_000, 400_000);
    let n3 = per_shard(ctx, 144_000, 1_200_000);
    let n4 = per_shard(ctx, 9_600, 48_000);
    let n5 = per_shard(ctx, 24_000, 200_000);
    let n6 = per_shard(ctx, 6_400, 64_000);
    let n7 = per_shard(ctx, 16_000, 200_000);
    part_programmed(ctx, n1);
    part_cw(ctx, n2);
    part_two_point(ctx, n5);
    part_far_two_point(ctx, n6);
    part_predicted_randomness(ctx, n7);
    part_bytes(ctx, n3);
    part_variants(ctx, n4);
    // Anti-vacuity (per shard: every shard runs every part).
    let c = |ctx: &Ctx, k: &str| ctx.counters.get(k).copied().unwrap_or(0);
    if c(ctx, "honest_controls_accepted") == 0 {
        ctx.inconclusive("no honest positive control was accepted on this shard");
    }
    if c(ctx, "reimplementation_controls_accepted") == 0 {
        ctx.inconclusive("no report built by the harness re-implementation with honest values was accepted on this shard: the malicious-client builder is not validated");
    }
    if c(ctx, "must_reject_rejected") == 0 {
        ctx.inconclusive("no must-reject case was rejected on this shard");
    }
    if c(ctx, "two_point_reports_built") == 0 {
        ctx.inconclusive("no two-point (sum-to-one) report could be built on this shard");
    }
    if c(ctx, "predicted_randomness_reports_built") == 0 {
        ctx.inconclusive("no simulate-and-cancel report could be built on this shard");
    }
    if c(ctx, "far_two_point_reports_built") == 0 {
        ctx.inconclusive("no far two-point report could be built on this shard");
    }
    if c(ctx, "model_crosschecks") == 0 {
        ctx.inconclusive("re-implementation was never cross-checked against shard_with_random on this shard");
    }
}
