//! C05: FLP prove/query/decide — complete, sound, share-linear, length-exact; wrong-length
//! arguments refused with an error; root-of-unity query randomness refused.

use crate::common::*;
use crate::zoo::*;
use prio::field::{FieldElement, FieldElementWithInteger, NttFriendlyFieldElement};
use prio::flp::Type;
use serde_json::json;

#[derive(Clone, Copy, Debug, PartialEq)]
enum RandStyle {
    Uniform,
    Zero,
    One,
    Repeated,
    RootsOfUnity,
}

fn rand_vec<F: ZField>(rng: &mut Rng64, n: usize, style: RandStyle) -> Vec<F> {
    match style {
        RandStyle::Uniform => (0..n).map(|_| F::elem(rng.u128() % F::P)).collect(),
        RandStyle::Zero => vec![F::zero(); n],
        RandStyle::One => vec![F::one(); n],
        RandStyle::Repeated => {
            let v = F::elem(2 + rng.u128() % (F::P - 2));
            vec![v; n]
        }
        RandStyle::RootsOfUnity => (0..n)
            .map(|_| {
                let l = 1 + rng.usize_below(20);
                let j = rng.u64() as u128;
                F::root(l).unwrap().pow(F::int(j % (1u128 << l)))
            })
            .collect(),
    }
}

/// A valid encoded input that is not necessarily the canonical encoding of a measurement.
fn gen_valid_input(p: &Params, rng: &mut Rng64) -> Vec<u128> {
    if rng.chance(1, 2) {
        return p.encode_ref(&p.gen_measurement(rng));
    }
    let b = p.bits();
    let lw = p.last_weight();
    // any representation of v in the modified bit-vector encoding
    let enc_any = |v: u128, rng: &mut Rng64, out: &mut Vec<u128>| {
        let half = 1u128 << (b - 1);
        let mut reps: Vec<(u128, u128)> = vec![];
        if v < half {
            reps.push((v, 0));
        }
        if v >= lw && v - lw < half {
            reps.push((v - lw, 1));
        }
        let (rest, high) = reps[rng.usize_below(reps.len())];
        for i in 0..b - 1 {
            out.push((rest >> i) & 1);
        }
        out.push(high);
    };
    match p.kind {
        Kind::Count => vec![rng.below(2) as u128],
        Kind::Sum | Kind::Average | Kind::SumVec => (0..p.input_len()).map(|_| rng.below(2) as u128).collect(),
        Kind::Histogram => p.encode_ref(&p.gen_measurement(rng)),
        Kind::Multihot => {
            let m = p.gen_measurement(rng);
            let w: u128 = m.iter().sum();
            let mut out = m;
            enc_any(w, rng, &mut out);
            out
        }
        Kind::L1BoundSum => {
            let m = p.gen_measurement(rng);
            let n: u128 = m.iter().sum();
            let mut out = vec![];
            for v in &m {
                enc_any(*v, rng, &mut out);
            }
            enc_any(n, rng, &mut out);
            out
        }
    }
}

struct V05<'a> {
    rng: &'a mut Rng64,
    reps: usize,
}

fn add_vec<F: FieldElement>(a: &mut [F], b: &[F]) {
    for (x, y) in a.iter_mut().zip(b) {
        *x += *y;
    }
}

/// Additive sharing of `v` into `n` shares; `degenerate` puts all mass on one share.
fn share_vec<F: ZField>(rng: &mut Rng64, v: &[F], n: usize, degenerate: bool) -> Vec<Vec<F>> {
    let mut shares: Vec<Vec<F>> = vec![];
    if degenerate {
        let holder = rng.usize_below(n);
        for i in 0..n {
            shares.push(if i == holder { v.to_vec() } else { vec![F::zero(); v.len()] });
        }
        return shares;
    }
    let mut last = v.to_vec();
    for _ in 1..n {
        let s: Vec<F> = (0..v.len()).map(|_| F::elem(rng.u128() % F::P)).collect();
        for (l, x) in last.iter_mut().zip(&s) {
            *l -= *x;
        }
        shares.push(s);
    }
    shares.push(last);
    shares
}

impl TypeVisitor for V05<'_> {
    fn visit<T: Kinded>(&mut self, ctx: &mut Ctx, p: &Params, typ: T)
    where
        T::Field: ZField,
    {
        let rng = &mut *self.rng;
        let desc = p.describe();
        let k = p.kind.name();
        let (il, pl, vl, jl, prl, ql) = (typ.input_len(), typ.proof_len(), typ.verifier_len(), typ.joint_rand_len(), typ.prove_rand_len(), typ.query_rand_len());
        if il != p.input_len() || jl != p.joint_rand_len() {
            ctx.violation(format!("{k}|declared-lengths"), "declared input/joint-rand lengths differ from the type definition", json!({"config": desc}));
            return;
        }
        ctx.nontrivial(digest_str(&desc));
        ctx.count(&format!("configs_{k}"));
        let gadget_q = ql - if typ.eval_output_len() > 1 { typ.eval_output_len() } else { 0 };
        let wit = |inp: &[u128], extra: serde_json::Value| json!({"config": desc, "input": inp.iter().take(24).map(|x| x.to_string()).collect::<Vec<_>>(), "input_len": inp.len(), "detail": extra});

        macro_rules! call {
            ($sig:expr, $e:expr, $inp:expr) => {
                match catch(|| $e) {
                    Ok(r) => r,
                    Err(pi) => {
                        ctx.violation(format!("{k}|panic|{}|{}", $sig, pi.class()), format!("{} panicked", $sig), wit($inp, json!({"panic": pi.message, "at": pi.location})));
                        return;
                    }
                }
            };
        }

        for rep in 0..self.reps {
            // ---------------- completeness, under any randomness ----------------
            let inp_i = gen_valid_input(p, rng);
            debug_assert!(p.is_valid(&inp_i));
            let inp: Vec<T::Field> = ints_to_field(&inp_i);
            let styles = [RandStyle::Uniform, RandStyle::Zero, RandStyle::One, RandStyle::Repeated, RandStyle::RootsOfUnity];
            let js = styles[rng.usize_below(5)];
            let ps = styles[rng.usize_below(5)];
            // query randomness: never a root of the wire domain (that is refused); zero / repeated non-root are fine
            let qs = [RandStyle::Uniform, RandStyle::Uniform, RandStyle::Zero, RandStyle::Repeated][rng.usize_below(4)];
            let joint: Vec<T::Field> = rand_vec(rng, jl, js);
            let prove_rand: Vec<T::Field> = rand_vec(rng, prl, ps);
            let query_rand: Vec<T::Field> = rand_vec(rng, ql, qs);
            let proof = match call!("prove", typ.prove(&inp, &prove_rand, &joint), &inp_i) {
                Ok(x) => x,
                Err(e) => {
                    ctx.violation(format!("{k}|prove-err"), "prove refused a valid input", wit(&inp_i, json!({"err": e.to_string(), "joint": format!("{js:?}"), "prove": format!("{ps:?}")})));
                    continue;
                }
            };
            ctx.eval();
            if proof.len() != pl {
                ctx.violation(format!("{k}|proof_len"), "proof length != proof_len()", wit(&inp_i, json!({"got": proof.len(), "want": pl})));
            }
            let verifier = match call!("query", typ.query(&inp, &proof, &query_rand, &joint, 1), &inp_i) {
                Ok(x) => x,
                Err(e) => {
                    // A repeated/zero value can by chance be a root only with negligible probability.
                    ctx.violation(format!("{k}|query-err"), "query refused a valid input/proof", wit(&inp_i, json!({"err": e.to_string(), "query": format!("{qs:?}")})));
                    continue;
                }
            };
            if verifier.len() != vl {
                ctx.violation(format!("{k}|verifier_len"), "verifier length != verifier_len()", wit(&inp_i, json!({"got": verifier.len(), "want": vl})));
            }
            match call!("decide", typ.decide(&verifier), &inp_i) {
                Ok(true) => ctx.count("complete_accepts"),
                Ok(false) => ctx.violation(format!("{k}|completeness"), "proof for a valid input rejected",
                    wit(&inp_i, json!({"joint": format!("{js:?}"), "prove": format!("{ps:?}"), "query": format!("{qs:?}")}))),
                Err(e) => ctx.violation(format!("{k}|decide-err"), "decide errored on a well-formed verifier", wit(&inp_i, json!({"err": e.to_string()}))),
            }

            // ---------------- linearity over additive sharings ----------------
            let n = match rng.below(8) {
                0 => 1,
                1 => 2,
                2 => 3,
                3 => 64,
                4 => 254,
                _ => 2 + rng.usize_below(7),
            };
            let n = if il * n > 40_000 { 2 } else { n };
            let degenerate = rng.chance(1, 4);
            let ishares = share_vec(rng, &inp, n, degenerate);
            let pshares = share_vec(rng, &proof, n, degenerate);
            let qr: Vec<T::Field> = rand_vec(rng, ql, RandStyle::Uniform);
            let whole = call!("query", typ.query(&inp, &proof, &qr, &joint, 1), &inp_i);
            let mut acc = vec![T::Field::zero(); vl];
            let mut ok = true;
            for (is, psh) in ishares.iter().zip(&pshares) {
                match call!("query", typ.query(is, psh, &qr, &joint, n), &inp_i) {
                    Ok(v) => add_vec(&mut acc, &v),
                    Err(e) => {
                        ok = false;
                        ctx.violation(format!("{k}|query-share-err"), "query refused a share", wit(&inp_i, json!({"err": e.to_string(), "shares": n})));
                        break;
                    }
                }
            }
            ctx.evals(n as u64);
            if ok {
                match whole {
                    Ok(w) if w == acc => ctx.count("linearity_checks"),
                    Ok(_) => ctx.violation(format!("{k}|linearity"), "sum of share verifiers != verifier of the whole",
                        wit(&inp_i, json!({"shares": n, "degenerate": degenerate, "joint": format!("{js:?}")}))),
                    Err(e) => ctx.violation(format!("{k}|query-err"), "query refused a valid input/proof", wit(&inp_i, json!({"err": e.to_string()}))),
                }
            }
            ctx.max("max_shares", n as u64);

            // ---------------- soundness, uniformly random joint/query randomness only -------------
            if rep % 2 == 0 {
                for (label, bad) in p.invalid_inputs(rng) {
                    let badf: Vec<T::Field> = ints_to_field(&bad);
                    let mut accepted = 0;
                    let mut trials = 0;
                    for t in 0..3 {
                        let joint: Vec<T::Field> = rand_vec(rng, jl, RandStyle::Uniform);
                        let pr: Vec<T::Field> = rand_vec(rng, prl, RandStyle::Uniform);
                        let qr: Vec<T::Field> = rand_vec(rng, ql, RandStyle::Uniform);
                        let proof = match call!("prove", typ.prove(&badf, &pr, &joint), &bad) {
                            Ok(x) => x,
                            Err(_) => break, // refusing to prove an invalid input is also a rejection
                        };
                        let ver = match call!("query", typ.query(&badf, &proof, &qr, &joint, 1), &bad) {
                            Ok(x) => x,
                            Err(_) => break,
                        };
                        trials += 1;
                        ctx.eval();
                        match call!("decide", typ.decide(&ver), &bad) {
                            Ok(true) => accepted += 1,
                            _ => {}
                        }
                        if accepted <= t {
                            break;
                        }
                    }
                    if accepted == 3 {
                        let class = label.split('@').next().unwrap().split("-vs-").next().unwrap().trim_end_matches(|c: char| c.is_ascii_digit() || c == '-').to_string();
                        ctx.violation(format!("{k}|soundness|{class}"), "proof over an INVALID input accepted under three independent uniformly random randomness draws",
                            wit(&bad, json!({"family": label})));
                    } else {
                        if accepted > 0 {
                            let class = label.split('@').next().unwrap().split("-vs-").next().unwrap().trim_end_matches(|c: char| c.is_ascii_digit() || c == '-').to_string();
                            ctx.sporadic(64, format!("{k}|soundness|{class}"), wit(&bad, json!({"family": label, "accepted": accepted})));
                        }
                        if trials > 0 {
                            ctx.count("invalid_rejected");
                        }
                    }
                }
            }

            // ---------------- wrong-length arguments: Err, never a panic ----------------
            if rep % 4 == 0 {
                let joint: Vec<T::Field> = rand_vec(rng, jl, RandStyle::Uniform);
                let pr: Vec<T::Field> = rand_vec(rng, prl, RandStyle::Uniform);
                let qr: Vec<T::Field> = rand_vec(rng, ql, RandStyle::Uniform);
                // Wrong lengths of many shapes: off by one or two, emptied, halved, and whole multiples of the
                // declared length (the value repeated, or followed by zeros / ones), since a length check written
                // as a divisibility or lower-bound test is only exposed by those.
                const HOWS: usize = 12;
                let resize = |v: &[T::Field], how: usize| -> Option<Vec<T::Field>> {
                    let mut w = v.to_vec();
                    match how {
                        0 => {
                            if w.is_empty() { return None; }
                            w.pop();
                        }
                        1 => w.push(T::Field::one()),
                        2 => {
                            if w.is_empty() { return None; }
                            w.clear();
                        }
                        3 => {
                            w.extend_from_slice(v);
                            w.push(T::Field::zero());
                        }
                        4 => {
                            if w.is_empty() { return None; }
                            w.extend_from_slice(v);
                        }
                        5 => {
                            if w.is_empty() { return None; }
                            w.extend(std::iter::repeat(T::Field::zero()).take(v.len()));
                        }
                        6 => {
                            if w.is_empty() { return None; }
                            w.extend_from_slice(v);
                            w.extend_from_slice(v);
                        }
                        7 => {
                            if w.len() < 2 { return None; }
                            w.truncate(v.len() / 2);
                        }
                        8 => {
                            w.push(T::Field::zero());
                            w.push(T::Field::zero());
                        }
                        9 => {
                            if w.len() < 3 { return None; }
                            w.pop();
                            w.pop();
                        }
                        10 => {
                            if w.is_empty() { return None; }
                            w.extend(std::iter::repeat(T::Field::one()).take(3 * v.len()));
                        }
                        _ => {
                            if w.is_empty() { return None; }
                            let mut z = vec![T::Field::zero(); v.len()];
                            z.extend_from_slice(v);
                            w = z;
                        }
                    }
                    Some(w)
                };
                for how in 0..HOWS {
                    let cases: [(&str, Option<Vec<T::Field>>); 5] = [
                        ("input", resize(&inp, how)),
                        ("prove_rand", resize(&pr, how)),
                        ("joint_rand", resize(&joint, how)),
                        ("proof", resize(&proof, how)),
                        ("query_rand", resize(&qr, how)),
                    ];
                    for (which, changed) in cases.iter() {
                        let Some(ch) = changed else { continue };
                        let (i2, pr2, j2, pf2, q2) = (
                            if *which == "input" { ch } else { &inp },
                            if *which == "prove_rand" { ch } else { &pr },
                            if *which == "joint_rand" { ch } else { &joint },
                            if *which == "proof" { ch } else { &proof },
                            if *which == "query_rand" { ch } else { &qr },
                        );
                        if matches!(*which, "input" | "prove_rand" | "joint_rand") {
                            match catch(|| typ.prove(i2, pr2, j2)) {
                                Ok(Err(_)) => ctx.count("wrong_length_refused"),
                                Ok(Ok(_)) => ctx.violation(format!("{k}|wrong-length-accepted|prove|{which}"), "prove accepted a wrong-length argument", wit(&inp_i, json!({"which": which, "how": how}))),
                                Err(pi) => ctx.violation(format!("{k}|wrong-length-panic|prove|{which}|{}", pi.class()), "prove panicked on a wrong-length argument", wit(&inp_i, json!({"which": which, "how": how, "panic": pi.message, "at": pi.location}))),
                            }
                        }
                        if matches!(*which, "input" | "proof" | "joint_rand" | "query_rand") {
                            match catch(|| typ.query(i2, pf2, q2, j2, 1)) {
                                Ok(Err(_)) => ctx.count("wrong_length_refused"),
                                Ok(Ok(_)) => ctx.violation(format!("{k}|wrong-length-accepted|query|{which}"), "query accepted a wrong-length argument", wit(&inp_i, json!({"which": which, "how": how}))),
                                Err(pi) => ctx.violation(format!("{k}|wrong-length-panic|query|{which}|{}", pi.class()), "query panicked on a wrong-length argument", wit(&inp_i, json!({"which": which, "how": how, "panic": pi.message, "at": pi.location}))),
                            }
                        }
                        ctx.eval();
                    }
                    if let Some(v2) = resize(&verifier, how) {
                        match catch(|| typ.decide(&v2)) {
                            Ok(Err(_)) => ctx.count("wrong_length_refused"),
                            Ok(Ok(_)) => ctx.violation(format!("{k}|wrong-length-accepted|decide"), "decide accepted a wrong-length verifier", wit(&inp_i, json!({"how": how}))),
                            Err(pi) => ctx.violation(format!("{k}|wrong-length-panic|decide|{}", pi.class()), "decide panicked on a wrong-length verifier", wit(&inp_i, json!({"how": how, "panic": pi.message, "at": pi.location}))),
                        }
                    }
                }
            }

            // ---------------- root-of-unity query randomness ----------------
            if rep % 2 == 1 {
                let calls = p.gadget_calls();
                let wlen = (1 + calls).next_power_of_two();
                let l = wlen.trailing_zeros() as usize;
                let joint: Vec<T::Field> = rand_vec(rng, jl, RandStyle::Uniform);
                let w = T::Field::root(l).unwrap();
                let exps: Vec<u128> = if wlen <= 64 { (0..wlen as u128).collect() } else { (0..48).map(|_| rng.u128() % wlen as u128).chain([0, 1, wlen as u128 - 1, wlen as u128 / 2]).collect() };
                for j in exps {
                    let r = w.pow(T::Field::int(j));
                    let mut qr: Vec<T::Field> = rand_vec(rng, ql, RandStyle::Uniform);
                    let gi = rng.usize_below(gadget_q);
                    let pos = ql - gadget_q + gi;
                    qr[pos] = r;
                    ctx.eval();
                    match catch(|| typ.query(&inp, &proof, &qr, &joint, 1)) {
                        Ok(Err(_)) => ctx.count("root_query_refused"),
                        Ok(Ok(_)) => ctx.violation(format!("{k}|root-of-unity-accepted"), "query accepted query randomness that is a root of unity of the wire-polynomial domain",
                            wit(&inp_i, json!({"wire_poly_len": wlen, "exponent": j.to_string()}))),
                        Err(pi) => ctx.violation(format!("{k}|root-of-unity-panic|{}", pi.class()), "query panicked on root-of-unity randomness", wit(&inp_i, json!({"panic": pi.message, "at": pi.location}))),
                    }
                }
                // Roots of the next larger domain that are not in the wire domain must be accepted,
                // and the proof must still verify (completeness under any randomness).
                if l < 20 {
                    let w2 = T::Field::root(l + 1).unwrap();
                    for _ in 0..4 {
                        let j = 2 * (rng.u128() % wlen as u128) + 1;
                        let r = w2.pow(T::Field::int(j));
                        // need the proof made with the same joint randomness
                        let pr: Vec<T::Field> = rand_vec(rng, prl, RandStyle::Uniform);
                        let proof2 = match catch(|| typ.prove(&inp, &pr, &joint)) {
                            Ok(Ok(x)) => x,
                            _ => continue,
                        };
                        let mut qr: Vec<T::Field> = rand_vec(rng, ql, RandStyle::Uniform);
                        for q in qr.iter_mut().skip(ql - gadget_q) {
                            *q = r;
                        }
                        ctx.eval();
                        match catch(|| typ.query(&inp, &proof2, &qr, &joint, 1).and_then(|v| typ.decide(&v))) {
                            Ok(Ok(true)) => ctx.count("next_domain_root_accepted"),
                            Ok(Ok(false)) => ctx.violation(format!("{k}|completeness|next-domain-root"), "valid proof rejected when the query point is a root of the doubled domain", wit(&inp_i, json!({"wire_poly_len": wlen}))),
                            Ok(Err(e)) => ctx.violation(format!("{k}|next-domain-root-refused"), "query refused a point that is not a wire-domain root", wit(&inp_i, json!({"err": e.to_string(), "wire_poly_len": wlen}))),
                            Err(pi) => ctx.violation(format!("{k}|panic|next-domain-root|{}", pi.class()), "panic", wit(&inp_i, json!({"panic": pi.message, "at": pi.location}))),
                        }
                    }
                }
            }
            if rep == 0 {
                ctx.sample(|| json!({"config": desc, "valid_input_head": inp_i.iter().take(12).map(|x| x.to_string()).collect::<Vec<_>>(), "shares": n,
                                      "lengths": {"input": il, "proof": pl, "verifier": vl, "joint": jl, "prove": prl, "query": ql}}));
            }
        }
    }
}

pub fn run(ctx: &mut Ctx) {
    let mut rng = ctx.rng("c05");
    let n_cfg = ctx.budget(3_200, 160_000) / ctx.nshards as u64;
    let budget = if ctx.quick() { 300 } else { 1500 };
    for i in 0..n_cfg {
        let kind = Kind::ALL[(i as usize + ctx.shard) % Kind::ALL.len()];
        let p = gen_params(&mut rng, kind, budget);
        ctx.trace(|| format!("cfg {i}: {}", p.describe()));
        let mut rng2 = Rng64::derive(ctx.seed, &["c05-case"], i * 7919 + ctx.shard as u64);
        let mut v = V05 { rng: &mut rng2, reps: 4 };
        // every fifth chunked circuit is the multithreaded instantiation shipped behind the
        // `multithreaded` feature (same circuit, rayon-based ParallelSum gadget)
        let mt = kind.has_joint_rand() && i % 5 == 3;
        if mt {
            ctx.count("configs_multithreaded_gadget");
        }
        if let Err(e) = with_type_ex(ctx, &p, &mut v, mt) {
            ctx.violation(format!("{}|constructor-refused", kind.name()), "admissible parameters refused", json!({"config": p.describe(), "err": e}));
        }
    }
    // Large chunked circuits (thousands of inputs, chunk lengths that are and are not multiples of
    // 8 / 32, partial last chunks), serial and multithreaded: sizes at which an implementation may
    // switch strategy (batching, parallel splitting) are where boundary mistakes live.
    let n_big = (ctx.budget(96, 1_600) / ctx.nshards as u64).max(2);
    let mut rng = ctx.rng("c05-big");
    for i in 0..n_big {
        let kind = [Kind::SumVec, Kind::Histogram, Kind::Multihot, Kind::L1BoundSum][(i as usize + ctx.shard) % 4];
        let fp = if rng.bool() { P64 } else { P128 };
        let n = 2_000 + rng.usize_below(if ctx.quick() { 10_000 } else { 40_000 });
        let chunk = match rng.below(6) {
            0 => 100,
            1 => 33 + rng.usize_below(31),
            2 => 8 * (4 + rng.usize_below(30)),
            3 => prio::vdaf::prio3::optimal_chunk_length(n),
            4 => prio::vdaf::prio3::optimal_chunk_length(n) + 1 + rng.usize_below(7),
            _ => 20 + rng.usize_below(300),
        };
        let p = match kind {
            Kind::SumVec => Params { kind, max: 1, len: n, chunk, p: fp },
            Kind::Histogram => Params { kind, max: 1, len: n, chunk, p: fp },
            Kind::Multihot => Params { kind, max: 1 + rng.below(9) as u128, len: n, chunk, p: fp },
            _ => Params { kind, max: 3, len: n / 2, chunk, p: fp },
        };
        let mt = rng.chance(2, 3);
        ctx.trace(|| format!("big cfg {i}: {} mt={mt}", p.describe()));
        ctx.count(if mt { "big_configs_multithreaded_gadget" } else { "big_configs_serial_gadget" });
        let mut rng2 = Rng64::derive(ctx.seed, &["c05-big-case"], i * 7919 + ctx.shard as u64);
        let mut v = V05 { rng: &mut rng2, reps: 1 };
        if let Err(e) = with_type_ex(ctx, &p, &mut v, mt) {
            ctx.violation(format!("{}|constructor-refused", kind.name()), "admissible parameters refused", json!({"config": p.describe(), "err": e}));
        }
    }
}
