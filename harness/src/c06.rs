//! C06: IDPF — shares reconstruct the programmed point function; caches are transparent.
//!
//! Monitors (all on executions of the real `Idpf::gen` / `Idpf::eval` / `IdpfOutputShare::merge`):
//!
//! * reconstruction: for a generated key pair, `eval(0, prefix) + eval(1, prefix)` must be the value
//!   programmed for that level when `prefix` lies on the input's path and zero (all-zero encoding
//!   of the right length and level kind) otherwise;
//! * cache transparency: the encoded output share of every evaluation made through a cache, after
//!   any history of earlier evaluations through that cache, must equal byte for byte the output of
//!   the same evaluation with `NoCache`.
//!
//! Every cache (library or harness) is wrapped in a `Spy` that records gets / hits / misses /
//! inserts and "lost" lookups (a miss on a key that had been inserted before = an eviction or a
//! dropped insert seen from outside).  Harness caches never lie: they return exactly what was
//! inserted under exactly that key or nothing.

use crate::common::*;
use bitvec::slice::BitSlice;
use prio::codec::{CodecError, Encode, ParameterizedDecode};
use prio::field::{Field128, Field255, Field64, FieldElement, FieldPrio2};
use prio::idpf::{HashMapCache, Idpf, IdpfCache, IdpfInput, IdpfOutputShare, IdpfPublicShare, IdpfValue, NoCache, RingBufferCache};
use prio::vdaf::poplar1::Poplar1IdpfValue;
use prio::vdaf::xof::Seed;
use serde_json::{json, Value};
use std::cell::{Cell, RefCell};
use std::collections::HashMap;
use std::io::Cursor;
use std::ops::{Add, AddAssign, Sub};
use subtle::{Choice, ConditionallyNegatable, ConditionallySelectable};

/// Stable class of a panic for signatures: source file relative to its crate (`src/...`, prefixed
/// with the crate directory for registry crates) + message with digit runs collapsed to one `#`.
/// (common.rs `PanicInfo::class` keeps absolute paths outside /repo and one `#` per digit.)
fn pclass(pi: &PanicInfo) -> String {
    let file = pi.location.rsplit_once(':').map(|x| x.0).unwrap_or(&pi.location);
    let file = match file.rfind("/src/") {
        Some(i) if file.contains("/registry/") => {
            let krate = file[..i].rsplit('/').next().unwrap_or("");
            format!("{krate}/{}", &file[i + 1..])
        }
        Some(i) => file[i + 1..].to_string(),
        None => file.to_string(),
    };
    let mut msg = String::new();
    for c in pi.message.chars().take(60) {
        if c.is_ascii_digit() {
            if !msg.ends_with('#') {
                msg.push('#');
            }
        } else {
            msg.push(c);
        }
    }
    format!("{file}:{msg}")
}

// ---------------------------------------------------------------------------------------------
// Value types
// ---------------------------------------------------------------------------------------------

/// Harness-defined IDPF value: a vector of field elements whose length is a run-time parameter.
/// Encoding = concatenation of the element encodings (no length prefix).
#[derive(Debug, Clone)]
pub struct VecVal<F>(pub Vec<F>);

impl<F: FieldElement> IdpfValue for VecVal<F> {
    type ValueParameter = usize;
    fn generate<S: rand_core::Rng>(seed_stream: &mut S, len: &usize) -> Self {
        VecVal((0..*len).map(|_| <F as IdpfValue>::generate(seed_stream, &())).collect())
    }
    fn zero(len: &usize) -> Self {
        VecVal(vec![<F as FieldElement>::zero(); *len])
    }
    fn conditional_select(a: &Self, b: &Self, choice: Choice) -> Self {
        assert_eq!(a.0.len(), b.0.len());
        VecVal(a.0.iter().zip(b.0.iter()).map(|(x, y)| <F as ConditionallySelectable>::conditional_select(x, y, choice)).collect())
    }
}

impl<F: FieldElement> Encode for VecVal<F> {
    fn encode(&self, bytes: &mut Vec<u8>) -> Result<(), CodecError> {
        for e in &self.0 {
            e.encode(bytes)?;
        }
        Ok(())
    }
    fn encoded_len(&self) -> Option<usize> {
        Some(self.0.len() * F::ENCODED_SIZE)
    }
}

impl<F: FieldElement> ParameterizedDecode<usize> for VecVal<F> {
    fn decode_with_param(len: &usize, bytes: &mut Cursor<&[u8]>) -> Result<Self, CodecError> {
        (0..*len).map(|_| F::decode(bytes)).collect::<Result<Vec<_>, _>>().map(VecVal)
    }
}

impl<F: FieldElement> ConditionallyNegatable for VecVal<F> {
    fn conditional_negate(&mut self, choice: Choice) {
        for e in self.0.iter_mut() {
            e.conditional_negate(choice);
        }
    }
}

impl<F: FieldElement> Add for VecVal<F> {
    type Output = Self;
    fn add(self, rhs: Self) -> Self {
        assert_eq!(self.0.len(), rhs.0.len());
        VecVal(self.0.iter().zip(rhs.0.iter()).map(|(a, b)| *a + *b).collect())
    }
}

impl<F: FieldElement> AddAssign for VecVal<F> {
    fn add_assign(&mut self, rhs: Self) {
        assert_eq!(self.0.len(), rhs.0.len());
        for (a, b) in self.0.iter_mut().zip(rhs.0.iter()) {
            *a += *b;
        }
    }
}

impl<F: FieldElement> Sub for VecVal<F> {
    type Output = Self;
    fn sub(self, rhs: Self) -> Self {
        assert_eq!(self.0.len(), rhs.0.len());
        VecVal(self.0.iter().zip(rhs.0.iter()).map(|(a, b)| *a - *b).collect())
    }
}

fn rand_field<F: FieldElement>(rng: &mut Rng64) -> F {
    match rng.below(8) {
        0 => F::zero(),
        1 => F::one(),
        2 => F::zero() - F::one(),
        _ => loop {
            if let Ok(x) = F::try_from_random(&rng.bytes(F::ENCODED_SIZE)) {
                break x;
            }
        },
    }
}

/// Value types the driver can program into an IDPF.
pub trait TV: IdpfValue + Clone
where
    Self::ValueParameter: Clone,
{
    fn rand(rng: &mut Rng64, p: &Self::ValueParameter) -> Self;
}

macro_rules! tv_field {
    ($($f:ty),*) => {$(
        impl TV for $f {
            fn rand(rng: &mut Rng64, _: &()) -> Self { rand_field::<$f>(rng) }
        }
        impl TV for Poplar1IdpfValue<$f> {
            fn rand(rng: &mut Rng64, _: &()) -> Self {
                // Poplar1 programs (1, k); other pairs are legal IDPF values as well.
                let first = if rng.bool() { <$f as FieldElement>::one() } else { rand_field::<$f>(rng) };
                Poplar1IdpfValue::new([first, rand_field::<$f>(rng)])
            }
        }
        impl TV for VecVal<$f> {
            fn rand(rng: &mut Rng64, len: &usize) -> Self { VecVal((0..*len).map(|_| rand_field::<$f>(rng)).collect()) }
        }
    )*};
}
tv_field!(FieldPrio2, Field64, Field128, Field255);

// ---------------------------------------------------------------------------------------------
// Caches
// ---------------------------------------------------------------------------------------------

type Node = ([u8; 16], u8);

fn key_of(input: &BitSlice) -> Vec<bool> {
    input.iter().by_vals().collect()
}

#[derive(Default, Clone, Debug)]
struct SpyStats {
    gets: u64,
    hits: u64,
    misses: u64,
    inserts: u64,
    /// misses on a key that had been inserted before (eviction / dropped insert seen from outside)
    lost: u64,
    /// hits whose value differs from what was last inserted under that key (a lying cache)
    foreign: u64,
    /// inserts under a key already inserted with a different value
    conflicts: u64,
    hit_depths: Vec<u64>,
}

/// Wrapper recording every get/insert and what the wrapped cache answered.
struct Spy {
    inner: Box<dyn IdpfCache>,
    stats: RefCell<SpyStats>,
    truth: RefCell<HashMap<Vec<bool>, Node>>,
}

impl Spy {
    fn new(inner: Box<dyn IdpfCache>) -> Self {
        Spy { inner, stats: RefCell::new(SpyStats::default()), truth: RefCell::new(HashMap::new()) }
    }
}

fn depth_bucket(d: usize) -> usize {
    match d {
        0..=6 => d,
        7..=8 => 7,
        9..=16 => 8,
        17..=64 => 9,
        65..=320 => 10,
        _ => 11,
    }
}
const DEPTH_BUCKET_NAMES: [&str; 12] = ["0", "1", "2", "3", "4", "5", "6", "7-8", "9-16", "17-64", "65-320", "321+"];

impl IdpfCache for Spy {
    fn get(&self, input: &BitSlice) -> Option<Node> {
        let key = key_of(input);
        let r = self.inner.get(input);
        let mut s = self.stats.borrow_mut();
        s.gets += 1;
        match r {
            Some(v) => {
                s.hits += 1;
                if s.hit_depths.len() < 12 {
                    s.hit_depths.resize(12, 0);
                }
                s.hit_depths[depth_bucket(key.len())] += 1;
                if self.truth.borrow().get(&key) != Some(&v) {
                    s.foreign += 1;
                }
            }
            None => {
                s.misses += 1;
                if self.truth.borrow().contains_key(&key) {
                    s.lost += 1;
                }
            }
        }
        r
    }

    fn insert(&mut self, input: &BitSlice, values: &Node) {
        let key = key_of(input);
        let mut s = self.stats.borrow_mut();
        s.inserts += 1;
        if let Some(old) = self.truth.borrow().get(&key) {
            if old != values {
                s.conflicts += 1;
            }
        }
        self.truth.borrow_mut().insert(key, *values);
        self.inner.insert(input, values);
    }
}

/// Harness cache: drops a pseudo-random subset of inserts.
struct LossyCache {
    map: HashMap<Vec<bool>, Node>,
    rng: Rng64,
    drop_permille: u64,
}

impl IdpfCache for LossyCache {
    fn get(&self, input: &BitSlice) -> Option<Node> {
        self.map.get(&key_of(input)).copied()
    }
    fn insert(&mut self, input: &BitSlice, values: &Node) {
        if self.rng.below(1000) >= self.drop_permille {
            self.map.insert(key_of(input), *values);
        }
    }
}

/// Harness cache: forgets on a schedule (every `period`-th operation, get or insert): everything
/// (`half == false`) or every other entry.
struct ForgetfulCache {
    map: RefCell<HashMap<Vec<bool>, Node>>,
    ops: Cell<u64>,
    period: u64,
    half: bool,
}

impl ForgetfulCache {
    fn tick(&self) {
        self.ops.set(self.ops.get() + 1);
        if self.ops.get() % self.period == 0 {
            let mut m = self.map.borrow_mut();
            if self.half {
                let mut keys: Vec<Vec<bool>> = m.keys().cloned().collect();
                keys.sort();
                for k in keys.iter().step_by(2) {
                    m.remove(k);
                }
            } else {
                m.clear();
            }
        }
    }
}

impl IdpfCache for ForgetfulCache {
    fn get(&self, input: &BitSlice) -> Option<Node> {
        self.tick();
        self.map.borrow().get(&key_of(input)).copied()
    }
    fn insert(&mut self, input: &BitSlice, values: &Node) {
        self.tick();
        self.map.borrow_mut().insert(key_of(input), *values);
    }
}

/// Harness cache: bounded, least-recently-used eviction (a hit refreshes the entry).
struct LruCache {
    cap: usize,
    entries: RefCell<Vec<(Vec<bool>, Node)>>,
}

impl IdpfCache for LruCache {
    fn get(&self, input: &BitSlice) -> Option<Node> {
        let key = key_of(input);
        let mut e = self.entries.borrow_mut();
        let pos = e.iter().position(|(k, _)| *k == key)?;
        let item = e.remove(pos);
        let v = item.1;
        e.push(item);
        Some(v)
    }
    fn insert(&mut self, input: &BitSlice, values: &Node) {
        if self.cap == 0 {
            return;
        }
        let key = key_of(input);
        let mut e = self.entries.borrow_mut();
        if let Some(pos) = e.iter().position(|(k, _)| *k == key) {
            e.remove(pos);
        } else if e.len() >= self.cap {
            e.remove(0);
        }
        e.push((key, *values));
    }
}

#[derive(Clone, Copy, Debug, PartialEq)]
enum Kind {
    No,
    HashMap,
    HashMapCap(usize),
    Ring(usize),
    /// capacity = bits of the instance
    RingBits,
    Lossy(u64),
    Forgetful(u64, bool),
    Lru(usize),
}

const KINDS: [Kind; 19] = [
    Kind::No,
    Kind::HashMap,
    Kind::HashMapCap(4),
    Kind::Ring(0),
    Kind::Ring(1),
    Kind::Ring(2),
    Kind::Ring(3),
    Kind::Ring(5),
    Kind::RingBits,
    Kind::Ring(1000),
    Kind::Lossy(300),
    Kind::Lossy(700),
    Kind::Forgetful(3, false),
    Kind::Forgetful(7, true),
    Kind::Forgetful(50, false),
    Kind::Lru(1),
    Kind::Lru(2),
    Kind::Lru(3),
    Kind::Lru(16),
];

impl Kind {
    /// Family name used in signatures.
    fn family(self) -> &'static str {
        match self {
            Kind::No => "NoCache",
            Kind::HashMap | Kind::HashMapCap(_) => "HashMapCache",
            Kind::Ring(_) | Kind::RingBits => "RingBufferCache",
            Kind::Lossy(_) => "harness-lossy",
            Kind::Forgetful(..) => "harness-forgetful",
            Kind::Lru(_) => "harness-lru",
        }
    }
    fn describe(self, bits: usize) -> String {
        match self {
            Kind::No => "NoCache".into(),
            Kind::HashMap => "HashMapCache::new()".into(),
            Kind::HashMapCap(c) => format!("HashMapCache::with_capacity({c})"),
            Kind::Ring(c) => format!("RingBufferCache::new({c})"),
            Kind::RingBits => format!("RingBufferCache::new({bits})"),
            Kind::Lossy(p) => format!("harness-lossy(drop {p}/1000 of inserts)"),
            Kind::Forgetful(p, h) => format!("harness-forgetful(every {p} ops forget {})", if h { "half" } else { "all" }),
            Kind::Lru(c) => format!("harness-lru(cap {c})"),
        }
    }
    /// Build a fresh cache. Constructors of library caches run under the panic monitor.
    fn make(self, bits: usize, seed: u64) -> Result<Spy, PanicInfo> {
        let inner: Box<dyn IdpfCache> = match self {
            Kind::No => Box::new(NoCache::new()),
            Kind::HashMap => Box::new(HashMapCache::new()),
            Kind::HashMapCap(c) => Box::new(catch(|| HashMapCache::with_capacity(c))?),
            Kind::Ring(c) => Box::new(catch(|| RingBufferCache::new(c))?),
            Kind::RingBits => Box::new(catch(|| RingBufferCache::new(bits))?),
            Kind::Lossy(p) => Box::new(LossyCache { map: HashMap::new(), rng: Rng64::new(seed ^ 0x1055), drop_permille: p }),
            Kind::Forgetful(p, h) => Box::new(ForgetfulCache { map: RefCell::new(HashMap::new()), ops: Cell::new(seed % p), period: p, half: h }),
            Kind::Lru(c) => Box::new(LruCache { cap: c, entries: RefCell::new(vec![]) }),
        };
        Ok(Spy::new(inner))
    }
}

fn flush_stats(ctx: &mut Ctx, kind: Kind, s: &SpyStats) {
    ctx.count_n("cache_gets", s.gets);
    if kind == Kind::No {
        // NoCache "loses" everything by design: not counted as observed evictions.
        ctx.count_n("nocache_gets", s.gets);
        if s.hits > 0 {
            ctx.count_n("nocache_hits", s.hits);
        }
        return;
    }
    ctx.count_n("cache_hits", s.hits);
    ctx.count_n("cache_misses", s.misses);
    ctx.count_n("cache_inserts", s.inserts);
    ctx.count_n("cache_evictions_observed", s.lost);
    ctx.count_n("cache_returned_foreign_entry", s.foreign);
    ctx.count_n("cache_insert_conflicts", s.conflicts);
    ctx.count_n(&format!("hits_{}", kind.family()), s.hits);
    ctx.count_n(&format!("lost_{}", kind.family()), s.lost);
    for (i, n) in s.hit_depths.iter().enumerate() {
        if *n > 0 {
            ctx.count_n(&format!("hit_at_depth_{}", DEPTH_BUCKET_NAMES[i]), *n);
        }
    }
}

// ---------------------------------------------------------------------------------------------
// One generated key pair
// ---------------------------------------------------------------------------------------------

fn bits_str(p: &[bool]) -> String {
    p.iter().map(|b| if *b { '1' } else { '0' }).collect()
}

fn enc_out<VI: IdpfValue, VL: IdpfValue>(o: &IdpfOutputShare<VI, VL>) -> Vec<u8> {
    let mut out = vec![];
    match o {
        IdpfOutputShare::Inner(v) => {
            out.push(0);
            v.encode(&mut out).expect("encoding a field value cannot fail");
        }
        IdpfOutputShare::Leaf(v) => {
            out.push(1);
            v.encode(&mut out).expect("encoding a field value cannot fail");
        }
    }
    out
}

thread_local! {
    static EVAL_COUNTER: Cell<u64> = const { Cell::new(0) };
}

/// The same bits as `IdpfInput::from_bools(prefix)`, but stored at bit offset `off` of the
/// underlying buffer (junk bits before them).
fn unaligned_input(prefix: &[bool], off: usize) -> IdpfInput {
    use bitvec::prelude::*;
    let mut bv: BitVec<usize, Lsb0> = BitVec::new();
    for i in 0..off {
        bv.push(i % 3 != 1);
    }
    for b in prefix {
        bv.push(*b);
    }
    IdpfInput::from(BitBox::from_bitslice(&bv[off..]))
}

/// One long-lived `Idpf` instance used for SEVERAL reports (generated under different contexts
/// and/or nonces): evaluations must reconstruct each report's own programmed values.
fn shared_instance(ctx: &mut Ctx) {
    let mut rng = ctx.rng("c06-shared-instance");
    let rounds = ctx.budget(18, 200);
    for round in 0..rounds {
        let bits = 2 + rng.usize_below(6);
        let idpf = Idpf::<Field64, Field255>::new((), ());
        let base_ctx = rng.bytes(8);
        let base_nonce = rng.bytes(16);
        // (ctx, nonce) variants: same nonce / other ctx, same ctx / other nonce, both same, both other
        let mut variants: Vec<(Vec<u8>, Vec<u8>)> = vec![(base_ctx.clone(), base_nonce.clone())];
        let mut c2 = base_ctx.clone();
        c2[0] ^= 1;
        variants.push((c2.clone(), base_nonce.clone()));
        let mut n2 = base_nonce.clone();
        n2[15] ^= 0x80;
        variants.push((base_ctx.clone(), n2.clone()));
        variants.push((c2, n2));
        variants.push((base_ctx.clone(), base_nonce.clone()));
        let mut reports = vec![];
        for (vctx, nonce) in &variants {
            let input: Vec<bool> = (0..bits).map(|_| rng.bool()).collect();
            let inner: Vec<Field64> = (0..bits - 1).map(|_| rand_field::<Field64>(&mut rng)).collect();
            let leaf: Field255 = rand_field::<Field255>(&mut rng);
            match catch(|| idpf.gen(&IdpfInput::from_bools(&input), inner.clone(), leaf, vctx, nonce)) {
                Ok(Ok((public, keys))) => reports.push((input, inner, leaf, vctx.clone(), nonce.clone(), public, keys)),
                _ => {
                    ctx.inconclusive("shared-instance: gen failed");
                    return;
                }
            }
        }
        // Evaluate the reports one after the other (and once more in reverse) on the SAME instance.
        let order: Vec<usize> = (0..reports.len()).chain((0..reports.len()).rev()).collect();
        for &ri in &order {
            let (input, inner, leaf, vctx, nonce, public, keys) = &reports[ri];
            for plen in 1..=bits {
                for which in 0..2 {
                    let mut prefix: Vec<bool> = input[..plen].to_vec();
                    if which == 1 {
                        let k = rng.usize_below(plen);
                        prefix[k] = !prefix[k];
                    }
                    let on_path = which == 0;
                    let p = IdpfInput::from_bools(&prefix);
                    let mut outs = vec![];
                    for party in 0..2 {
                        ctx.eval();
                        match catch(|| idpf.eval(party, public, &keys[party], &p, vctx, nonce, &mut NoCache::new())) {
                            Ok(Ok(o)) => outs.push(o),
                            _ => {}
                        }
                    }
                    if outs.len() != 2 {
                        continue;
                    }
                    let want = if plen == bits {
                        IdpfOutputShare::<Field64, Field255>::Leaf(if on_path { *leaf } else { <Field255 as FieldElement>::zero() })
                    } else {
                        IdpfOutputShare::<Field64, Field255>::Inner(if on_path { inner[plen - 1] } else { <Field64 as FieldElement>::zero() })
                    };
                    let b = outs.pop().unwrap();
                    let a = outs.pop().unwrap();
                    let sum = match catch(|| a.merge(b)) {
                        Ok(Ok(s)) => s,
                        _ => continue,
                    };
                    ctx.count("shared_instance_reconstructions");
                    if enc_out(&sum) != enc_out(&want) {
                        ctx.violation("shared-instance|reconstruction", "on a long-lived Idpf instance that evaluated another report before, the two shares no longer sum to the programmed value / zero",
                            json!({"bits": bits, "report_index": ri, "prefix": bits_str(&prefix), "on_path": on_path, "ctx": hex(vctx), "nonce": hex(nonce),
                                   "other_reports": variants.iter().map(|(c, n)| format!("{}/{}", hex(c), hex(n))).collect::<Vec<_>>()}));
                    }
                }
            }
        }
        ctx.nontrivial(digest(&[b"shared-instance", &round.to_le_bytes(), &base_nonce]));
    }
}

struct Inst<VI: TV, VL: TV>
where
    VI::ValueParameter: Clone,
    VL::ValueParameter: Clone,
{
    cfg: &'static str,
    idpf: Idpf<VI, VL>,
    public: IdpfPublicShare<VI, VL>,
    keys: [Seed<16>; 2],
    bits: usize,
    input: Vec<bool>,
    /// tagged encodings of the programmed values, one per level
    programmed: Vec<Vec<u8>>,
    vctx: Vec<u8>,
    nonce: Vec<u8>,
    /// NoCache reference outputs, memoised
    reference: HashMap<(usize, Vec<bool>), Vec<u8>>,
}

fn gen_ctx_nonce(rng: &mut Rng64) -> (Vec<u8>, Vec<u8>) {
    let vctx = match rng.below(6) {
        0 => vec![],
        1 => vec![rng.u64() as u8],
        2 => rng.bytes(300),
        3 => b"idpf ctx".to_vec(),
        _ => {
            let n = rng.usize_below(40);
            rng.bytes(n)
        }
    };
    let nonce = match rng.below(8) {
        0 => vec![],
        1 => vec![0u8; 16],
        2 => vec![0xff; 16],
        3 => rng.bytes(32),
        4 => rng.bytes(1),
        _ => rng.bytes(16),
    };
    (vctx, nonce)
}

impl<VI: TV, VL: TV> Inst<VI, VL>
where
    VI::ValueParameter: Clone,
    VL::ValueParameter: Clone,
{
    fn gen(ctx: &mut Ctx, cfg: &'static str, pi: &VI::ValueParameter, pl: &VL::ValueParameter, input: Vec<bool>, rng: &mut Rng64) -> Option<Self> {
        let bits = input.len();
        let idpf = Idpf::<VI, VL>::new(pi.clone(), pl.clone());
        let inner: Vec<VI> = (0..bits - 1).map(|_| VI::rand(rng, pi)).collect();
        let leaf = VL::rand(rng, pl);
        let (vctx, nonce) = gen_ctx_nonce(rng);
        let mut programmed: Vec<Vec<u8>> = inner.iter().map(|v| enc_out::<VI, VL>(&IdpfOutputShare::Inner(v.clone()))).collect();
        programmed.push(enc_out::<VI, VL>(&IdpfOutputShare::Leaf(leaf.clone())));
        let wit = || json!({"config": cfg, "bits": bits, "input": bits_str(&input), "ctx": hex(&vctx), "nonce": hex(&nonce),
                            "programmed_tagged_hex": programmed.iter().take(16).map(|b| hex(b)).collect::<Vec<_>>()});
        let r = catch(|| idpf.gen(&IdpfInput::from_bools(&input), inner.clone(), leaf.clone(), &vctx, &nonce));
        ctx.count("keys_generated");
        match r {
            Ok(Ok((public, keys))) => Some(Inst { cfg, idpf, public, keys, bits, input, programmed, vctx, nonce, reference: HashMap::new() }),
            Ok(Err(e)) => {
                let mut w = wit();
                w["err"] = json!(e.to_string());
                ctx.violation("gen|err", "Idpf::gen refused a valid input / value list", w);
                None
            }
            Err(pi) => {
                let mut w = wit();
                w["panic"] = json!(pi.message);
                w["at"] = json!(pi.location);
                ctx.violation(format!("gen|panic|{}", pclass(&pi)), "Idpf::gen panicked", w);
                None
            }
        }
    }

    fn witness(&self) -> Value {
        json!({
            "config": self.cfg, "bits": self.bits, "input": bits_str(&self.input),
            "ctx": hex(&self.vctx), "nonce": hex(&self.nonce),
            "key0": hex(AsRef::<[u8; 16]>::as_ref(&self.keys[0])), "key1": hex(AsRef::<[u8; 16]>::as_ref(&self.keys[1])),
            "public_share": self.public.get_encoded().map(|b| hex(&b)).unwrap_or_else(|e| format!("<encode failed: {e}>")),
            "programmed_tagged_hex(level0..)": if self.bits <= 70 { json!(self.programmed.iter().map(|b| hex(b)).collect::<Vec<_>>()) } else { json!("omitted (recoverable from keys + public share)") },
            "how": "public share = IdpfPublicShare::get_decoded_with_param(&bits, ..); eval(party, &public, &key, &IdpfInput::from_bools(prefix), ctx, nonce, cache); outputs are tag(0 inner/1 leaf) || encoded value",
        })
    }

    /// Tagged encoding the two shares must add up to at `prefix`.
    fn expected(&self, prefix: &[bool]) -> (bool, Vec<u8>) {
        let level = prefix.len() - 1;
        let on_path = prefix == &self.input[..prefix.len()];
        let p = &self.programmed[level];
        if on_path {
            (true, p.clone())
        } else {
            let mut z = vec![0u8; p.len()];
            z[0] = p[0];
            (false, z)
        }
    }

    /// One monitored `Idpf::eval`. Errors and panics on a valid prefix are violations.
    fn eval(&self, ctx: &mut Ctx, party: usize, prefix: &[bool], cache: &mut dyn IdpfCache, cache_family: &str) -> Option<IdpfOutputShare<VI, VL>> {
        // Half of the evaluations present the prefix as a bit slice that starts in the middle of
        // a storage word (a legitimate `IdpfInput`, e.g. a sub-slice of a packed buffer): cache keys
        // must be independent of the alignment of the caller's bits.
        let n = EVAL_COUNTER.with(|c| {
            c.set(c.get().wrapping_add(1));
            c.get()
        });
        let p = if n % 2 == 0 {
            IdpfInput::from_bools(prefix)
        } else {
            unaligned_input(prefix, 1 + (n as usize / 2) % 63)
        };
        let r = catch(|| self.idpf.eval(party, &self.public, &self.keys[party], &p, &self.vctx, &self.nonce, cache));
        ctx.eval();
        match r {
            Ok(Ok(o)) => {
                let leaf = matches!(o, IdpfOutputShare::Leaf(_));
                if leaf != (prefix.len() == self.bits) {
                    let mut w = self.witness();
                    w["prefix"] = json!(bits_str(prefix));
                    w["party"] = json!(party);
                    ctx.violation(format!("eval|wrong-variant|{cache_family}"), "eval returned a leaf share for an inner prefix or vice versa", w);
                    return None;
                }
                Some(o)
            }
            Ok(Err(e)) => {
                let mut w = self.witness();
                w["prefix"] = json!(bits_str(prefix));
                w["party"] = json!(party);
                w["err"] = json!(e.to_string());
                ctx.violation(format!("eval|err|{cache_family}"), "Idpf::eval refused a valid prefix", w);
                None
            }
            Err(pi) => {
                let mut w = self.witness();
                w["prefix"] = json!(bits_str(prefix));
                w["party"] = json!(party);
                w["panic"] = json!(pi.message);
                w["at"] = json!(pi.location);
                ctx.violation(format!("eval|panic|{cache_family}|{}", pclass(&pi)), "Idpf::eval panicked on a valid prefix", w);
                None
            }
        }
    }

    /// NoCache reference output of (party, prefix), memoised.
    fn reference(&mut self, ctx: &mut Ctx, party: usize, prefix: &[bool]) -> Option<Vec<u8>> {
        if let Some(b) = self.reference.get(&(party, prefix.to_vec())) {
            return Some(b.clone());
        }
        let o = self.eval(ctx, party, prefix, &mut NoCache::new(), "NoCache")?;
        let b = enc_out(&o);
        self.reference.insert((party, prefix.to_vec()), b.clone());
        Some(b)
    }

    /// Reconstruction monitor at one prefix (both parties, NoCache). Records the references.
    fn check_sum(&mut self, ctx: &mut Ctx, prefix: &[bool]) {
        let Some(o0) = self.eval(ctx, 0, prefix, &mut NoCache::new(), "NoCache") else { return };
        let Some(o1) = self.eval(ctx, 1, prefix, &mut NoCache::new(), "NoCache") else { return };
        self.reference.insert((0, prefix.to_vec()), enc_out(&o0));
        self.reference.insert((1, prefix.to_vec()), enc_out(&o1));
        let (b0, b1) = (enc_out(&o0), enc_out(&o1));
        let (on_path, want) = self.expected(prefix);
        let kind = if prefix.len() == self.bits { "leaf" } else { "inner" };
        let path = if on_path { "on-path" } else { "off-path" };
        match catch(|| o0.merge(o1)) {
            Ok(Ok(m)) => {
                let got = enc_out(&m);
                if got != want {
                    let mut w = self.witness();
                    w["prefix"] = json!(bits_str(prefix));
                    w["share0"] = json!(hex(&b0));
                    w["share1"] = json!(hex(&b1));
                    w["sum"] = json!(hex(&got));
                    w["want"] = json!(hex(&want));
                    let first_diff = prefix.iter().zip(self.input.iter()).position(|(a, b)| a != b);
                    w["diverges_at_depth"] = json!(first_diff);
                    ctx.violation(format!("sum|{path}|{kind}"),
                        if on_path { "shares do not add up to the programmed value on the input's path" } else { "shares do not add up to zero off the input's path" }, w);
                }
            }
            Ok(Err(e)) => {
                let mut w = self.witness();
                w["prefix"] = json!(bits_str(prefix));
                w["err"] = json!(e.to_string());
                ctx.violation(format!("merge|err|{kind}"), "merge of the two parties' shares for the same prefix failed", w);
            }
            Err(pi) => {
                let mut w = self.witness();
                w["prefix"] = json!(bits_str(prefix));
                w["panic"] = json!(pi.message);
                w["at"] = json!(pi.location);
                ctx.violation(format!("merge|panic|{kind}|{}", pclass(&pi)), "merge panicked", w);
            }
        }
        ctx.count(if on_path { "onpath_value_checks" } else { "offpath_zero_checks" });
        if prefix.len() == self.bits {
            ctx.count("leaf_level_checks");
        } else {
            ctx.count("inner_level_checks");
        }
    }

    /// Does the last evaluation of `hist` through a fresh cache of `kind` differ from NoCache?
    fn replay_differs(&mut self, ctx: &mut Ctx, party: usize, kind: Kind, seed: u64, hist: &[Vec<bool>]) -> bool {
        let Ok(mut cache) = kind.make(self.bits, seed) else { return false };
        let mut last = None;
        for p in hist {
            last = self.eval(ctx, party, p, &mut cache, kind.family()).map(|o| enc_out(&o));
        }
        let want = self.reference(ctx, party, hist.last().unwrap());
        last.is_some() && want.is_some() && last != want
    }

    /// Cache-transparency monitor: evaluate `hist` in order through one cache per party and compare
    /// each output with the NoCache reference.
    fn run_history(&mut self, ctx: &mut Ctx, kind: Kind, seed: u64, hist: &[Vec<bool>], site: &str) {
        for party in 0..2usize {
            let mut cache = match kind.make(self.bits, seed + party as u64) {
                Ok(c) => c,
                Err(pi) => {
                    ctx.violation(format!("cache-constructor|panic|{}|{}", kind.family(), pclass(&pi)), "cache constructor panicked",
                        json!({"kind": kind.describe(self.bits), "panic": pi.message, "at": pi.location}));
                    return;
                }
            };
            let mut max_walk = 0u64;
            for (i, p) in hist.iter().enumerate() {
                let Some(want) = self.reference(ctx, party, p) else { continue };
                let gets_before = cache.stats.borrow().gets;
                let Some(o) = self.eval(ctx, party, p, &mut cache, kind.family()) else { continue };
                max_walk = max_walk.max(cache.stats.borrow().gets - gets_before);
                let got = enc_out(&o);
                ctx.count("cached_evals_compared");
                if got != want {
                    // Shrink the history (greedy, keeps the failing evaluation last).
                    let mut h: Vec<Vec<bool>> = hist[..=i].to_vec();
                    let mut j = 0;
                    while j + 1 < h.len() && h.len() <= 400 {
                        let mut t = h.clone();
                        t.remove(j);
                        if self.replay_differs(ctx, party, kind, seed + party as u64, &t) {
                            h = t;
                        } else {
                            j += 1;
                        }
                    }
                    let minimal_reproduces = self.replay_differs(ctx, party, kind, seed + party as u64, &h);
                    let mut w = self.witness();
                    w["party"] = json!(party);
                    w["cache"] = json!(kind.describe(self.bits));
                    w["cache_seed"] = json!(seed + party as u64);
                    w["site"] = json!(site);
                    w["history_in_order_last_one_differs"] = json!(if minimal_reproduces { h.iter().map(|p| bits_str(p)).collect::<Vec<_>>() } else { hist[..=i].iter().map(|p| bits_str(p)).collect::<Vec<_>>() });
                    w["history_was_shrunk"] = json!(minimal_reproduces);
                    w["with_cache"] = json!(hex(&got));
                    w["with_NoCache"] = json!(hex(&want));
                    w["spy"] = json!(format!("{:?}", cache.stats.borrow()));
                    let level_kind = if p.len() == self.bits { "leaf" } else { "inner" };
                    ctx.violation(format!("cache|{}|{level_kind}|result-differs-from-NoCache", kind.family()),
                        "an evaluation through a cache returned a different output share than the same evaluation with NoCache", w);
                    break;
                }
            }
            ctx.max("max_gets_in_one_eval", max_walk);
            let s = cache.stats.borrow().clone();
            flush_stats(ctx, kind, &s);
        }
        ctx.set_insert("cache_kinds", kind.describe(if matches!(kind, Kind::RingBits) { self.bits } else { 0 }));
    }
}

// ---------------------------------------------------------------------------------------------
// Workloads
// ---------------------------------------------------------------------------------------------

fn all_prefixes_upto(bits: usize) -> Vec<Vec<bool>> {
    let mut out = vec![];
    for len in 1..=bits {
        for v in 0..(1u64 << len) {
            out.push((0..len).map(|i| v >> (len - 1 - i) & 1 == 1).collect());
        }
    }
    out
}

fn rand_input(rng: &mut Rng64, bits: usize) -> Vec<bool> {
    match rng.below(8) {
        0 => vec![false; bits],
        1 => vec![true; bits],
        2 => (0..bits).map(|i| i % 2 == 0).collect(),
        _ => (0..bits).map(|_| rng.bool()).collect(),
    }
}

/// A prefix of length `len` that follows `input` up to a random depth and is random afterwards.
fn near_path(rng: &mut Rng64, input: &[bool], len: usize) -> Vec<bool> {
    let d = rng.usize_below(len + 1);
    let mut p = input[..d].to_vec();
    while p.len() < len {
        p.push(rng.bool());
    }
    p
}

fn rand_len(rng: &mut Rng64, bits: usize) -> usize {
    match rng.below(8) {
        0 => 1,
        1 => bits,
        2 => bits.div_ceil(2),
        3 => bits.saturating_sub(1).max(1),
        _ => 1 + rng.usize_below(bits),
    }
}

/// Histories of evaluations sharing one cache.
fn gen_history(rng: &mut Rng64, bits: usize, input: &[bool], n: usize) -> (Vec<Vec<bool>>, &'static str) {
    let mut h: Vec<Vec<bool>> = vec![];
    let style = rng.below(6);
    let name = ["random-walk", "level-by-level", "ascending-path", "descending-path", "few-repeated", "deep-then-siblings"][style as usize];
    match style {
        0 => {
            while h.len() < n {
                let p = if h.is_empty() || rng.chance(1, 4) {
                    let l = rand_len(rng, bits);
                    near_path(rng, input, l)
                } else {
                    let mut b = rng.choose(&h).clone();
                    match rng.below(5) {
                        0 | 4 if b.len() < bits => {
                            let k = 1 + rng.usize_below((bits - b.len()).min(8));
                            for _ in 0..k {
                                let on = b[..] == input[..b.len()];
                                b.push(if on && rng.bool() { input[b.len()] } else { rng.bool() });
                            }
                        }
                        1 => {
                            let l = b.len();
                            b[l - 1] = !b[l - 1];
                        }
                        2 if b.len() > 1 => {
                            let l = 1 + rng.usize_below(b.len() - 1);
                            b.truncate(l);
                        }
                        _ => {}
                    }
                    b
                };
                h.push(p);
            }
        }
        1 => {
            // heavy-hitters style traversal: candidate sets of increasing length
            let stride = *rng.choose(&[1usize, 1, 1, 2, 5, 64]);
            let width = 1 + rng.usize_below(4);
            let mut frontier: Vec<Vec<bool>> = vec![vec![]];
            let mut len = 0;
            while h.len() < n && len + stride <= bits {
                len += stride;
                let mut children = vec![];
                for f in &frontier {
                    let on = f[..] == input[..f.len()];
                    let mut base = f.clone();
                    while base.len() < len - 1 {
                        base.push(if on { input[base.len()] } else { false });
                    }
                    for b in [false, true] {
                        let mut c = base.clone();
                        c.push(b);
                        children.push(c);
                    }
                }
                h.extend(children.iter().cloned());
                let mut next: Vec<Vec<bool>> = children.iter().filter(|c| c[..] == input[..c.len()]).cloned().collect();
                for c in &children {
                    if next.len() < width && !next.contains(c) && rng.bool() {
                        next.push(c.clone());
                    }
                }
                next.sort();
                frontier = next;
            }
            h.truncate(n.max(2));
        }
        2 | 3 => {
            let stride = *rng.choose(&[1usize, 1, 2, 3, 17]);
            let start = if bits > n * stride { rng.usize_below(bits - n * stride + 1) } else { 0 };
            let mut len = start;
            while h.len() < n && len + stride <= bits {
                len += stride;
                let mut p = input[..len].to_vec();
                h.push(p.clone());
                if rng.bool() {
                    p[len - 1] = !p[len - 1];
                    h.push(p);
                }
            }
            if style == 3 {
                h.reverse();
            }
        }
        4 => {
            let k = 1 + rng.usize_below(4);
            let set: Vec<Vec<bool>> = (0..k)
                .map(|_| {
                    let l = rand_len(rng, bits);
                    near_path(rng, input, l)
                })
                .collect();
            for _ in 0..n {
                h.push(rng.choose(&set).clone());
            }
        }
        _ => {
            // one deep evaluation fills the cache, then prefixes hanging off that path at all depths
            let l = rand_len(rng, bits).max(bits.min(2));
            let deep = near_path(rng, input, l);
            h.push(deep.clone());
            while h.len() < n {
                let d = 1 + rng.usize_below(deep.len());
                let mut p = deep[..d].to_vec();
                if rng.bool() {
                    p[d - 1] = !p[d - 1];
                }
                let extra = rng.usize_below((bits - d).min(4) + 1);
                for _ in 0..extra {
                    p.push(rng.bool());
                }
                h.push(p);
            }
        }
    }
    if h.is_empty() {
        h.push(input[..1].to_vec());
    }
    (h, name)
}

enum Plan {
    /// every prefix of every length (bits <= 6), both parties, + cache passes
    Exhaustive { input: Vec<bool>, case: u64, cache_passes: usize },
    /// bits = 3: every ordered triple of prefixes x every cache kind (work items owned by shard)
    Triples,
    /// sampled on/off-path prefixes and random histories
    Sampled { bits: usize, case: u64 },
}

fn run_plan<VI: TV, VL: TV>(ctx: &mut Ctx, cfg: &'static str, pi: VI::ValueParameter, pl: VL::ValueParameter, plan: &Plan)
where
    VI::ValueParameter: Clone,
    VL::ValueParameter: Clone,
{
    match plan {
        Plan::Exhaustive { input, case, cache_passes } => {
            let mut rng = Rng64::derive(ctx.seed, &["c06-exh", cfg], *case);
            let bits = input.len();
            let Some(mut inst) = Inst::<VI, VL>::gen(ctx, cfg, &pi, &pl, input.clone(), &mut rng) else { return };
            let prefixes = all_prefixes_upto(bits);
            for p in &prefixes {
                inst.check_sum(ctx, p);
            }
            ctx.count("exh_inputs_fully_enumerated");
            ctx.count_n("exh_prefixes_evaluated", prefixes.len() as u64);
            // The same prefixes through a shared cache, in a shuffled order with repeats.
            for pass in 0..*cache_passes {
                let kind = KINDS[((*case as usize) * 7 + pass * 5 + rng.usize_below(KINDS.len())) % KINDS.len()];
                let mut order = prefixes.clone();
                rng.shuffle(&mut order);
                let extra = order.len() / 4;
                for _ in 0..extra {
                    let p = rng.choose(&prefixes).clone();
                    order.push(p);
                }
                inst.run_history(ctx, kind, rng.u64() >> 1, &order, "exhaustive-shuffled");
                ctx.count("shuffled_full_histories");
            }
            ctx.nontrivial(digest(&[b"exh", cfg.as_bytes(), bits_str(input).as_bytes()]));
            ctx.set_insert("configs", cfg);
            ctx.sample(|| json!({"part": "exhaustive", "config": cfg, "bits": bits, "input": bits_str(input), "prefixes": prefixes.len(),
                                 "ctx_len": inst.vctx.len(), "nonce_len": inst.nonce.len()}));
        }
        Plan::Triples => {
            let mut rng = ctx.rng(&format!("c06-triples-{cfg}"));
            let bits = 3;
            let input = rand_input(&mut rng, bits);
            let Some(mut inst) = Inst::<VI, VL>::gen(ctx, cfg, &pi, &pl, input.clone(), &mut rng) else { return };
            let prefixes = all_prefixes_upto(bits);
            for p in &prefixes {
                inst.check_sum(ctx, p);
            }
            let n = prefixes.len() as u64; // 14
            let mut idx = 0u64;
            for t in 0..n * n * n {
                let tri = [&prefixes[(t / (n * n)) as usize], &prefixes[(t / n % n) as usize], &prefixes[(t % n) as usize]];
                for (k, kind) in KINDS.iter().enumerate() {
                    idx += 1;
                    if !ctx.mine(idx) {
                        continue;
                    }
                    let hist: Vec<Vec<bool>> = tri.iter().map(|p| (*p).clone()).collect();
                    inst.run_history(ctx, *kind, t * 31 + k as u64, &hist, "bits3-ordered-triples");
                    ctx.count("triple_histories");
                    ctx.nontrivial(digest(&[b"tri", cfg.as_bytes(), &t.to_le_bytes(), &[k as u8]]));
                }
            }
            ctx.set_insert("configs", cfg);
        }
        Plan::Sampled { bits, case } => {
            let bits = *bits;
            let mut rng = Rng64::derive(ctx.seed, &["c06-sampled", cfg], *case);
            let input = rand_input(&mut rng, bits);
            let Some(mut inst) = Inst::<VI, VL>::gen(ctx, cfg, &pi, &pl, input.clone(), &mut rng) else { return };
            // Depths to probe: all of them when affordable, else a sample including word/byte edges.
            let all_depths = bits <= 64 || (!ctx.quick() && bits <= 320);
            let depths: Vec<usize> = if all_depths {
                (0..bits).collect()
            } else {
                let mut d: Vec<usize> = vec![0, 1, 2, 6, 7, 8, 9, 15, 16, 62, 63, 64, 65, 126, 127, 128, 129, 255, 256, 319, bits / 2, bits - 3, bits - 2, bits - 1];
                for _ in 0..24 {
                    d.push(rng.usize_below(bits));
                }
                d.retain(|x| *x < bits);
                d.sort();
                d.dedup();
                d
            };
            for &d in &depths {
                // on-path prefix of length d + 1
                inst.check_sum(ctx, &input[..=d].to_vec());
                // off-path: diverges from the input exactly at depth d; random tail length
                let mut p = input[..d].to_vec();
                p.push(!input[d]);
                let room = bits - p.len();
                let tail = match rng.below(4) {
                    0 => 0,
                    1 => room,
                    2 => room.min(1),
                    _ => rng.usize_below(room + 1),
                };
                for _ in 0..tail {
                    p.push(rng.bool());
                }
                inst.check_sum(ctx, &p);
                ctx.count("offpath_divergence_depths_probed");
                if bits > 64 {
                    ctx.set_insert(&format!("divergence_depths_bits{bits}"), format!("{d:04}"));
                }
            }
            // always the full-length off-path sibling of the input and the full input
            let mut sib = input.clone();
            sib[bits - 1] = !sib[bits - 1];
            inst.check_sum(ctx, &sib);
            inst.check_sum(ctx, &input);
            ctx.max("max_bits", bits as u64);
            ctx.set_insert("bit_lengths", format!("{bits:05}"));

            // Random histories sharing one cache.
            let n_hist = if bits > 320 { 2 } else { 4 };
            for hno in 0..n_hist {
                let n = 5 + rng.usize_below(if bits > 320 { 60 } else { 196 });
                let (hist, style) = gen_history(&mut rng, bits, &input, n);
                let kind = KINDS[1 + (((*case as usize) + hno * 3 + rng.usize_below(KINDS.len() - 1)) % (KINDS.len() - 1))];
                inst.run_history(ctx, kind, rng.u64() >> 1, &hist, style);
                ctx.count("random_histories");
                ctx.count(&format!("history_style_{style}"));
                ctx.max("max_history_len", hist.len() as u64);
                ctx.nontrivial(digest(&[b"hist", cfg.as_bytes(), &case.to_le_bytes(), &[hno as u8]]));
                ctx.sample(|| json!({"part": "history", "config": cfg, "bits": bits, "style": style, "evals": hist.len(), "cache": kind.describe(bits),
                                     "first_prefixes": hist.iter().take(4).map(|p| if p.len() > 80 { format!("{}..({} bits)", bits_str(&p[..80]), p.len()) } else { bits_str(p) }).collect::<Vec<_>>()}));
            }
            ctx.nontrivial(digest(&[b"sampled", cfg.as_bytes(), &(bits as u64).to_le_bytes(), &case.to_le_bytes()]));
            ctx.set_insert("configs", cfg);
        }
    }
}

const N_CONFIGS: usize = 9;

fn dispatch(ctx: &mut Ctx, cfg: usize, plan: &Plan) {
    match cfg % N_CONFIGS {
        0 => run_plan::<Poplar1IdpfValue<Field64>, Poplar1IdpfValue<Field255>>(ctx, "poplar1(f64x2/f255x2)", (), (), plan),
        1 => run_plan::<Field64, Field255>(ctx, "f64/f255", (), (), plan),
        2 => run_plan::<Field128, Field128>(ctx, "f128/f128", (), (), plan),
        3 => run_plan::<Field255, Field64>(ctx, "f255/f64", (), (), plan),
        4 => run_plan::<FieldPrio2, FieldPrio2>(ctx, "f32/f32", (), (), plan),
        5 => run_plan::<VecVal<Field64>, VecVal<Field128>>(ctx, "vec(f64)x3/vec(f128)x2", 3, 2, plan),
        6 => run_plan::<VecVal<Field255>, VecVal<FieldPrio2>>(ctx, "vec(f255)x1/vec(f32)x5", 1, 5, plan),
        7 => run_plan::<Poplar1IdpfValue<Field255>, Poplar1IdpfValue<Field64>>(ctx, "poplar1-swapped(f255x2/f64x2)", (), (), plan),
        _ => run_plan::<VecVal<Field64>, VecVal<Field64>>(ctx, "vec(f64)x0/vec(f64)x4", 0, 4, plan),
    }
}

pub fn run(ctx: &mut Ctx) {
    shared_instance(ctx);
    // RingBufferCache::new(0): the constructor clamps the capacity to 1 (no documented panic);
    // it is part of KINDS and runs under the panic monitor.

    // Part 1: exhaustive over inputs x prefixes x parties for bits 1..=6, every configuration.
    let reps = ctx.budget(9, 300);
    let mut case = 0u64;
    for rep in 0..reps {
        for cfg in 0..N_CONFIGS {
            for bits in 1..=6usize {
                for v in 0..(1u64 << bits) {
                    case += 1;
                    if !ctx.mine(case + rep) {
                        continue;
                    }
                    let input: Vec<bool> = (0..bits).map(|i| v >> (bits - 1 - i) & 1 == 1).collect();
                    ctx.trace(|| format!("exhaustive cfg={cfg} input={} rep={rep}", bits_str(&input)));
                    dispatch(ctx, cfg, &Plan::Exhaustive { input, case, cache_passes: 2 });
                }
            }
        }
    }

    // Part 2: bits = 3, every ordered triple of prefixes x every cache kind, both parties.
    let triple_cfgs: &[usize] = if ctx.quick() { &[0, 5, 1, 8] } else { &[0, 1, 2, 3, 4, 5, 6, 7, 8] };
    for &cfg in triple_cfgs {
        ctx.trace(|| format!("triples cfg={cfg}"));
        dispatch(ctx, cfg, &Plan::Triples);
    }

    // Part 3: sampled longer inputs.
    let rounds = ctx.budget(9, 200);
    let mut scase = 0u64;
    for round in 0..rounds {
        let mut lens: Vec<usize> = (7..=16).collect();
        lens.extend([64, 64, 320, 2048]);
        for (j, bits) in lens.iter().enumerate() {
            scase += 1;
            // every shard runs every length, with a configuration that rotates over shards/rounds
            let cfg = (ctx.shard + j + round as usize * 5) % N_CONFIGS;
            let case = scase * 64 + ctx.shard as u64;
            ctx.trace(|| format!("sampled cfg={cfg} bits={bits} case={case}"));
            dispatch(ctx, cfg, &Plan::Sampled { bits: *bits, case });
        }
    }

    // Anti-vacuity per shard: the cache monitors must have seen hits and lost entries.
    let c = |ctx: &Ctx, k: &str| ctx.counters.get(k).copied().unwrap_or(0);
    if c(ctx, "cache_hits") == 0 {
        ctx.inconclusive("no cache hit observed in this shard");
    }
    if c(ctx, "cache_evictions_observed") == 0 {
        ctx.inconclusive("no cache eviction / lost entry observed in this shard");
    }
    if c(ctx, "offpath_zero_checks") == 0 || c(ctx, "onpath_value_checks") == 0 {
        ctx.inconclusive("reconstruction monitor saw no on-path or no off-path prefix");
    }
    ctx.exhaustive = Some(true);
}
