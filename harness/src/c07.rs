//! C07: wire encodings are canonical, round-trip, and report their exact length.
//!
//! For every registry entry (message type x decoding parameter, `codec_registry.rs`):
//!  * HONEST values (really produced by shard / verify_init / verify_next / aggregate / ping-pong):
//!    `encoded_len()` (when Some) == bytes produced by `encode`, `get_encoded()` == `encode`,
//!    `decode(encode(v)) == v` by the type's own PartialEq AND by re-encoding.
//!  * ARBITRARY byte strings (mutations of honest encodings, random strings of exactly the expected
//!    length, layout-conforming random strings): whenever the decoder ACCEPTS `b`, the accepted
//!    value must re-encode to exactly `b` (no value has two accepted encodings), advertise that
//!    length, and round-trip.
//!  * TARGETED non-canonical forms must be REJECTED: a field element equal to p, p+1, 2^k-1, the
//!    top bit of a Field255 element, non-zero padding control bits, non-zero trailing prefix bits,
//!    unsorted / duplicate prefixes, unknown tags, one trailing byte. Positive controls: p-1 and 0
//!    in the same position, a used control bit flipped, are accepted.
//!
//! A panic of a decoder on an arbitrary string is C08's subject and only counted here; a panic
//! while handling an HONEST value or an ACCEPTED value breaks the round-trip and is reported.

use crate::codec_registry::{self as cr, Entry, Exam, FieldKind, Observed, Seg};
use crate::common::*;
use serde_json::json;

fn witness(e: &dyn Entry, origin: &str, input: Option<&[u8]>, obs: Option<&Observed>, extra: serde_json::Value) -> serde_json::Value {
    json!({
        "entry": e.name(),
        "origin": origin,
        "input_hex": input.map(|b| hex_trunc(b, 4096)),
        "input_len": input.map(|b| b.len()),
        "reencoded_hex": obs.and_then(|o| o.enc.as_ref().ok()).map(|b| hex_trunc(b, 4096)),
        "reencoded_len": obs.and_then(|o| o.enc.as_ref().ok()).map(|b| b.len()),
        "encoded_len()": obs.map(|o| o.encoded_len),
        "detail": extra,
    })
}

/// Judge what was observed about a value. `input`: the byte string it was decoded from (None for
/// honest values).
fn judge(ctx: &mut Ctx, e: &dyn Entry, origin: &str, desc: &str, input: Option<&[u8]>, obs: &Observed) {
    let class = e.class().to_string();
    let arg = match (&obs.enc, input) {
        (Ok(b), _) => e.arg_class(b),
        (_, Some(b)) => e.arg_class(b),
        _ => "-".to_string(),
    };
    let kind = if input.is_some() { "accepted" } else { "honest" };
    for (k, p) in obs.panics.iter().enumerate() {
        // get_encoded() calls encoded_len(): one cause, one report
        if obs.panics[..k].iter().any(|q| q.info.location == p.info.location && q.info.message == p.info.message) {
            continue;
        }
        ctx.violation(
            format!("{}|{class}|{arg}|panic:{}", p.stage, p.info.class()),
            format!("{} panicked on an {kind} value", p.stage),
            witness(e, origin, input, Some(obs), json!({"value": desc, "panic": p.info.message, "at": p.info.location})),
        );
    }
    let enc = match &obs.enc {
        Ok(b) => b,
        Err(msg) => {
            if !obs.panics.iter().any(|p| p.stage == "encode") {
                ctx.violation(
                    format!("encode|{class}|{arg}|error"),
                    format!("an {kind} value cannot be encoded"),
                    witness(e, origin, input, Some(obs), json!({"value": desc, "error": msg})),
                );
            }
            return;
        }
    };
    if let Some(l) = obs.encoded_len {
        ctx.count("encoded_len_some_checked");
        if l != enc.len() {
            let d = l as i128 - enc.len() as i128;
            ctx.violation(
                format!("encoded_len|{class}|{arg}|advertised-actual={d:+}"),
                "encoded_len() differs from the number of bytes produced by encode()",
                witness(e, origin, input, Some(obs), json!({"value": desc, "advertised": l, "actual": enc.len()})),
            );
        }
    } else if !obs.panics.iter().any(|p| p.stage == "encoded_len") {
        ctx.count("encoded_len_none");
    }
    if !obs.get_encoded_same {
        ctx.violation(
            format!("get_encoded|{class}|{arg}|differs-from-encode"),
            "get_encoded() and encode() produce different bytes / results",
            witness(e, origin, input, Some(obs), json!({"value": desc})),
        );
    }
    if let Some(b) = input {
        if enc != b {
            let how = match enc.len().cmp(&b.len()) {
                std::cmp::Ordering::Less => "reencodes-shorter",
                std::cmp::Ordering::Greater => "reencodes-longer",
                std::cmp::Ordering::Equal => "reencodes-to-different-bytes",
            };
            ctx.violation(
                format!("second-encoding-accepted|{class}|{arg}|{how}"),
                "a byte string was accepted although it is not the encoding of the value it decodes to",
                witness(e, origin, input, Some(obs), json!({"first_difference_at": enc.iter().zip(b.iter()).position(|(x, y)| x != y)})),
            );
        }
    }
    match &obs.redecode {
        None => {}
        Some(Err(msg)) => ctx.violation(
            format!("roundtrip|{class}|{arg}|own-encoding-rejected"),
            format!("the encoding of an {kind} value is rejected by its decoder"),
            witness(e, origin, input, Some(obs), json!({"value": desc, "error": msg})),
        ),
        Some(Ok(rd)) => {
            match rd.eq {
                Some(true) => ctx.count("roundtrip_eq_by_partialeq"),
                Some(false) => ctx.violation(
                    format!("roundtrip|{class}|{arg}|decoded-not-equal"),
                    "decode(encode(v)) != v by the type's own PartialEq",
                    witness(e, origin, input, Some(obs), json!({"value": desc})),
                ),
                None => ctx.count("roundtrip_type_without_partialeq"),
            }
            if rd.same_bytes {
                ctx.count("roundtrip_eq_by_reencoding");
            } else {
                ctx.violation(
                    format!("roundtrip|{class}|{arg}|reencoding-differs"),
                    "encode(decode(encode(v))) != encode(v)",
                    witness(e, origin, input, Some(obs), json!({"value": desc})),
                );
            }
        }
    }
}

struct Stats {
    accepted: u64,
    rejected: u64,
}

/// Decode an arbitrary string; if accepted, judge the accepted value.
fn probe(ctx: &mut Ctx, e: &dyn Entry, origin: &str, b: &[u8], st: &mut Stats) -> Option<bool> {
    ctx.eval();
    match e.examine(b) {
        Err(_) => {
            // decoder panic on an arbitrary string: C08's subject
            ctx.count("decoder_panics_seen(judged by C08)");
            None
        }
        Ok(Exam::Rejected(kind)) => {
            st.rejected += 1;
            ctx.count(&format!("rejected_{kind}"));
            Some(false)
        }
        Ok(Exam::Accepted(obs)) => {
            st.accepted += 1;
            // distinct cases: at most 64 accepted strings per entry and shard are recorded
            if st.accepted <= 64 {
                ctx.nontrivial(digest(&[e.name().as_bytes(), b]));
            }
            judge(ctx, e, origin, "", Some(b), &obs);
            Some(true)
        }
    }
}

/// A form that must be rejected.
fn must_reject(ctx: &mut Ctx, e: &dyn Entry, form: &str, b: &[u8], pos: usize) {
    ctx.eval();
    match e.examine(b) {
        Err(_) => ctx.count("decoder_panics_seen(judged by C08)"),
        Ok(Exam::Rejected(kind)) => {
            ctx.count(&format!("targeted_rejected_{form}"));
            ctx.count("targeted_rejected");
            ctx.set_insert("targeted_rejection_kinds", format!("{form}:{kind}"));
            ctx.nontrivial(digest(&[e.name().as_bytes(), form.as_bytes(), &pos.to_le_bytes()]));
        }
        Ok(Exam::Accepted(obs)) => {
            ctx.violation(
                format!("noncanonical-accepted|{}|{form}", e.class()),
                format!("non-canonical form accepted: {form}"),
                witness(e, "targeted", Some(b), Some(&obs), json!({"form": form, "byte_offset": pos})),
            );
        }
    }
}

/// Positive control next to the targeted forms: expected to be accepted (and then judged like any
/// accepted string). A refused control says the workload is not what it was meant to be; the
/// property itself does not demand acceptance of these particular strings, so it is reported as
/// INCONCLUSIVE, never as a violation.
fn must_accept(ctx: &mut Ctx, e: &dyn Entry, form: &str, b: &[u8], st: &mut Stats) {
    match probe(ctx, e, form, b, st) {
        Some(true) => ctx.count("targeted_positive_controls_accepted"),
        Some(false) => {
            ctx.count("targeted_positive_controls_refused");
            let text = e.error_text(b);
            ctx.inconclusive(format!("positive control refused: {} {form}: {text}", e.class()));
        }
        None => {}
    }
}

fn all_ones(n: usize) -> Vec<u8> {
    vec![0xff; n]
}

fn targeted(ctx: &mut Ctx, e: &dyn Entry, h: &[u8], rng: &mut Rng64, st: &mut Stats) {
    // one trailing byte (every entry)
    for extra in [0u8, 0xff] {
        let mut b = h.to_vec();
        b.push(extra);
        must_reject(ctx, e, "trailing-byte", &b, h.len());
    }
    let Some(layout) = e.layout(h) else {
        ctx.count("honest_encodings_without_layout");
        return;
    };
    let offs = cr::seg_offsets(&layout);
    for (seg, &o) in layout.iter().zip(&offs) {
        match seg {
            Seg::Field(k, n) if *n > 0 => {
                let p = k.modulus_le();
                let mut idx = vec![0usize, n - 1, rng.usize_below(*n)];
                idx.sort();
                idx.dedup();
                for i in idx {
                    let at = o + i * k.size();
                    let put = |v: &[u8]| {
                        let mut b = h.to_vec();
                        b[at..at + k.size()].copy_from_slice(v);
                        b
                    };
                    must_reject(ctx, e, "field=p", &put(&p), at);
                    must_reject(ctx, e, "field=p+1", &put(&cr::le_add(&p, 1)), at);
                    must_reject(ctx, e, "field=2^k-1", &put(&all_ones(k.size())), at);
                    if *k == FieldKind::F255 {
                        // the honest element with its top bit set (>= 2^255 > p), and p-1 likewise
                        let mut b = h.to_vec();
                        b[at + 31] |= 0x80;
                        must_reject(ctx, e, "field255-top-bit", &b, at + 31);
                        let mut v = cr::le_sub1(&p);
                        v[31] |= 0x80;
                        must_reject(ctx, e, "field255-top-bit", &put(&v), at + 31);
                        let mut z = vec![0u8; 32];
                        z[31] = 0x80;
                        must_reject(ctx, e, "field255-top-bit", &put(&z), at + 31);
                    }
                    must_accept(ctx, e, "field=p-1", &put(&cr::le_sub1(&p)), st);
                    must_accept(ctx, e, "field=0", &put(&vec![0u8; k.size()]), st);
                }
            }
            Seg::Tag { max_valid } => {
                let mut vals = vec![0xffu8, 0x80, 0x7f];
                if *max_valid < 0xfe {
                    vals.push(max_valid + 1);
                }
                vals.push((*max_valid as u64 + 1 + rng.below(255 - *max_valid as u64)) as u8);
                for v in vals {
                    if v > *max_valid {
                        let mut b = h.to_vec();
                        b[o] = v;
                        must_reject(ctx, e, "unknown-tag", &b, o);
                    }
                }
            }
            Seg::ControlBits { bytes, used_bits } => {
                for bit in *used_bits..bytes * 8 {
                    let mut b = h.to_vec();
                    b[o + bit / 8] |= 1 << (bit % 8);
                    must_reject(ctx, e, "padding-control-bit", &b, o + bit / 8);
                }
                if *used_bits > 0 {
                    for bit in [0, used_bits - 1, rng.usize_below(*used_bits)] {
                        let mut b = h.to_vec();
                        b[o + bit / 8] ^= 1 << (bit % 8);
                        must_accept(ctx, e, "used-control-bit-flipped", &b, st);
                    }
                }
            }
            Seg::Prefixes { count, bytes_each, used_bits } => {
                let unused = bytes_each * 8 - used_bits;
                if *count > 0 && unused > 0 {
                    for which in [0, count - 1] {
                        for bit in 0..unused {
                            let mut b = h.to_vec();
                            // Msb0: unused bits are the low bits of the last byte
                            b[o + which * bytes_each + bytes_each - 1] |= 1 << bit;
                            must_reject(ctx, e, "trailing-prefix-bits", &b, o + which * bytes_each + bytes_each - 1);
                        }
                    }
                }
                if *count >= 2 {
                    let (a, c) = (o, o + bytes_each);
                    let mut b = h.to_vec();
                    let first = h[a..a + bytes_each].to_vec();
                    let second = h[c..c + bytes_each].to_vec();
                    b[a..a + bytes_each].copy_from_slice(&second);
                    b[c..c + bytes_each].copy_from_slice(&first);
                    must_reject(ctx, e, "unsorted-prefixes", &b, a);
                    let mut b = h.to_vec();
                    b[c..c + bytes_each].copy_from_slice(&first);
                    must_reject(ctx, e, "duplicate-prefixes", &b, c);
                    // last two as well
                    let l = o + (count - 1) * bytes_each;
                    let mut b = h.to_vec();
                    let last = h[l..l + bytes_each].to_vec();
                    b[l - bytes_each..l].copy_from_slice(&last);
                    must_reject(ctx, e, "duplicate-prefixes", &b, l);
                }
            }
            _ => {}
        }
    }
}

fn mutate(rng: &mut Rng64, pool: &[Vec<u8>]) -> (Vec<u8>, &'static str) {
    let h = rng.choose(pool);
    let mut b = h.clone();
    match rng.below(10) {
        0 | 1 | 2 if !b.is_empty() => {
            let i = rng.usize_below(b.len());
            b[i] ^= 1 << rng.below(8);
            (b, "bit-flip")
        }
        3 | 4 if !b.is_empty() => {
            let i = rng.usize_below(b.len());
            b[i] = match rng.below(4) {
                0 => 0,
                1 => 0xff,
                _ => rng.u64() as u8,
            };
            (b, "byte-set")
        }
        5 if !b.is_empty() => {
            // several bytes
            for _ in 0..1 + rng.below(4) {
                let i = rng.usize_below(b.len());
                b[i] = rng.u64() as u8;
            }
            (b, "multi-byte")
        }
        6 if !b.is_empty() => {
            let keep = rng.usize_below(b.len());
            b.truncate(keep);
            (b, "truncate")
        }
        7 => {
            let n = 1 + rng.usize_below(9);
            b.extend(rng.bytes(n));
            (b, "extend")
        }
        _ => {
            // splice two honest encodings
            let g = rng.choose(pool);
            let i = rng.usize_below(b.len() + 1);
            let j = if rng.bool() { i.min(g.len()) } else { rng.usize_below(g.len() + 1) };
            b.truncate(i);
            b.extend_from_slice(&g[j..]);
            (b, "splice")
        }
    }
}

pub fn run(ctx: &mut Ctx) {
    let reg = cr::build(ctx.seed);
    for p in &reg.problems {
        ctx.note(format!("registry: {p}"));
        ctx.inconclusive(format!("registry could not produce honest traffic: {p}"));
    }
    let n_entries = reg.entries.len() as u64;
    ctx.max("registry_entries", n_entries);
    // per entry and shard
    let honest_calls = ctx.budget(20, 300);
    let n_mut = ctx.budget(4_000, 120_000);
    let n_rand = ctx.budget(1_600, 40_000);
    for (i, e) in reg.entries.iter().enumerate() {
        let e: &dyn Entry = e.as_ref();
        let mut rng = Rng64::derive(ctx.seed, &["c07", e.name()], ctx.shard as u64 * 7919 + ctx.nshards as u64);
        let mut st = Stats { accepted: 0, rejected: 0 };
        ctx.trace(|| format!("entry {i} {}", e.name()));
        // --- honest values -----------------------------------------------------------------
        let mut pool: Vec<Vec<u8>> = vec![];
        let mut n_honest = 0u64;
        for _ in 0..honest_calls {
            for hc in e.honest(&mut rng) {
                ctx.eval();
                n_honest += 1;
                judge(ctx, e, "honest", &hc.desc, None, &hc.obs);
                if let Ok(b) = &hc.obs.enc {
                    if n_honest <= 64 {
                        ctx.nontrivial(digest(&[e.name().as_bytes(), b]));
                    }
                    ctx.max("max_honest_encoding_len", b.len() as u64);
                    if pool.len() < 24 && !pool.contains(b) {
                        pool.push(b.clone());
                    }
                }
            }
        }
        ctx.count_n("honest_values", n_honest);
        if n_honest == 0 || pool.is_empty() {
            ctx.inconclusive(format!("entry {} produced no honest value", e.name()));
            continue;
        }
        ctx.set_insert("classes_with_honest_values", e.class());
        if i < 400 && ctx.shard == i % ctx.nshards {
            let h = &pool[0];
            ctx.sample(|| json!({"entry": e.name(), "honest_encoding": hex_trunc(h, 96), "len": h.len(), "nominal_len": e.nominal_len()}));
        }
        // --- targeted non-canonical forms (deterministic part: spread over the shards) ---------
        if ctx.mine(i as u64) || e.tagged() || !ctx.quick() {
            let take = if ctx.quick() && !e.tagged() { 2 } else { 6 };
            // prefer structurally different honest encodings (different lengths first)
            let mut chosen: Vec<&Vec<u8>> = vec![];
            for h in &pool {
                if chosen.iter().all(|c| c.len() != h.len()) {
                    chosen.push(h);
                }
            }
            for h in &pool {
                if chosen.len() >= take {
                    break;
                }
                if !chosen.iter().any(|c| *c == h) {
                    chosen.push(h);
                }
            }
            for h in chosen.into_iter().take(take) {
                // huge encodings: the targeted forms copy the whole string per case
                if h.len() > 20_000 {
                    let mut b = h.clone();
                    b.push(0);
                    must_reject(ctx, e, "trailing-byte", &b, h.len());
                    continue;
                }
                targeted(ctx, e, h, &mut rng, &mut st);
            }
        }
        // --- mutations of honest encodings ---------------------------------------------------
        let scale = if e.nominal_len() > 4000 { 8 } else { 1 };
        for _ in 0..n_mut / scale {
            let (b, how) = mutate(&mut rng, &pool);
            if probe(ctx, e, how, &b, &mut st) == Some(true) {
                ctx.count(&format!("accepted_after_{how}"));
            }
        }
        // --- random strings of exactly the expected length ----------------------------------------
        for k in 0..n_rand / scale {
            let h = rng.choose(&pool);
            let b = match (k % 2, e.layout(h)) {
                (0, Some(l)) => cr::random_conforming(&mut rng, h, &l),
                _ => rng.bytes(h.len()),
            };
            if probe(ctx, e, "random-exact-length", &b, &mut st) == Some(true) {
                ctx.count("accepted_random_exact_length");
            }
        }
        ctx.count_n("accepted_arbitrary", st.accepted);
        ctx.count_n("rejected_arbitrary", st.rejected);
        if st.accepted > 0 {
            ctx.set_insert("classes_with_accepted_arbitrary_strings", e.class());
        }
    }
    // Over-long vectors: the u8/u16-prefixed helpers must refuse to encode what their length
    // prefix cannot express (otherwise the advertised structure and the bytes disagree).
    if ctx.shard == 0 {
        use prio::codec::Encode;
        let too_long_u8 = cr::ItemsU8(vec![7u8; 256]);
        let too_long_u16 = cr::ItemsU16(vec![7u8; 65536]);
        for (name, r) in [
            ("u8_items", catch(|| too_long_u8.get_encoded().map(|b| b.len()).map_err(|e| e.to_string()))),
            ("u16_items", catch(|| too_long_u16.get_encoded().map(|b| b.len()).map_err(|e| e.to_string()))),
        ] {
            ctx.eval();
            match r {
                Ok(Err(_)) => ctx.count("overlong_vector_encode_refused"),
                Ok(Ok(n)) => ctx.violation(
                    format!("encode|{name}|overlong|accepted"),
                    "a vector longer than its length prefix can express was encoded",
                    json!({"helper": name, "encoded_len": n}),
                ),
                // not a C07 matter (the property speaks about what IS produced)
                Err(_) => ctx.count("overlong_vector_encode_panicked(not judged)"),
            }
        }
    }
}
