//! C08: decoders are total — arbitrary bytes give a value or an error, never a crash.
//!
//! Monitored operation: one `get_decoded[_with_param]` call of a registry entry
//! (`codec_registry.rs`) on one byte string. Monitors around every call:
//!  * panic monitor (overflow checks are ON, so an arithmetic wrap is a panic);
//!  * allocation monitor: peak extra live bytes during the call must stay within
//!    `256 * max(len(input), nominal_len(param)) + 64 KiB`;
//!  * time: a single decode above 30 s is reported (normal: < 1 ms); an abort (allocation failure,
//!    stack overflow) or a hang kills the shard and is pinpointed by the orchestrator's --trace
//!    re-run from the TRACE line printed BEFORE each decode.
//!
//! Workload per entry: EXHAUSTIVE byte strings of length <= 2 (<= 3 for entries with tags / length
//! prefixes); every header field (tag, length prefix, count, level) at {0, 1, max-1, max} and at the
//! values around the real body length, combined with empty / short / exact / long bodies; every
//! truncation and single-byte mutations at every offset of honest encodings; random and
//! layout-conforming random strings.

use crate::codec_registry::{self as cr, Entry, Seg};
use crate::common::*;
use serde_json::json;
use std::time::Instant;

struct Mon {
    decodes: u64,
    ok: u64,
    max_ratio_x100: u64,
    max_peak: u64,
    max_ns: u64,
}

const SLOW_NS: u128 = 30_000_000_000;

/// Also probe the publicly constructible but degenerate decoding parameter `bits = 0`
/// (`Poplar1::new(0)`, `IdpfPublicShare` with `bits = 0`). The property quantifies over "every
/// decoding parameter"; DESIGN.md restricts the registry to instances a server would hold, so these
/// probes are kept apart and report under the argument class `bits=0` (see NOTES.md section 4b).
const PROBE_DEGENERATE_PARAMS: bool = true;

#[inline]
fn bound(input_len: usize, nominal: usize) -> usize {
    256 * input_len.max(nominal) + 65536
}

/// One monitored decode. `timed`: take wall time of this single call.
#[inline]
fn decode_one(ctx: &mut Ctx, e: &dyn Entry, workload: &'static str, b: &[u8], m: &mut Mon, timed: bool) {
    m.decodes += 1;
    let t0 = if timed { Some(Instant::now()) } else { None };
    let (r, st) = alloc_scope(|| catch(|| e.decode_only(b)));
    let class_ok = match r {
        Ok(Ok(())) => {
            m.ok += 1;
            "ok"
        }
        Ok(Err(kind)) => kind,
        Err(pi) => {
            let arg = e.arg_class(b);
            ctx.violation(
                format!("decode|{}|{arg}|panic:{}", e.class(), pi.class()),
                "decoder panicked on a byte string",
                json!({"entry": e.name(), "workload": workload, "input_hex": hex_trunc(b, 4096), "input_len": b.len(),
                       "panic": pi.message, "at": pi.location}),
            );
            ctx.count("panics_caught");
            return;
        }
    };
    let lim = bound(b.len(), e.nominal_len());
    if st.peak_extra > lim {
        let arg = e.arg_class(b);
        ctx.violation(
            format!("alloc|{}|{arg}|peak>256*max(len,nominal)+64KiB", e.class()),
            "decoder allocated memory out of proportion to the input",
            json!({"entry": e.name(), "workload": workload, "input_hex": hex_trunc(b, 4096), "input_len": b.len(),
                   "nominal_len": e.nominal_len(), "peak_extra_bytes": st.peak_extra, "largest_request": st.largest_request,
                   "bound": lim, "outcome": class_ok}),
        );
    }
    let denom = b.len().max(e.nominal_len()).max(1);
    m.max_ratio_x100 = m.max_ratio_x100.max((st.peak_extra as u128 * 100 / denom as u128) as u64);
    m.max_peak = m.max_peak.max(st.peak_extra as u64);
    if let Some(t0) = t0 {
        let ns = t0.elapsed().as_nanos();
        m.max_ns = m.max_ns.max(ns as u64);
        if ns > SLOW_NS && b.len() < 65536 {
            ctx.violation(
                format!("slow|{}|{}|single-decode>30s", e.class(), e.arg_class(b)),
                "a single decode of a < 64 KiB input took more than 30 s",
                json!({"entry": e.name(), "workload": workload, "input_hex": hex_trunc(b, 4096), "seconds": ns as f64 / 1e9}),
            );
        }
    }
    ctx_outcome(ctx, e, workload, class_ok);
}

thread_local! {
    static SEEN: std::cell::RefCell<std::collections::HashSet<(usize, &'static str, &'static str)>> = std::cell::RefCell::new(Default::default());
}

/// Outcome classes per decoder (ok / each error kind), recorded once per (entry, workload, outcome).
#[inline]
fn ctx_outcome(ctx: &mut Ctx, e: &dyn Entry, workload: &'static str, outcome: &'static str) {
    let k = (e as *const dyn Entry as *const u8 as usize, workload, outcome);
    let new = SEEN.with(|s| s.borrow_mut().insert(k));
    if new {
        ctx.set_insert("outcome_classes", format!("{}:{}", e.class(), outcome));
        ctx.nontrivial(digest(&[e.name().as_bytes(), workload.as_bytes(), outcome.as_bytes()]));
    }
}

/// TRACE line printed BEFORE a decode: a stable head (class, argument class, workload) that can key
/// a known finding, then the concrete input and the entry.
fn trace_line(e: &dyn Entry, workload: &str, b: &[u8], shown: &str) -> String {
    format!("decode|{}|{}|{workload} input={shown} entry={}", e.class(), e.arg_class(b), e.name())
}

fn traced(ctx: &mut Ctx, e: &dyn Entry, workload: &'static str, b: &[u8], m: &mut Mon) {
    // (the orchestrator keeps the last 4000 characters of stderr: keep the line below that)
    ctx.trace(|| trace_line(e, workload, b, &hex_trunc(b, 1500)));
    decode_one(ctx, e, workload, b, m, true);
}

/// Exhaustive strings of length <= 2 (this shard's part: all of them for entries it owns).
fn exhaustive_short(ctx: &mut Ctx, e: &dyn Entry, m: &mut Mon) {
    let t0 = Instant::now();
    let n0 = m.decodes;
    ctx.trace(|| trace_line(e, "exhaustive", &[], ""));
    decode_one(ctx, e, "exhaustive", &[], m, false);
    for a in 0..=255u8 {
        ctx.trace(|| trace_line(e, "exhaustive", &[a], &hex(&[a])));
        decode_one(ctx, e, "exhaustive", &[a], m, false);
    }
    for a in 0..=255u8 {
        for b in 0..=255u8 {
            ctx.trace(|| trace_line(e, "exhaustive", &[a, b], &hex(&[a, b])));
            decode_one(ctx, e, "exhaustive", &[a, b], m, false);
        }
    }
    let per = t0.elapsed().as_nanos() as u64 / (m.decodes - n0).max(1);
    ctx.max("exhaustive_avg_ns_per_decode_max", per);
    ctx.count("entries_exhaustive_len_le_2");
}

/// All 3-byte strings starting with `first` (traced per 256-block: see NOTES.md).
fn exhaustive_three(ctx: &mut Ctx, e: &dyn Entry, first: u8, m: &mut Mon) {
    for b in 0..=255u8 {
        ctx.trace(|| trace_line(e, "exhaustive3", &[first, b], &format!("{:02x}{:02x}??", first, b)));
        for c in 0..=255u8 {
            decode_one(ctx, e, "exhaustive3", &[first, b, c], m, false);
        }
    }
}

fn be(v: u64, w: usize) -> Vec<u8> {
    v.to_be_bytes()[8 - w..].to_vec()
}

/// Header fields at extreme values x bodies empty / short / exact / long.
fn header_extremes(ctx: &mut Ctx, e: &dyn Entry, h: &[u8], rng: &mut Rng64, m: &mut Mon) {
    let Some(layout) = e.layout(h) else { return };
    let offs = cr::seg_offsets(&layout);
    let headers: Vec<(usize, usize)> = layout.iter().zip(&offs).filter(|(s, _)| s.is_header()).map(|(s, o)| (*o, s.len())).collect();
    if headers.is_empty() {
        return;
    }
    ctx.count("honest_templates_with_header_fields");
    let (last_off, last_w) = *headers.last().unwrap();
    let body_start = last_off + last_w;
    let body = &h[body_start..];
    // value sets per header
    let sets: Vec<Vec<u64>> = headers
        .iter()
        .map(|&(o, w)| {
            let max = if w == 8 { u64::MAX } else { (1u64 << (8 * w)) - 1 };
            let honest = h[o..o + w].iter().fold(0u64, |a, b| a << 8 | *b as u64);
            let rest = (h.len() - o - w) as u64;
            let mut v = vec![0, 1, max - 1, max, honest, honest.wrapping_add(1) & max, honest.wrapping_sub(1) & max, rest & max, (rest + 1) & max, max / 2, max / 2 + 1];
            if w >= 2 {
                v.push(0xff);
                v.push(0x100);
            }
            v.sort();
            v.dedup();
            v
        })
        .collect();
    let mut bodies: Vec<(Vec<u8>, &'static str)> = vec![
        (vec![], "empty"),
        (body[..body.len() / 2].to_vec(), "short"),
        (body.to_vec(), "exact"),
        ({
            let mut b = body.to_vec();
            b.extend(rng.bytes(17));
            b
        }, "long"),
        (vec![0u8; 1], "one-zero"),
    ];
    if body.len() > 1 {
        bodies.push((body[..body.len() - 1].to_vec(), "exact-1"));
    }
    bodies.push((rng.bytes(8192 + 6), "8k-random"));
    // all combinations for up to 3 header fields; beyond that vary one at a time
    let mut combos: Vec<Vec<u64>> = vec![vec![]];
    if headers.len() <= 3 {
        for s in &sets {
            let mut next = vec![];
            for c in &combos {
                for v in s {
                    let mut c2 = c.clone();
                    c2.push(*v);
                    next.push(c2);
                }
            }
            combos = next;
        }
    } else {
        let honest: Vec<u64> = headers.iter().map(|&(o, w)| h[o..o + w].iter().fold(0u64, |a, b| a << 8 | *b as u64)).collect();
        combos.clear();
        for (i, s) in sets.iter().enumerate() {
            for v in s {
                let mut c = honest.clone();
                c[i] = *v;
                combos.push(c);
            }
        }
    }
    for c in &combos {
        let mut prefix = h[..body_start].to_vec();
        for (&(o, w), v) in headers.iter().zip(c) {
            prefix[o..o + w].copy_from_slice(&be(*v, w));
        }
        for (body, _bname) in &bodies {
            let mut b = prefix.clone();
            b.extend_from_slice(body);
            traced(ctx, e, "header-extremes", &b, m);
            ctx.count("header_extreme_cases");
        }
        // header fields alone, cut right after each header
        for &(o, w) in &headers {
            traced(ctx, e, "header-extremes", &prefix[..o + w], m);
        }
    }
}

/// Offsets to visit in a string of length n: all of them up to `cap`, else a spread that always
/// contains the first and last 64.
fn offsets(n: usize, cap: usize, rng: &mut Rng64) -> Vec<usize> {
    if n <= cap {
        return (0..n).collect();
    }
    let mut v: Vec<usize> = (0..64).chain(n - 64..n).collect();
    while v.len() < cap {
        v.push(rng.usize_below(n));
    }
    v.sort();
    v.dedup();
    v
}

fn honest_mutations(ctx: &mut Ctx, e: &dyn Entry, h: &[u8], rng: &mut Rng64, m: &mut Mon, cap: usize) {
    // positive control: the honest encoding itself decodes
    let before = m.ok;
    traced(ctx, e, "honest", h, m);
    if m.ok == before {
        ctx.count("honest_encoding_not_accepted(judged by C07)");
    } else {
        ctx.count("honest_encodings_accepted(positive control)");
    }
    // truncations at every offset (and the empty string)
    for i in offsets(h.len(), cap, rng) {
        traced(ctx, e, "truncate", &h[..i], m);
        ctx.count("truncation_cases");
    }
    // single-byte mutations at every offset
    let mut b = h.to_vec();
    for i in offsets(h.len(), cap, rng) {
        let orig = b[i];
        let vals: Vec<u8> = if i < 8 {
            (0..=255u8).collect()
        } else {
            vec![orig ^ 1, orig ^ 0x80, 0, 0xff, 0x7f, 0x80, rng.u64() as u8]
        };
        for v in vals {
            if v == orig {
                continue;
            }
            b[i] = v;
            traced(ctx, e, "byte-mutation", &b, m);
            ctx.count("byte_mutation_cases");
        }
        b[i] = orig;
    }
    // extensions
    for n in [1usize, 2, 7, 64] {
        let mut x = h.to_vec();
        x.extend(rng.bytes(n));
        traced(ctx, e, "extend", &x, m);
    }
}

pub fn run(ctx: &mut Ctx) {
    let reg = cr::build(ctx.seed);
    for p in &reg.problems {
        ctx.note(format!("registry: {p}"));
        ctx.inconclusive(format!("registry could not produce honest traffic: {p}"));
    }
    ctx.max("registry_entries", reg.entries.len() as u64);
    let honest_per_entry = ctx.budget(1, 100) as usize;
    let n_rand = ctx.budget(150, 100_000);
    let cap = if ctx.quick() { 192 } else { 1024 };
    let mut m = Mon { decodes: 0, ok: 0, max_ratio_x100: 0, max_peak: 0, max_ns: 0 };
    let ns = ctx.nshards as u64;
    for (i, e) in reg.entries.iter().enumerate() {
        let e: &dyn Entry = e.as_ref();
        let mut rng = Rng64::derive(ctx.seed, &["c08", e.name()], ctx.shard as u64 * 7919 + ns);
        let d0 = m.decodes;
        let ok0 = m.ok;
        // --- exhaustive short strings (deterministic; partitioned over the shards) --------------
        if ctx.mine(i as u64) {
            exhaustive_short(ctx, e, &mut m);
        }
        // 3-byte strings: entries with tags / length prefixes (quick), every entry (thorough)
        if e.tagged() || !ctx.quick() {
            for first in 0..=255u64 {
                if ctx.mine(i as u64 + first) {
                    exhaustive_three(ctx, e, first as u8, &mut m);
                }
            }
            if ctx.shard == 0 {
                ctx.count("entries_exhaustive_len_3");
            }
        }
        // --- honest encodings: templates for the structured workloads ----------------------------
        let mut pool: Vec<Vec<u8>> = vec![];
        for _ in 0..(honest_per_entry + 1) {
            for hc in e.honest(&mut rng) {
                if let Ok(b) = hc.obs.enc {
                    if !pool.contains(&b) {
                        pool.push(b);
                    }
                }
            }
        }
        if pool.is_empty() {
            ctx.inconclusive(format!("entry {} produced no honest encoding", e.name()));
            continue;
        }
        ctx.count_n("honest_templates", pool.len() as u64);
        // header extremes: one template per distinct header structure, on the owning shard
        // (thorough: on every shard, with that shard's own honest templates)
        if ctx.mine(i as u64 + 5) || !ctx.quick() {
            let mut seen_shapes: Vec<Vec<(usize, usize)>> = vec![];
            for h in &pool {
                if let Some(l) = e.layout(h) {
                    let offs = cr::seg_offsets(&l);
                    let shape: Vec<(usize, usize)> =
                        l.iter().zip(&offs).filter(|(s, _)| s.is_header()).map(|(s, o)| (*o, if let Seg::Tag { .. } = s { h[*o] as usize } else { s.len() })).collect();
                    if !shape.is_empty() && !seen_shapes.contains(&shape) && seen_shapes.len() < 6 {
                        seen_shapes.push(shape);
                        header_extremes(ctx, e, h, &mut rng, &mut m);
                    }
                }
            }
        }
        // truncations / single-byte mutations of honest encodings
        let mut order: Vec<usize> = (0..pool.len()).collect();
        rng.shuffle(&mut order);
        // distinct lengths first (different variants)
        order.sort_by_key(|&k| pool[..k].iter().any(|p| p.len() == pool[k].len()));
        for &k in order.iter().take(honest_per_entry) {
            let c = if pool[k].len() > 4000 { cap / 4 } else { cap };
            honest_mutations(ctx, e, &pool[k], &mut rng, &mut m, c);
        }
        // random strings: arbitrary lengths around the nominal length, exact length, conforming
        let nominal = e.nominal_len();
        let scale = if nominal > 4000 { 8 } else { 1 };
        for k in 0..n_rand / scale {
            let b = match k % 4 {
                0 => {
                    let n = rng.usize_below(nominal + 9);
                    rng.bytes(n)
                }
                1 => {
                    let n = rng.choose(&pool).len();
                    rng.bytes(n)
                }
                2 => {
                    let h = rng.choose(&pool);
                    match e.layout(h) {
                        Some(l) => cr::random_conforming(&mut rng, h, &l),
                        None => rng.bytes(h.len()),
                    }
                }
                _ => {
                    // honest prefix + random tail / random prefix + honest tail
                    let h = rng.choose(&pool);
                    let mut b = h.clone();
                    if !b.is_empty() {
                        let cut = rng.usize_below(b.len());
                        if rng.bool() {
                            rng.fill(&mut b[cut..]);
                        } else {
                            rng.fill(&mut b[..cut]);
                        }
                    }
                    b
                }
            };
            traced(ctx, e, "random", &b, &mut m);
        }
        let n = m.decodes - d0;
        if m.ok > ok0 {
            ctx.set_insert("classes_with_accepted_inputs", e.class());
        }
        if i % ctx.nshards == ctx.shard {
            let h = &pool[0];
            ctx.sample(|| json!({"entry": e.name(), "nominal_len": nominal, "decodes_in_this_shard": n, "honest_template": hex_trunc(h, 64)}));
        }
    }
    // --- degenerate decoding parameter bits = 0 (publicly constructible; reported under the
    // argument class `bits=0`, apart from the registry; see NOTES.md) ------------------------------
    if PROBE_DEGENERATE_PARAMS && ctx.shard == 0 {
        let mut rng = ctx.rng("c08-bits0");
        for e in cr::degenerate_entries().iter() {
            let e: &dyn Entry = e.as_ref();
            let d0 = m.decodes;
            exhaustive_short(ctx, e, &mut m);
            for n in [3usize, 16, 32, 33, 64, 65, 96, 112, 128, 160, 4096] {
                traced(ctx, e, "degenerate-param", &vec![0u8; n], &mut m);
                traced(ctx, e, "degenerate-param", &rng.bytes(n), &mut m);
            }
            ctx.count_n("degenerate_param_decodes", m.decodes - d0);
        }
    }
    // --- zero-size items in the vector helpers: decoding must terminate (a non-empty vector of
    // items that consume no input cannot exist). Run in a helper thread with a generous timeout so
    // that a regression shows up as a recorded violation rather than as a hung shard.
    if ctx.shard == 1 % ctx.nshards {
        use prio::codec::{decode_fixlen_items, decode_u16_items, decode_u32_items, decode_u8_items};
        use std::io::Cursor;
        let cases: Vec<(&str, Vec<u8>)> = vec![
            ("decode_u8_items<()>", vec![3, 1, 2, 3]),
            ("decode_u8_items<()>", vec![0]),
            ("decode_u16_items<()>", vec![0, 2, 9, 9]),
            ("decode_u32_items<()>", vec![0, 0, 0, 1, 7]),
            ("decode_fixlen_items<()>", vec![1, 2, 3, 4]),
        ];
        // The same for item types that are NOT zero-sized in memory but whose encoding is empty under
        // some decoding parameters: Prio3 public shares / verifier messages of a type without joint
        // randomness, Poplar1's round-two verifier message.
        {
            use prio::vdaf::poplar1::{Poplar1, Poplar1AggregationParam, Poplar1VerifierMessage};
            use prio::vdaf::prio3::{Prio3, Prio3PublicShare, Prio3VerifierMessage};
            use prio::vdaf::{Aggregator, Client, VerifyTransition};
            type Job = Box<dyn FnOnce() -> Result<usize, String> + Send>;
            let mut jobs: Vec<(String, Vec<u8>, Job)> = vec![];
            let inputs: Vec<Vec<u8>> = vec![vec![1, 0], vec![3, 1, 2, 3], vec![255], vec![0, 2, 9, 9], vec![0, 0, 0, 1, 7], vec![0, 0, 1, 0, 7, 7, 7]];
            let count = Prio3::new_count(2).unwrap();
            let (cps, cshares) = count.shard(b"c08", &true, &[7u8; 16]).unwrap();
            let (cstate, _) = count.verify_init(&[3u8; 32], b"c08", 0, &(), &[7u8; 16], &cps, &cshares[0]).unwrap();
            let pop = Poplar1::new_turboshake128(4);
            let pin = prio::idpf::IdpfInput::from_bools(&[true, false, true, true]);
            let (pps, pshares) = pop.shard(b"c08", &pin, &[9u8; 16]).unwrap();
            let pparam = Poplar1AggregationParam::try_from_prefixes(vec![prio::idpf::IdpfInput::from_bools(&[true, false])]).unwrap();
            let mut pst = vec![];
            let mut psh = vec![];
            for j in 0..2 {
                let (st, sh) = pop.verify_init(&[5u8; 32], b"c08", j, &pparam, &[9u8; 16], &pps, &pshares[j]).unwrap();
                pst.push(st);
                psh.push(sh);
            }
            let pmsg = pop.verifier_shares_to_message(b"c08", &pparam, psh).unwrap();
            let round_two_state = match pop.verify_next(b"c08", pst.remove(0), pmsg).unwrap() {
                VerifyTransition::Continue(st, _) => Some(st),
                _ => None,
            };
            for b in &inputs {
                let (c1, c2, c3) = (count.clone(), cstate.clone(), round_two_state.clone());
                let (b1, b2, b3, b4) = (b.clone(), b.clone(), b.clone(), b.clone());
                let c4 = count.clone();
                jobs.push(("decode_u8_items<Prio3PublicShare(no joint rand)>".into(), b.clone(), Box::new(move || decode_u8_items::<_, Prio3PublicShare<32>>(&c1, &mut Cursor::new(&b1[..])).map(|v| v.len()).map_err(|e| e.to_string()))));
                jobs.push(("decode_u16_items<Prio3VerifierMessage(no joint rand)>".into(), b.clone(), Box::new(move || decode_u16_items::<_, Prio3VerifierMessage<32>>(&c2, &mut Cursor::new(&b2[..])).map(|v| v.len()).map_err(|e| e.to_string()))));
                jobs.push(("decode_u32_items<Prio3PublicShare(no joint rand)>".into(), b.clone(), Box::new(move || decode_u32_items::<_, Prio3PublicShare<32>>(&c4, &mut Cursor::new(&b4[..])).map(|v| v.len()).map_err(|e| e.to_string()))));
                if let Some(st) = c3 {
                    jobs.push(("decode_u8_items<Poplar1VerifierMessage(round two)>".into(), b.clone(), Box::new(move || decode_u8_items::<_, Poplar1VerifierMessage>(&st, &mut Cursor::new(&b3[..])).map(|v| v.len()).map_err(|e| e.to_string()))));
                }
            }
            for (name, bytes, job) in jobs {
                ctx.trace(|| format!("decode|{name}|empty-encoding-items input={}", hex(&bytes)));
                let (tx, rx) = std::sync::mpsc::channel();
                std::thread::spawn(move || {
                    let _ = tx.send(job());
                });
                ctx.eval();
                match rx.recv_timeout(std::time::Duration::from_secs(20)) {
                    Ok(_) => ctx.count("empty_encoding_item_decodes_terminated"),
                    Err(_) => ctx.violation(format!("hang|decode|{name}|empty-encoding-items"), "decoding a vector of items whose encoding is empty did not terminate within 20 s (input of at most 7 bytes)",
                        json!({"decoder": name, "input": hex(&bytes)})),
                }
            }
        }
        for (name, bytes) in cases {
            ctx.trace(|| format!("decode|{name}|nonzero-length input={}", hex(&bytes)));
            let (tx, rx) = std::sync::mpsc::channel();
            let b = bytes.clone();
            let which = name.to_string();
            std::thread::spawn(move || {
                let mut c = Cursor::new(&b[..]);
                let r: Result<usize, String> = match which.as_str() {
                    "decode_u8_items<()>" => decode_u8_items::<(), ()>(&(), &mut c).map(|v| v.len()).map_err(|e| e.to_string()),
                    "decode_u16_items<()>" => decode_u16_items::<(), ()>(&(), &mut c).map(|v| v.len()).map_err(|e| e.to_string()),
                    "decode_u32_items<()>" => decode_u32_items::<(), ()>(&(), &mut c).map(|v| v.len()).map_err(|e| e.to_string()),
                    _ => decode_fixlen_items::<(), ()>(b.len(), &(), &mut c).map(|v| v.len()).map_err(|e| e.to_string()),
                };
                let _ = tx.send(r);
            });
            ctx.eval();
            match rx.recv_timeout(std::time::Duration::from_secs(20)) {
                Ok(_) => ctx.count("zero_size_item_decodes_terminated"),
                Err(_) => ctx.violation(format!("hang|decode|{name}|nonzero-length"), "decoding a vector of zero-size items did not terminate within 20 s (7-byte input)",
                    json!({"decoder": name, "input": hex(&bytes)})),
            }
        }
    }
    ctx.evals(m.decodes);
    ctx.count_n("decodes", m.decodes);
    ctx.count_n("decodes_accepted", m.ok);
    ctx.max("max_alloc_ratio_x100", m.max_ratio_x100);
    ctx.max("max_peak_extra_bytes", m.max_peak);
    ctx.max("max_single_decode_ns", m.max_ns);
}
