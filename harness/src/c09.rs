//! C09: field elements behave exactly as integers modulo the field prime.
//!
//! Part A: the *same generic Montgomery code* (`FieldOps`, single-word and split-word `mul`)
//! instantiated through hook H1 at 8/16-bit words, compared EXHAUSTIVELY (all operand pairs)
//! against integer arithmetic; 32/64-bit scaled instantiations on lattices + random pairs against
//! u128 arithmetic.
//! Part B: the deployed fields through their public operator impls against `BigUint`.

use crate::common::*;
use num_bigint::BigUint;
use num_traits::{AsPrimitive, One, Zero};
use prio::codec::{Decode, Encode};
use prio::field::{
    Field128, Field255, Field64, FieldElement, FieldElementWithInteger, FieldPrio2,
    NttFriendlyFieldElement,
};
use prio::verif_hooks::fp::{
    FieldOps, FieldWord, Fp16, Fp16Split, Fp32, Fp32Split, Fp64Split, Fp8,
};
use serde_json::json;
use std::collections::hash_map::DefaultHasher;
use std::hash::{Hash, Hasher};
use subtle::{Choice, ConditionallyNegatable, ConditionallySelectable, ConstantTimeEq};

fn is_prime(n: u128) -> bool {
    if n < 2 {
        return false;
    }
    let mut d = 2u128;
    while d * d <= n && d < (1 << 33) {
        if n % d == 0 {
            return false;
        }
        d += if d == 2 { 1 } else { 2 };
    }
    true
}

fn mulmod(a: u128, b: u128, p: u128) -> u128 {
    // p < 2^64 here
    (a * b) % p
}

fn powmod(mut b: u128, mut e: u128, p: u128) -> u128 {
    let mut r = 1 % p;
    b %= p;
    while e > 0 {
        if e & 1 == 1 {
            r = mulmod(r, b, p);
        }
        b = mulmod(b, b, p);
        e >>= 1;
    }
    r
}

/// Precondition of the split-word REDC (see DESIGN.md C09): the first reduction round's sum
/// z + p*w < p^2 + p*2^(W/2) must fit in 2W bits.
fn split_ok(p: u128, wbits: u32) -> bool {
    if wbits >= 64 {
        // p(p + 2^(W/2)) <= 2^(2W) checked in BigUint
        let pb = BigUint::from(p);
        let lhs = &pb * (&pb + (BigUint::one() << (wbits / 2)));
        return lhs <= (BigUint::one() << (2 * wbits));
    }
    p * (p + (1u128 << (wbits / 2))) <= (1u128 << (2 * wbits))
}

/// Exhaustive comparison of every operation of `T` on all operand pairs.
fn exhaustive<T, W>(ctx: &mut Ctx, name: &str)
where
    T: FieldOps<W>,
    W: FieldWord + AsPrimitive<u128> + std::fmt::Debug,
    u128: AsPrimitive<W>,
{
    let p: u128 = T::PRIME.as_();
    assert!(is_prime(p), "{name}: {p} is not prime");
    let wmax: u128 = W::max_value().as_();
    let tag = format!("{name}/{p}");
    // Montgomery table, built with the code under test and checked by residue().
    let mut m: Vec<W> = Vec::with_capacity(p as usize);
    for a in 0..p {
        let x = T::montgomery(a.as_());
        let xr: u128 = x.as_();
        if xr >= p {
            ctx.violation(
                format!("small-word|{name}|montgomery-unreduced"),
                "montgomery() result not below p",
                json!({"inst": tag, "a": a.to_string(), "got": xr.to_string()}),
            );
        }
        let back: u128 = T::residue(x).as_();
        if back != a {
            ctx.violation(
                format!("small-word|{name}|residue(montgomery)"),
                "residue(montgomery(a)) != a",
                json!({"inst": tag, "a": a.to_string(), "got": back.to_string()}),
            );
        }
        m.push(x);
    }
    ctx.evals(p as u64);
    // Conversions of integers >= p (the From<int> path of the deployed fields).
    if ctx.shard == 0 {
        let mut x = p;
        let step = ((wmax - p) / 4096).max(1);
        while x <= wmax {
            let got: u128 = T::residue(T::montgomery(x.as_())).as_();
            if got != x % p {
                ctx.violation(
                    format!("small-word|{name}|montgomery(x>=p)"),
                    "montgomery(x) for x >= p is not x mod p",
                    json!({"inst": tag, "x": x.to_string(), "got": got.to_string()}),
                );
            }
            ctx.eval();
            if x == wmax {
                break;
            }
            x = (x + step).min(wmax);
        }
        // Montgomery form of one / constants.
        let one: u128 = T::residue(T::ROOTS[0]).as_();
        if one != 1 % p {
            ctx.violation(
                format!("small-word|{name}|hook-constants"),
                "hook parameter ROOTS[0] is not the Montgomery form of 1 (hook error)",
                json!({"inst": tag}),
            );
        }
    }
    // All pairs; rows are partitioned over shards.
    let mut bad = 0u64;
    for a in 0..p {
        if !ctx.mine(a as u64) {
            continue;
        }
        let x = m[a as usize];
        // unary
        let n: u128 = T::neg(x).as_();
        let want_n: u128 = m[((p - a) % p) as usize].as_();
        if n != want_n {
            bad += 1;
            ctx.violation(
                format!("small-word|{name}|neg"),
                "neg(x) != -x mod p",
                json!({"inst": tag, "a": a.to_string()}),
            );
        }
        let inv: u128 = T::inv(x).as_();
        let want_inv: u128 = m[powmod(a, p - 2, p) as usize].as_();
        if inv != want_inv {
            bad += 1;
            ctx.violation(
                format!("small-word|{name}|inv"),
                "inv(x) != x^(p-2) mod p",
                json!({"inst": tag, "a": a.to_string()}),
            );
        }
        // pow with a spread of exponents (all exponents for 8-bit words).
        let exps: Vec<u128> = if wmax <= 255 {
            (0..=wmax).collect()
        } else {
            vec![0, 1, 2, 3, p - 2, p - 1, p, wmax, wmax - 1, 1 << 15, (1 << 15) - 1, (a * 7919) & wmax]
        };
        for e in exps {
            if e > wmax {
                continue;
            }
            let got: u128 = T::pow(x, e.as_()).as_();
            let want: u128 = m[powmod(a, e, p) as usize].as_();
            if got != want {
                bad += 1;
                ctx.violation(
                    format!("small-word|{name}|pow"),
                    "pow(x, e) != x^e mod p",
                    json!({"inst": tag, "a": a.to_string(), "e": e.to_string()}),
                );
            }
        }
        for b in 0..p {
            let y = m[b as usize];
            let s: u128 = T::add(x, y).as_();
            let mut ab = a + b;
            if ab >= p {
                ab -= p;
            }
            let d: u128 = T::sub(x, y).as_();
            let amb = if a >= b { a - b } else { a + p - b };
            let pr: u128 = T::mul(x, y).as_();
            let want_s: u128 = m[ab as usize].as_();
            let want_d: u128 = m[amb as usize].as_();
            let want_p: u128 = m[((a * b) % p) as usize].as_();
            if s != want_s || d != want_d || pr != want_p {
                bad += 1;
                let op = if s != want_s {
                    "add"
                } else if d != want_d {
                    "sub"
                } else {
                    "mul"
                };
                if bad < 50 {
                    ctx.violation(
                        format!("small-word|{name}|{op}"),
                        format!("{op}(x, y) disagrees with integer arithmetic mod p"),
                        json!({"inst": tag, "a": a.to_string(), "b": b.to_string(),
                               "got_add": s.to_string(), "got_sub": d.to_string(), "got_mul": pr.to_string()}),
                    );
                }
            }
        }
        ctx.evals(3 * p as u64);
    }
    ctx.count_n("partA_pairs_compared", {
        let rows = (0..p).filter(|a| ctx.mine(*a as u64)).count() as u64;
        rows * p as u64
    });
    ctx.nontrivial(digest_str(&tag));
    ctx.set_insert("partA_exhaustive_instances", tag.clone());
    ctx.sample(|| json!({"part": "A-exhaustive", "instance": tag, "pairs": (p*p).to_string(), "mismatches": bad}));
}

/// Lattice + random comparison for 32/64-bit scaled instantiations (oracle: u128 / BigUint).
fn sampled<T, W>(ctx: &mut Ctx, name: &str, n_random: u64)
where
    T: FieldOps<W>,
    W: FieldWord + AsPrimitive<u128> + std::fmt::Debug,
    u128: AsPrimitive<W>,
{
    let p: u128 = T::PRIME.as_();
    assert!(p > (1 << 40) || is_prime(p), "{name}: {p} not prime");
    let wbits = W::BITS as u32;
    let tag = format!("{name}/{p}");
    let pb = BigUint::from(p);
    let bmul = |a: u128, b: u128| -> u128 {
        let r = (BigUint::from(a) * BigUint::from(b)) % &pb;
        let d = r.to_u64_digits();
        d.first().copied().unwrap_or(0) as u128 | ((d.get(1).copied().unwrap_or(0) as u128) << 64)
    };
    // R^-1 mod p to find values whose Montgomery form is at a limb boundary.
    let r_mod = {
        let r = (BigUint::one() << wbits) % &pb;
        let d = r.to_u64_digits();
        d.first().copied().unwrap_or(0) as u128 | ((d.get(1).copied().unwrap_or(0) as u128) << 64)
    };
    let r_inv = {
        let r = BigUint::from(r_mod).modpow(&(&pb - 2u32), &pb);
        let d = r.to_u64_digits();
        d.first().copied().unwrap_or(0) as u128 | ((d.get(1).copied().unwrap_or(0) as u128) << 64)
    };
    let mut lat: Vec<u128> = vec![0, 1, 2, 3, p - 1, p - 2, p - 3, (p - 1) / 2, (p + 1) / 2, r_mod, bmul(r_mod, r_mod)];
    for k in 1..wbits {
        for v in [(1u128 << k) - 1, 1u128 << k, (1u128 << k) + 1] {
            lat.push(v % p);
            lat.push(bmul(v % p, r_inv)); // Montgomery form == v
            lat.push((p - (v % p)) % p);
        }
    }
    lat.sort();
    lat.dedup();
    let mut rng = ctx.rng(&format!("sampled/{tag}"));
    let mut check = |ctx: &mut Ctx, a: u128, b: u128| {
        let x = T::montgomery(a.as_());
        let y = T::montgomery(b.as_());
        let s: u128 = T::residue(T::add(x, y)).as_();
        let d: u128 = T::residue(T::sub(x, y)).as_();
        let m: u128 = T::residue(T::mul(x, y)).as_();
        let sr: u128 = T::add(x, y).as_();
        let mr: u128 = T::mul(x, y).as_();
        let ws = (a + b) % p; // a + b < 2^65 fits in u128
        let wd = (a + p - b) % p;
        let wm = bmul(a, b);
        if s != ws || d != wd || m != wm || sr >= p || mr >= p {
            ctx.violation(
                format!("scaled|{name}|{}", if s != ws { "add" } else if d != wd { "sub" } else if m != wm { "mul" } else { "unreduced" }),
                "scaled instantiation disagrees with integer arithmetic",
                json!({"inst": tag, "a": a.to_string(), "b": b.to_string()}),
            );
        }
        ctx.evals(3);
    };
    let mut i = 0u64;
    for &a in &lat {
        for &b in &lat {
            i += 1;
            if ctx.mine(i) {
                check(ctx, a, b);
            }
        }
    }
    for _ in 0..n_random / ctx.nshards as u64 {
        let a = rng.u128() % p;
        let b = if rng.chance(1, 4) { *rng.choose(&lat) } else { rng.u128() % p };
        check(ctx, a, b);
    }
    // inv / pow on lattice values
    for (j, &a) in lat.iter().enumerate() {
        if !ctx.mine(j as u64) || a == 0 {
            continue;
        }
        let x = T::montgomery(a.as_());
        let inv = T::inv(x);
        let one: u128 = T::residue(T::mul(inv, x)).as_();
        if one != 1 {
            ctx.violation(format!("scaled|{name}|inv"), "x * inv(x) != 1", json!({"inst": tag, "a": a.to_string()}));
        }
        ctx.eval();
    }
    ctx.nontrivial(digest_str(&tag));
    ctx.set_insert("partA_sampled_instances", format!("{tag} lattice={}", lat.len()));
}

macro_rules! run_primes {
    ($ctx:expr, exhaustive, $ty:ident, $name:expr, [$($p:literal),* $(,)?]) => {
        $( exhaustive::<$ty<$p>, _>($ctx, $name); )*
    };
    ($ctx:expr, sampled, $ty:ident, $name:expr, [$($p:literal),* $(,)?], $extra:expr) => {
        $( sampled::<$ty<$p>, _>($ctx, $name, $extra); )*
    };
}

fn part_a(ctx: &mut Ctx) {
    // Every odd prime below 256, single-word u8/u16.
    run_primes!(ctx, exhaustive, Fp8, "single-u8", [
        3, 5, 7, 11, 13, 17, 19, 23, 29, 31, 37, 41, 43, 47, 53, 59, 61, 67, 71, 73, 79, 83, 89,
        97, 101, 103, 107, 109, 113, 127, 131, 137, 139, 149, 151, 157, 163, 167, 173, 179, 181,
        191, 193, 197, 199, 211, 223, 227, 229, 233, 239, 241, 251
    ]);
    // Split-word u16/u8 at 8-bit-sized primes too (p1 = 0 path).
    run_primes!(ctx, exhaustive, Fp16Split, "split-u16", [3, 251, 257]);
    if ctx.quick() {
        run_primes!(ctx, exhaustive, Fp16, "single-u16", [257, 65521]);
        run_primes!(ctx, exhaustive, Fp16Split, "split-u16", [65407]);
    } else {
        run_primes!(ctx, exhaustive, Fp16, "single-u16", [257, 12289, 32749, 32771, 40961, 61441, 65519, 65521]);
        run_primes!(ctx, exhaustive, Fp16Split, "split-u16", [
            12289, 32749, 32771, 40961, 61441, 65267, 65269, 65393, 65407
        ]);
    }
    for (p, w) in [(3u128, 16u32), (251, 16), (257, 16), (65407, 16), (65267, 16), (4294934513, 32), (4293918721, 32), (18446744071562067949, 64), (18446744069414584321, 64)] {
        assert!(split_ok(p, w), "split-word precondition violated for {p}");
    }
    let n = ctx.budget(1_000_000, 20_000_000);
    run_primes!(ctx, sampled, Fp32, "single-u32", [4293918721, 4294967291, 2147483647, 2147483659, 65537], n);
    run_primes!(ctx, sampled, Fp32Split, "split-u32", [4293918721, 4294934513, 4294934491, 2147483647, 2147483659, 65537], n);
    run_primes!(ctx, sampled, Fp64Split, "split-u64", [
        18446744069414584321, 18446744071562067949, 18446744071562067931, 9223372036854775837, 9223372036854775783, 4294967311
    ], n);
    ctx.exhaustive = Some(true);
}

// ---------------------------------------------------------------------------------------------
// Part B: deployed fields
// ---------------------------------------------------------------------------------------------

pub trait Model: FieldElement {
    const NAME: &'static str;
    const HAS_INV: bool;
    fn p() -> BigUint;
    fn to_big(&self) -> BigUint {
        let b: Vec<u8> = (*self).into();
        BigUint::from_bytes_le(&b)
    }
    fn from_big(v: &BigUint) -> Self {
        let mut b = v.to_bytes_le();
        b.resize(Self::ENCODED_SIZE, 0);
        Self::try_from(&b[..]).expect("from_big: value must be < p")
    }
    fn hash64(&self) -> Option<u64>;
}

fn h64<T: Hash>(t: &T) -> u64 {
    let mut h = DefaultHasher::new();
    t.hash(&mut h);
    h.finish()
}

impl Model for FieldPrio2 {
    const NAME: &'static str = "FieldPrio2";
    const HAS_INV: bool = true;
    fn p() -> BigUint {
        BigUint::from(4293918721u64)
    }
    fn hash64(&self) -> Option<u64> {
        Some(h64(self))
    }
}
impl Model for Field64 {
    const NAME: &'static str = "Field64";
    const HAS_INV: bool = true;
    fn p() -> BigUint {
        BigUint::from(18446744069414584321u64)
    }
    fn hash64(&self) -> Option<u64> {
        Some(h64(self))
    }
}
impl Model for Field128 {
    const NAME: &'static str = "Field128";
    const HAS_INV: bool = true;
    fn p() -> BigUint {
        BigUint::from(340282366920938462946865773367900766209u128)
    }
    fn hash64(&self) -> Option<u64> {
        Some(h64(self))
    }
}
impl Model for Field255 {
    const NAME: &'static str = "Field255";
    const HAS_INV: bool = false;
    fn p() -> BigUint {
        (BigUint::one() << 255) - 19u32
    }
    fn hash64(&self) -> Option<u64> {
        None
    }
}

fn lattice<F: Model>() -> Vec<BigUint> {
    let p = F::p();
    let bits = p.bits();
    let wbits = (F::ENCODED_SIZE * 8) as u64;
    let r = (BigUint::one() << wbits) % &p;
    let r_inv = r.modpow(&(&p - 2u32), &p);
    let mut v: Vec<BigUint> = vec![];
    for s in [0u32, 1, 2, 3, 4, 5, 18, 19, 20, 37, 38, 39] {
        v.push(BigUint::from(s) % &p);
        v.push((&p - (BigUint::from(s) % &p)) % &p);
    }
    v.push((&p - 1u32) / 2u32);
    v.push((&p + 1u32) / 2u32);
    v.push(r.clone());
    v.push((&r * &r) % &p);
    v.push(r_inv.clone());
    for k in 1..=bits {
        for d in [-1i32, 0, 1] {
            let base = BigUint::one() << k;
            let val = if d < 0 { &base - 1u32 } else if d > 0 { &base + 1u32 } else { base };
            let val = val % &p;
            v.push(val.clone());
            v.push((&p - &val) % &p);
            // value whose Montgomery form is `val`
            if F::ENCODED_SIZE <= 16 {
                v.push((&val * &r_inv) % &p);
            }
        }
    }
    // multiples of 2^32 / 2^64 +- 1
    for limb in [32u64, 64, 96, 128, 192] {
        if limb < bits {
            for mult in [1u32, 2, 3, 0xffff_ffff] {
                for d in [-1i32, 0, 1] {
                    let base = (BigUint::one() << limb) * mult;
                    let val = if d < 0 { &base - 1u32 } else if d > 0 { &base + 1u32 } else { base };
                    v.push(val % &p);
                }
            }
        }
    }
    v.sort();
    v.dedup();
    v
}

fn viol<F: Model>(ctx: &mut Ctx, op: &str, what: &str, a: &BigUint, b: &BigUint) {
    ctx.violation(
        format!("deployed|{}|{op}", F::NAME),
        what.to_string(),
        json!({"field": F::NAME, "op": op, "a": a.to_string(), "b": b.to_string()}),
    );
}

fn check_pair<F: Model>(ctx: &mut Ctx, a: &BigUint, b: &BigUint, p: &BigUint) {
    let x = F::from_big(a);
    let y = F::from_big(b);
    let sum = (a + b) % p;
    let dif = ((a + p) - b) % p;
    let prod = (a * b) % p;
    if (x + y).to_big() != sum {
        viol::<F>(ctx, "add", "x + y != (a + b) mod p", a, b);
    }
    if (x - y).to_big() != dif {
        viol::<F>(ctx, "sub", "x - y != (a - b) mod p", a, b);
    }
    if (x * y).to_big() != prod {
        viol::<F>(ctx, "mul", "x * y != (a * b) mod p", a, b);
    }
    // Assign forms agree with the binary forms.
    let mut t = x;
    t += y;
    let mut u = x;
    u -= y;
    let mut w = x;
    w *= y;
    if t != x + y || u != x - y || w != x * y {
        viol::<F>(ctx, "assign-ops", "op-assign differs from binary op", a, b);
    }
    // Equality, constant-time equality, hashing and encoding are mutually consistent.
    let eq_int = a == b;
    let enc_x = x.get_encoded().unwrap();
    let enc_y = y.get_encoded().unwrap();
    if (x == y) != eq_int || bool::from(x.ct_eq(&y)) != eq_int || (enc_x == enc_y) != eq_int {
        viol::<F>(ctx, "eq", "==, ct_eq and encoding disagree with integer equality", a, b);
    }
    // A value computed by two routes must be equal, hash equal and encode equal.
    let route1 = (x + y) - y;
    let route2 = x;
    if route1 != route2 || route1.get_encoded().unwrap() != enc_x || route1.hash64() != route2.hash64() {
        viol::<F>(ctx, "canonical", "(x + y) - y differs from x in ==, hash or encoding", a, b);
    }
    if !a.is_zero() && F::HAS_INV {
        // (x * y) / x == y
        let q = (x * y) / x;
        if q != y || q.hash64() != y.hash64() {
            viol::<F>(ctx, "div", "(x * y) / x != y", a, b);
        }
    }
    // Conditional selection and negation.
    if F::conditional_select(&x, &y, Choice::from(0)) != x || F::conditional_select(&x, &y, Choice::from(1)) != y {
        viol::<F>(ctx, "conditional_select", "conditional_select picks the wrong operand", a, b);
    }
    let mut c = x;
    c.conditional_negate(Choice::from(0));
    let mut dn = x;
    dn.conditional_negate(Choice::from(1));
    if c != x || dn.to_big() != (p - a) % p || dn != -x {
        viol::<F>(ctx, "conditional_negate", "conditional_negate wrong", a, b);
    }
    // Encoding is the little-endian integer, exact length, and round-trips.
    let mut le = a.to_bytes_le();
    le.resize(F::ENCODED_SIZE, 0);
    if enc_x != le || x.encoded_len() != Some(enc_x.len()) || F::get_decoded(&enc_x).ok() != Some(x) {
        viol::<F>(ctx, "encode", "encoding is not the canonical little-endian integer / does not round-trip", a, b);
    }
    ctx.evals(3);
}

fn check_unary<F: Model>(ctx: &mut Ctx, a: &BigUint, p: &BigUint) {
    let x = F::from_big(a);
    let z = BigUint::zero();
    if (-x).to_big() != (p - a) % p {
        viol::<F>(ctx, "neg", "-x != (p - a) mod p", a, &z);
    }
    if F::HAS_INV && !a.is_zero() {
        let inv = x.inv();
        if inv.to_big() != a.modpow(&(p - 2u32), p) || inv * x != F::one() {
            viol::<F>(ctx, "inv", "inv(x) != a^(p-2) mod p", a, &z);
        }
    }
    if (x * F::half()).to_big() != (a * ((p + 1u32) / 2u32)) % p {
        viol::<F>(ctx, "half", "x * half() != a / 2", a, &z);
    }
    if x + F::zero() != x || x * F::one() != x || !(x * F::zero()).to_big().is_zero() {
        viol::<F>(ctx, "identities", "zero()/one() are not identities", a, &z);
    }
    ctx.eval();
}

/// Byte-level conversions at and around the modulus.
fn check_bytes<F: Model>(ctx: &mut Ctx, rng: &mut Rng64) {
    let p = F::p();
    let size = F::ENCODED_SIZE;
    let top = BigUint::one() << (8 * size);
    let bits = p.bits();
    let mut cands: Vec<BigUint> = vec![&p - 1u32, p.clone(), &p + 1u32, &top - 1u32, &p + 18u32, &p + 19u32, (BigUint::one() << bits) - 1u32];
    for k in (bits.saturating_sub(3))..=(8 * size as u64 - 1) {
        cands.push(BigUint::one() << k);
        cands.push((BigUint::one() << k) | (&p - 1u32));
    }
    for _ in 0..200 {
        let b = rng.bytes(size);
        cands.push(BigUint::from_bytes_le(&b));
    }
    let mask = (BigUint::one() << bits) - 1u32;
    for v in cands {
        if v >= top {
            continue;
        }
        let mut b = v.to_bytes_le();
        b.resize(size, 0);
        let strict = F::try_from(&b[..]);
        let dec = F::get_decoded(&b);
        let want_ok = v < p;
        if strict.is_ok() != want_ok || dec.is_ok() != want_ok {
            viol::<F>(ctx, "try_from-bytes", "byte decoding accepts a value >= p or rejects one < p", &v, &BigUint::zero());
        }
        if let Ok(x) = strict {
            if x.to_big() != v {
                viol::<F>(ctx, "try_from-bytes", "byte decoding changed the value", &v, &BigUint::zero());
            }
        }
        // try_from_random: bits above the modulus length are cleared first.
        let masked = &v & &mask;
        let r = F::try_from_random(&b);
        if r.is_ok() != (masked < p) {
            viol::<F>(ctx, "try_from_random", "masked sampling accepts >= p or rejects < p", &v, &BigUint::zero());
        }
        if let Ok(x) = r {
            if x.to_big() != masked {
                viol::<F>(ctx, "try_from_random", "masked sampling produced the wrong value", &v, &BigUint::zero());
            }
        }
        // short input
        if F::try_from(&b[..size - 1]).is_ok() || F::get_decoded(&b[..size - 1]).is_ok() {
            viol::<F>(ctx, "try_from-bytes", "short input accepted", &v, &BigUint::zero());
        }
        ctx.evals(3);
    }
}

fn big_to_u128(v: &BigUint) -> u128 {
    let d = v.to_u64_digits();
    d.first().copied().unwrap_or(0) as u128 | ((d.get(1).copied().unwrap_or(0) as u128) << 64)
}

/// Integer conversions, pow and root orders for the NTT-friendly fields.
fn check_integer<F>(ctx: &mut Ctx, rng: &mut Rng64, lat: &[BigUint], log2_order: u32)
where
    F: Model + NttFriendlyFieldElement,
    F::Integer: TryFrom<u128> + Into<u128>,
{
    let p = F::p();
    let pi: u128 = F::modulus().into();
    if BigUint::from(pi) != p {
        viol::<F>(ctx, "modulus", "modulus() is not the field prime", &p, &BigUint::zero());
    }
    let int_max: u128 = if F::ENCODED_SIZE == 16 { u128::MAX } else { (1u128 << (8 * F::ENCODED_SIZE)) - 1 };
    let mk = |v: u128| -> F::Integer { F::Integer::try_from(v).ok().unwrap() };
    // From<Integer> reduces mod p, including integers >= p.
    let mut ints: Vec<u128> = vec![0, 1, 2, pi - 1, pi, pi.wrapping_add(1) & int_max, int_max, int_max - 1, int_max / 2, pi / 2];
    for _ in 0..500 {
        ints.push(rng.u128() & int_max);
    }
    for v in lat.iter().take(400) {
        ints.push(big_to_u128(v));
    }
    for v in ints {
        let x = F::from(mk(v));
        let want = BigUint::from(v) % &p;
        let back: u128 = F::Integer::from(x).into();
        if x.to_big() != want || BigUint::from(back) != want {
            viol::<F>(ctx, "from-integer", "From<Integer> / Into<Integer> disagree with reduction mod p", &BigUint::from(v), &BigUint::zero());
        }
        if v < pi && x != F::from_big(&want) {
            viol::<F>(ctx, "from-integer", "From<Integer> differs from byte decoding", &BigUint::from(v), &BigUint::zero());
        }
        ctx.eval();
    }
    // pow
    let mut exps: Vec<u128> = vec![0, 1, 2, 3, pi - 2, pi - 1, pi, pi.wrapping_add(1) & int_max, int_max, 1 << 20, (1 << 20) - 1];
    for k in [7u32, 31, 32, 33, 63, 64, 65, 127] {
        if (k as usize) < 8 * F::ENCODED_SIZE {
            exps.push(1u128 << k);
            exps.push((1u128 << k) - 1);
        }
    }
    for _ in 0..20 {
        exps.push(rng.u128() & int_max);
    }
    let bases: Vec<BigUint> = (0..24).map(|_| rng.choose(lat).clone()).chain([BigUint::zero(), BigUint::one(), &p - 1u32]).collect();
    for b in &bases {
        let x = F::from_big(b);
        for &e in &exps {
            let got = x.pow(mk(e));
            if got.to_big() != b.modpow(&BigUint::from(e), &p) {
                viol::<F>(ctx, "pow", "pow(x, e) != a^e mod p", b, &BigUint::from(e));
            }
            ctx.eval();
        }
    }
    // Roots of unity have exactly the claimed order.
    if F::root(0) != Some(F::one()) {
        viol::<F>(ctx, "root", "root(0) != 1", &BigUint::zero(), &BigUint::zero());
    }
    for l in 1..=20usize {
        match F::root(l) {
            None => viol::<F>(ctx, "root", "root(l) missing for l <= 20", &BigUint::from(l), &BigUint::zero()),
            Some(r) => {
                let full = r.pow(mk(1u128 << l));
                let halfp = r.pow(mk(1u128 << (l - 1)));
                if full != F::one() || halfp != -F::one() {
                    viol::<F>(ctx, "root", "root(l) does not have order exactly 2^l", &BigUint::from(l), &BigUint::zero());
                }
                if l > 1 && F::root(l - 1) != Some(r * r) {
                    viol::<F>(ctx, "root", "root(l)^2 != root(l-1)", &BigUint::from(l), &BigUint::zero());
                }
            }
        }
        ctx.eval();
    }
    for l in [21usize, 22, 64, 1000, usize::MAX] {
        if F::root(l).is_some() {
            viol::<F>(ctx, "root", "root(l) present beyond the supported maximum", &BigUint::from(l), &BigUint::zero());
        }
    }
    let order: u128 = F::generator_order().into();
    if order != 1u128 << log2_order {
        viol::<F>(ctx, "generator", "generator_order() not the claimed power of two", &BigUint::from(order), &BigUint::zero());
    }
    let g = F::generator();
    if g.pow(mk(order)) != F::one() || g.pow(mk(order / 2)) != -F::one() {
        viol::<F>(ctx, "generator", "generator() does not have order exactly generator_order()", &BigUint::from(order), &BigUint::zero());
    }
    // (p - 1) / order must be odd*... at least: order divides p - 1.
    if (pi - 1) % order != 0 {
        viol::<F>(ctx, "generator", "generator order does not divide p - 1", &BigUint::from(order), &BigUint::zero());
    }
    ctx.evals(3);
}

fn part_b_field<F: Model>(ctx: &mut Ctx) -> Vec<BigUint> {
    let p = F::p();
    let lat = lattice::<F>();
    let mut rng = ctx.rng(&format!("partB/{}", F::NAME));
    ctx.set_insert("partB_lattice_sizes", format!("{}={}", F::NAME, lat.len()));
    // Anchor the oracle's own conversion: small integers encode as themselves.
    for k in 0u32..40 {
        let mut x = F::zero();
        for _ in 0..k {
            x += F::one();
        }
        if x.to_big() != BigUint::from(k) {
            viol::<F>(ctx, "anchor", "k * one() does not encode as k", &BigUint::from(k), &BigUint::zero());
        }
    }
    // Lattice cross product, partitioned over shards. Quick: subsample columns.
    let stride = if ctx.quick() { 7 } else { 1 };
    let mut idx = 0u64;
    for (i, a) in lat.iter().enumerate() {
        if ctx.mine(i as u64) {
            check_unary::<F>(ctx, a, &p);
        }
        for (j, b) in lat.iter().enumerate() {
            idx += 1;
            if !ctx.mine(idx) {
                continue;
            }
            if stride > 1 && (i + j) % stride != 0 && i != j {
                continue;
            }
            check_pair::<F>(ctx, a, b, &p);
            ctx.nontrivial(digest(&[F::NAME.as_bytes(), &(i as u32).to_le_bytes(), &(j as u32).to_le_bytes()]));
        }
    }
    // Random pairs (uniform, and uniform x lattice).
    let n = ctx.budget(100_000, 10_000_000) / ctx.nshards as u64;
    let nbytes = F::ENCODED_SIZE + 8;
    for k in 0..n {
        let a = BigUint::from_bytes_le(&rng.bytes(nbytes)) % &p;
        let b = if k % 4 == 0 { rng.choose(&lat).clone() } else { BigUint::from_bytes_le(&rng.bytes(nbytes)) % &p };
        check_pair::<F>(ctx, &a, &b, &p);
        if k % 64 == 0 {
            check_unary::<F>(ctx, &a, &p);
        }
    }
    ctx.count_n(&format!("partB_random_pairs_{}", F::NAME), n);
    if ctx.shard == 0 {
        check_bytes::<F>(ctx, &mut rng);
    }
    let lat2 = lat.clone();
    ctx.sample(|| json!({"part": "B-deployed", "field": F::NAME, "lattice_values": lat2.len(),
                         "example_operands": [lat2[lat2.len()/2].to_string(), lat2[lat2.len()-1].to_string()]}));
    lat
}

/// Run one part under the panic monitor: in this driver every panic raised by arithmetic on field
/// elements (in particular the crate's own `debug_assert!(self.0 < PRIME)` reducedness invariant in
/// `PartialEq`/`Hash`, or an overflow trap) IS an observation of the property being broken.
fn guarded<T: Default>(ctx: &mut Ctx, part: &str, f: impl FnOnce(&mut Ctx) -> T) -> T {
    let mut out = None;
    let r = catch(|| out = Some(f(ctx)));
    match r {
        Ok(()) => out.unwrap(),
        Err(pi) => {
            ctx.violation(format!("panic|{part}|{}", pi.class()),
                "field arithmetic / comparison panicked (reducedness invariant or overflow trap fired)",
                json!({"part": part, "panic": pi.message, "at": pi.location}));
            T::default()
        }
    }
}

pub fn run(ctx: &mut Ctx) {
    guarded(ctx, "partA", part_a);
    run_b(ctx);
}

fn run_b(ctx: &mut Ctx) {
    let l = guarded(ctx, "partB-FieldPrio2", part_b_field::<FieldPrio2>);
    run_b_rest(ctx, l);
}

#[allow(unused_variables)]
fn run_b_rest(ctx: &mut Ctx, l: Vec<BigUint>) {
    let mut rng = ctx.rng("int32");
    if ctx.shard % 4 == 0 {
        guarded(ctx, "integer-FieldPrio2", |ctx| check_integer::<FieldPrio2>(ctx, &mut rng, &l, 20));
    }
    let l = guarded(ctx, "partB-Field64", part_b_field::<Field64>);
    if ctx.shard % 4 == 1 {
        guarded(ctx, "integer-Field64", |ctx| check_integer::<Field64>(ctx, &mut rng, &l, 32));
    }
    let l = guarded(ctx, "partB-Field128", part_b_field::<Field128>);
    if ctx.shard % 4 == 2 {
        guarded(ctx, "integer-Field128", |ctx| check_integer::<Field128>(ctx, &mut rng, &l, 66));
    }
    let _ = guarded(ctx, "partB-Field255", part_b_field::<Field255>);
    // Field255 <-> u64 conversions
    if ctx.shard % 4 == 3 {
        for v in [0u64, 1, 2, 18, 19, 20, u64::MAX, u64::MAX - 1, 1 << 63, rng.u64(), rng.u64()] {
            let x = Field255::from(v);
            if x.to_big() != BigUint::from(v) || u64::try_from(x).ok() != Some(v) {
                viol::<Field255>(ctx, "from-u64", "From<u64>/TryFrom<Field255> for u64 wrong", &BigUint::from(v), &BigUint::zero());
            }
            ctx.eval();
        }
        let big = Field255::from(u64::MAX) + Field255::one();
        if u64::try_from(big).is_ok() {
            viol::<Field255>(ctx, "from-u64", "TryFrom<Field255> for u64 accepts 2^64", &BigUint::zero(), &BigUint::zero());
        }
    }
}
