//! C10: NTT and Lagrange-basis polynomial routines equal their textbook definitions (hook H2).
//!
//! Oracles (all written here, using only the field types' `+ - *` and `inv`, which C09 monitors
//! separately):
//!   * direct evaluation of the input polynomial at the powers of `root(log n)` (optionally
//!     shifted by `root(log n + 1)`); for a unit vector `c*e_j` that is `c * x_i^j`, a table look-up,
//!     so a full basis of the input space is compared entry by entry;
//!   * textbook Lagrange interpolation (`L_j(x) = prod_{m != j} (x - x_m) / (x_j - x_m)`) for the
//!     Lagrange-basis routines (batched evaluation, extension of a partial set of values, doubling,
//!     multiplication, interpret-eval);
//!   * "size / capacity violations are errors": the transforms must return `Err` (never `Ok`, never
//!     panic) for sizes that are not a power of two, exceed 2^20 (2^19 with the shift), or exceed
//!     the output slice.
//!
//! Out of the stated domain, hence never asserted: size 0; inputs LONGER than `size` (the tail is
//! ignored by the code; the transform of size n is defined on n coefficients); the documented
//! `assert!` preconditions of the crate-private Lagrange helpers (non-power-of-two lengths,
//! unequal lengths, empty batch).

use crate::common::*;
use prio::field::{Field128, Field64, FieldPrio2, NttFriendlyFieldElement};
use prio::verif_hooks::ntt as hn;
use prio::verif_hooks::ntt::NttError;
use prio::verif_hooks::polynomial as hp;
use serde_json::{json, Value};

// ---------------------------------------------------------------------------------------------
// Field helpers
// ---------------------------------------------------------------------------------------------

pub trait Nf: NttFriendlyFieldElement {
    const NAME: &'static str;
    /// Small integers only (v < 2^31).
    fn from_small(v: u64) -> Self;
}
impl Nf for FieldPrio2 {
    const NAME: &'static str = "FieldPrio2";
    fn from_small(v: u64) -> Self {
        FieldPrio2::from((v & 0x7fff_ffff) as u32)
    }
}
impl Nf for Field64 {
    const NAME: &'static str = "Field64";
    fn from_small(v: u64) -> Self {
        Field64::from(v & 0x7fff_ffff)
    }
}
impl Nf for Field128 {
    const NAME: &'static str = "Field128";
    fn from_small(v: u64) -> Self {
        Field128::from((v & 0x7fff_ffff) as u128)
    }
}

fn rand_elem<F: Nf>(rng: &mut Rng64) -> F {
    loop {
        let b = rng.bytes(F::ENCODED_SIZE);
        if let Ok(x) = F::try_from_random(&b) {
            return x;
        }
    }
}

fn rand_nonzero<F: Nf>(rng: &mut Rng64) -> F {
    loop {
        let x = rand_elem::<F>(rng);
        if x != F::zero() {
            return x;
        }
    }
}

fn rand_vec<F: Nf>(rng: &mut Rng64, n: usize) -> Vec<F> {
    (0..n).map(|_| rand_elem::<F>(rng)).collect()
}

/// Decimal string of the canonical integer of a field element (fields here are <= 128 bits).
fn dec<F: Nf>(x: F) -> String {
    let b: Vec<u8> = x.into();
    let mut v = 0u128;
    for (i, byte) in b.iter().enumerate() {
        v |= (*byte as u128) << (8 * i);
    }
    v.to_string()
}

fn dec_vec<F: Nf>(v: &[F]) -> Value {
    if v.len() <= 64 {
        json!(v.iter().map(|x| dec(*x)).collect::<Vec<_>>())
    } else {
        json!(format!("<{} elements, regenerate from gen>", v.len()))
    }
}

/// Garbage used to pre-fill output buffers, so that an unwritten slot is visible.
fn garbage<F: Nf>() -> F {
    F::from_small(0x5eed_f00d)
}

/// The n-th roots of unity as a table pw[i] = root(log n)^i, built by successive multiplication.
struct Dom<F> {
    logn: usize,
    n: usize,
    pw: Vec<F>,
}

fn dom<F: Nf>(ctx: &mut Ctx, logn: usize) -> Option<Dom<F>> {
    let Some(w) = F::root(logn) else {
        ctx.inconclusive(format!("{}::root({logn}) is None", F::NAME));
        return None;
    };
    let n = 1usize << logn;
    let mut pw = Vec::with_capacity(n);
    let mut x = F::one();
    for _ in 0..n {
        pw.push(x);
        x *= w;
    }
    // x == w^n must be 1 and w^(n/2) must be -1 (principal root); otherwise the oracle is unsound
    // (root orders are C09's business).
    let ok = x == F::one() && (n < 2 || pw[n / 2] == -F::one());
    if !ok {
        ctx.inconclusive(format!("{}::root({logn}) is not a principal 2^{logn}-th root of unity (see C09)", F::NAME));
        return None;
    }
    Some(Dom { logn, n, pw })
}

/// Domain of size 2n whose generator squares to the generator of `d` (needed for the shifted
/// transform and the doubled evaluation domain).
fn dom2<F: Nf>(ctx: &mut Ctx, d: &Dom<F>) -> Option<Dom<F>> {
    if d.logn + 1 > 20 {
        return None;
    }
    let d2 = dom::<F>(ctx, d.logn + 1)?;
    let w = if d.n > 1 { d.pw[1] } else { F::one() };
    if d2.pw[1] * d2.pw[1] != w {
        ctx.inconclusive(format!("{}::root({})^2 != root({})", F::NAME, d.logn + 1, d.logn));
        return None;
    }
    Some(d2)
}

fn horner<F: Nf>(coeffs: &[F], x: F) -> F {
    let mut r = F::zero();
    for c in coeffs.iter().rev() {
        r = r * x + *c;
    }
    r
}

fn n_inv<F: Nf>(ctx: &mut Ctx, n: usize) -> Option<F> {
    let nf = F::from_small(n as u64);
    let ni = nf.inv();
    if ni * nf != F::one() {
        ctx.inconclusive(format!("{}: inv({n}) * {n} != 1 (see C09)", F::NAME));
        return None;
    }
    Some(ni)
}

fn viol(ctx: &mut Ctx, routine: &str, field: &str, kind: &str, what: &str, w: Value) {
    ctx.violation(format!("{routine}|{field}|{kind}"), what.to_string(), w);
}

// ---------------------------------------------------------------------------------------------
// Transforms
// ---------------------------------------------------------------------------------------------

#[derive(Clone, Copy, PartialEq, Debug)]
enum Tf {
    Ntt,
    SetS,
    Inv,
    GetNtt,
    GetInv,
}

impl Tf {
    fn name(&self) -> &'static str {
        match self {
            Tf::Ntt => "ntt",
            Tf::SetS => "ntt_set_s",
            Tf::Inv => "ntt_inv",
            Tf::GetNtt => "get_ntt",
            Tf::GetInv => "get_ntt_inv",
        }
    }
}

fn call_tf<F: Nf>(tf: Tf, inp: &[F], size: usize, outp_len: usize) -> Result<Result<Vec<F>, NttError>, PanicInfo> {
    catch(|| match tf {
        Tf::Ntt => {
            let mut o = vec![garbage::<F>(); outp_len];
            hn::ntt(&mut o, inp, size).map(|_| o)
        }
        Tf::SetS => {
            let mut o = vec![garbage::<F>(); outp_len];
            hn::ntt_set_s(&mut o, inp, size).map(|_| o)
        }
        Tf::Inv => {
            let mut o = vec![garbage::<F>(); outp_len];
            hn::ntt_inv(&mut o, inp, size).map(|_| o)
        }
        Tf::GetNtt => hn::get_ntt(inp, size),
        Tf::GetInv => hn::get_ntt_inv(inp, size),
    })
}

/// An admissible call: must return Ok with at least `size` outputs.
fn admissible<F: Nf>(
    ctx: &mut Ctx,
    tf: Tf,
    inp: &[F],
    size: usize,
    outp_len: usize,
    wit: &dyn Fn() -> Value,
) -> Option<Vec<F>> {
    ctx.eval();
    match call_tf::<F>(tf, inp, size, outp_len) {
        Ok(Ok(o)) => {
            if o.len() < size {
                viol(ctx, tf.name(), F::NAME, "short-output", "returned fewer than `size` values", wit());
                return None;
            }
            Some(o)
        }
        Ok(Err(e)) => {
            viol(
                ctx,
                tf.name(),
                F::NAME,
                &format!("err-on-valid:{e:?}"),
                "admissible size (power of two within capacity, output large enough) was refused",
                wit(),
            );
            None
        }
        Err(p) => {
            viol(
                ctx,
                tf.name(),
                F::NAME,
                &format!("panic-on-valid:{}", p.class()),
                &format!("admissible call panicked: {} at {}", p.message, p.location),
                wit(),
            );
            None
        }
    }
}

enum Inp<F> {
    /// c * e_j, given as a vector of `len` coefficients (j < len <= n).
    Unit { j: usize, c: F, len: usize },
    /// Arbitrary coefficients (len <= n); `gen` says how to regenerate them.
    Dense { v: Vec<F>, gen: String },
}

impl<F: Nf> Inp<F> {
    fn materialize(&self) -> Vec<F> {
        match self {
            Inp::Unit { j, c, len } => {
                let mut v = vec![F::zero(); *len];
                v[*j] = *c;
                v
            }
            Inp::Dense { v, .. } => v.clone(),
        }
    }
    fn kind(&self) -> &'static str {
        match self {
            Inp::Unit { .. } => "unit",
            Inp::Dense { .. } => "dense",
        }
    }
    fn describe(&self) -> Value {
        match self {
            Inp::Unit { j, c, len } => json!({"unit_index": j, "coefficient": dec(*c), "input_len": len}),
            Inp::Dense { v, gen } => json!({"gen": gen, "input_len": v.len(), "coefficients": dec_vec(v)}),
        }
    }
}

/// One input vector through all transforms of size `d.n`.
/// `sample`: output indices to compare against direct evaluation for dense inputs (None = all).
fn tf_case<F: Nf>(
    ctx: &mut Ctx,
    d: &Dom<F>,
    d2: Option<&Dom<F>>,
    inp: &Inp<F>,
    sample: Option<&[usize]>,
    extra_api: bool,
    slack: usize,
) {
    let n = d.n;
    let v = inp.materialize();
    assert!(v.len() <= n);
    let mut padded = v.clone();
    padded.resize(n, F::zero());
    let Some(ninv) = n_inv::<F>(ctx, n) else { return };
    let kind = inp.kind();
    let seed = ctx.seed;
    let wit = |routine: &str, extra: Value| -> Value {
        json!({"field": F::NAME, "routine": routine, "size": n, "input": inp.describe(), "seed": seed, "detail": extra})
    };
    let want = |i: usize, shifted: bool| -> F {
        match inp {
            Inp::Unit { j, c, .. } => {
                if shifted {
                    let t = d2.unwrap();
                    *c * t.pw[((2 * i + 1) * *j) % (2 * n)]
                } else {
                    *c * d.pw[(i * *j) % n]
                }
            }
            Inp::Dense { v, .. } => {
                let x = if shifted { d2.unwrap().pw[2 * i + 1] } else { d.pw[i] };
                horner(v, x)
            }
        }
    };
    let all: Vec<usize>;
    let idx: &[usize] = match (inp, sample) {
        (Inp::Dense { .. }, Some(s)) => s,
        _ => {
            all = (0..n).collect();
            &all
        }
    };

    // 1. forward transform == direct evaluation at w^i
    let fwd = admissible::<F>(ctx, Tf::Ntt, &v, n, n + slack, &|| wit("ntt", json!(null)));
    if let Some(fwd) = &fwd {
        for &i in idx {
            let w = want(i, false);
            if fwd[i] != w {
                viol(
                    ctx,
                    "ntt",
                    F::NAME,
                    &format!("mismatch:{kind}"),
                    "forward transform differs from direct evaluation at root^i",
                    wit("ntt", json!({"index": i, "got": dec(fwd[i]), "want": dec(w)})),
                );
                break;
            }
        }
        ctx.count("ntt_vectors_compared");
    }
    // 2. shifted transform == direct evaluation at s*w^i
    if d2.is_some() {
        if let Some(sh) = admissible::<F>(ctx, Tf::SetS, &v, n, n + slack, &|| wit("ntt_set_s", json!(null))) {
            for &i in idx {
                let w = want(i, true);
                if sh[i] != w {
                    viol(
                        ctx,
                        "ntt_set_s",
                        F::NAME,
                        &format!("mismatch:{kind}"),
                        "shifted transform differs from direct evaluation at root(l+1)*root(l)^i",
                        wit("ntt_set_s", json!({"index": i, "got": dec(sh[i]), "want": dec(w)})),
                    );
                    break;
                }
            }
            ctx.count("ntt_set_s_vectors_compared");
        }
    }
    // 3. inverse undoes forward
    if let Some(fwd) = &fwd {
        if let Some(back) = admissible::<F>(ctx, Tf::Inv, &fwd[..n], n, n + slack, &|| wit("ntt_inv", json!("applied to ntt(input)"))) {
            if let Some(i) = (0..n).find(|&i| back[i] != padded[i]) {
                viol(
                    ctx,
                    "ntt_inv",
                    F::NAME,
                    &format!("roundtrip-inv-of-fwd:{kind}"),
                    "ntt_inv(ntt(v)) != v",
                    wit("ntt_inv", json!({"index": i, "got": dec(back[i]), "want": dec(padded[i])})),
                );
            }
            ctx.count("ntt_inv_roundtrips");
        }
    }
    // 4. forward undoes inverse; inverse of a unit vector is the textbook inverse DFT entry
    let inv = admissible::<F>(ctx, Tf::Inv, &v, n, n + slack, &|| wit("ntt_inv", json!(null)));
    if let Some(inv) = &inv {
        if let Inp::Unit { j, c, .. } = inp {
            for i in 0..n {
                let w = *c * ninv * d.pw[(n - (i * *j) % n) % n];
                if inv[i] != w {
                    viol(
                        ctx,
                        "ntt_inv",
                        F::NAME,
                        "mismatch:unit",
                        "inverse transform of a unit vector differs from n^-1 * root^(-ij)",
                        wit("ntt_inv", json!({"index": i, "got": dec(inv[i]), "want": dec(w)})),
                    );
                    break;
                }
            }
        }
        if let Some(again) = admissible::<F>(ctx, Tf::Ntt, &inv[..n], n, n, &|| wit("ntt", json!("applied to ntt_inv(input)"))) {
            if let Some(i) = (0..n).find(|&i| again[i] != padded[i]) {
                viol(
                    ctx,
                    "ntt_inv",
                    F::NAME,
                    &format!("roundtrip-fwd-of-inv:{kind}"),
                    "ntt(ntt_inv(v)) != v",
                    wit("ntt_inv", json!({"index": i, "got": dec(again[i]), "want": dec(padded[i])})),
                );
            }
            ctx.count("ntt_inv_roundtrips");
        }
    }
    // 5. the allocating variants and the split inverse agree with the slice variants
    if extra_api {
        if let (Some(fwd), Some(g)) = (&fwd, admissible::<F>(ctx, Tf::GetNtt, &v, n, 0, &|| wit("get_ntt", json!(null)))) {
            if g.len() != n || g[..] != fwd[..n] {
                viol(ctx, "get_ntt", F::NAME, "differs-from-ntt", "get_ntt != ntt", wit("get_ntt", json!(null)));
            }
        }
        if let (Some(inv), Some(g)) = (&inv, admissible::<F>(ctx, Tf::GetInv, &v, n, 0, &|| wit("get_ntt_inv", json!(null)))) {
            if g.len() != n || g[..] != inv[..n] {
                viol(ctx, "get_ntt_inv", F::NAME, "differs-from-ntt_inv", "get_ntt_inv != ntt_inv", wit("get_ntt_inv", json!(null)));
            }
        }
        if let (Some(fwd), Some(inv)) = (&fwd, &inv) {
            let mut o = fwd[..n].to_vec();
            ctx.eval();
            match catch(|| hn::ntt_inv_finish(&mut o, n, ninv)) {
                Ok(()) => {
                    if o[..] != inv[..n] {
                        viol(
                            ctx,
                            "ntt_inv_finish",
                            F::NAME,
                            "mismatch",
                            "ntt followed by ntt_inv_finish(1/n) differs from ntt_inv",
                            wit("ntt_inv_finish", json!(null)),
                        );
                    }
                }
                Err(p) => viol(
                    ctx,
                    "ntt_inv_finish",
                    F::NAME,
                    &format!("panic-on-valid:{}", p.class()),
                    &format!("panicked: {} at {}", p.message, p.location),
                    wit("ntt_inv_finish", json!(null)),
                ),
            }
        }
    }
}

fn sample_indices(rng: &mut Rng64, n: usize, k: usize) -> Vec<usize> {
    let mut s = vec![0, 1 % n, n / 2, (n / 2 + 1) % n, n - 1, n.saturating_sub(2)];
    while s.len() < k {
        s.push(rng.usize_below(n));
    }
    s.sort();
    s.dedup();
    s
}

/// Transforms: full unit-vector basis (+ dense vectors, + short inputs) for n <= 2^lb; sizes up
/// to 2^lmax with ten unit vectors (compared completely) and, up to 2^ldense, dense vectors
/// compared with direct evaluation at sampled output indices.
fn transforms<F: Nf>(ctx: &mut Ctx, item: &mut u64, lb: usize, ldense: usize, lmax: usize) {
    let dense_small = ctx.budget(4, 12) as usize;
    let dense_large = ctx.budget(3, 24) as usize;
    for logn in 0..=lmax {
        let n = 1usize << logn;
        // Work list for this size: (kind, index)
        let mut work: Vec<(u8, usize)> = vec![];
        if logn <= lb {
            for j in 0..n {
                work.push((0, j)); // c = 1
                work.push((1, j)); // random c
            }
            for r in 0..dense_small {
                work.push((2, r));
            }
            // inputs shorter than the size (zero-padded by the transform)
            // EVERY length below the size up to n = 32; beyond that lengths around n/2, n/3, n/4, n/5, n/7, n/8
            // (size/len not a power of two, len not a power of two, one off either side) and a few tiny ones.
            let mut lens: Vec<usize> = if n <= 32 {
                (1..n).collect()
            } else {
                let mut v = vec![1usize, 2, 3, 5, 6, 7, n / 2, n - 1, n - 2, n / 3 + 1, n / 3, n / 5, n / 7, n / 2 - 1, n / 2 + 1,
                                 n / 4 - 1, n / 4, n / 4 + 1, n / 8 + 1, 3 * n / 4, 3 * n / 8 + 1];
                v.sort();
                v.dedup();
                v
            };
            lens.retain(|l| *l >= 1 && *l < n);
            for (k, len) in lens.into_iter().enumerate() {
                work.push((3, (k << 32) | len));
            }
        } else {
            let mut js = if logn <= ldense { vec![0, 1, 2, n / 2 - 1, n / 2, n / 2 + 1, n - 2, n - 1] } else { vec![1, n / 2 + 1, n - 1] };
            js.dedup();
            for j in js {
                work.push((1, j));
            }
            work.push((4, 0)); // random unit index
            if logn <= ldense {
                work.push((4, 1));
            }
            if logn <= ldense {
                for r in 0..dense_large {
                    work.push((5, r));
                }
                work.push((3, (9 << 32) | (n / 2 + 1)));
            }
        }
        let mine: Vec<(u8, usize)> = work
            .into_iter()
            .filter(|_| {
                *item += 1;
                ctx.mine(*item)
            })
            .collect();
        if mine.is_empty() {
            continue;
        }
        let Some(d) = dom::<F>(ctx, logn) else { continue };
        let d2 = dom2::<F>(ctx, &d);
        let cell = format!("transforms|{}|n=2^{logn}|{}", F::NAME, if logn <= lb { "basis" } else { "sampled" });
        ctx.nontrivial(digest_str(&cell));
        ctx.max("max_log2_size_transforms", logn as u64);
        for (kind, a) in mine {
            let label = format!("tf/{}/{logn}/{kind}/{a}", F::NAME);
            let mut rng = Rng64::derive(ctx.seed, &["C10", &label], 0);
            let slack = (a % 2) * 3;
            let inp: Inp<F> = match kind {
                0 => Inp::Unit { j: a, c: F::one(), len: n },
                1 => Inp::Unit { j: a, c: rand_nonzero::<F>(&mut rng), len: n },
                4 => Inp::Unit { j: rng.usize_below(n), c: rand_nonzero::<F>(&mut rng), len: n },
                2 | 5 => Inp::Dense { v: rand_vec::<F>(&mut rng, n), gen: label.clone() },
                3 => {
                    let len = a & 0xffff_ffff;
                    ctx.count("ntt_short_input_cases");
                    if rng.chance(1, 4) {
                        // the LAST coefficient present (a padding step that overwrites it shows up at once)
                        Inp::Unit { j: if rng.bool() { len - 1 } else { rng.usize_below(len) }, c: rand_nonzero::<F>(&mut rng), len }
                    } else {
                        Inp::Dense { v: rand_vec::<F>(&mut rng, len), gen: label.clone() }
                    }
                }
                _ => unreachable!(),
            };
            if matches!(inp, Inp::Unit { .. }) && logn <= lb {
                ctx.count("transform_basis_vectors");
            }
            let samples = if logn > lb { Some(sample_indices(&mut rng, n, 48)) } else { None };
            ctx.trace(|| format!("transforms {label}"));
            tf_case::<F>(ctx, &d, d2.as_ref(), &inp, samples.as_deref(), logn <= lb || (logn <= ldense && a % 4 == 0), slack);
            if kind == 2 && a == 0 && logn == 3 {
                ctx.sample(|| json!({"part": "transforms", "field": F::NAME, "size": n, "input": inp.describe()}));
            }
        }
    }
}

// ---------------------------------------------------------------------------------------------
// nth_root_powers
// ---------------------------------------------------------------------------------------------

fn root_powers<F: Nf>(ctx: &mut Ctx, item: &mut u64) {
    for logn in 0..=20usize {
        *item += 1;
        if !ctx.mine(*item) {
            continue;
        }
        let Some(d) = dom::<F>(ctx, logn) else { continue };
        ctx.eval();
        match catch(|| hp::nth_root_powers::<F>(d.n)) {
            Ok(r) => {
                let bad = if r.len() != d.n { Some(usize::MAX) } else { (0..d.n).find(|&i| r[i] != d.pw[i]) };
                if let Some(i) = bad {
                    viol(
                        ctx,
                        "nth_root_powers",
                        F::NAME,
                        "mismatch",
                        "nth_root_powers(n)[i] != root(log n)^i",
                        json!({"field": F::NAME, "n": d.n, "index": if i == usize::MAX { json!("length") } else { json!(i) }}),
                    );
                }
                ctx.count("nth_root_powers_sizes");
                ctx.nontrivial(digest_str(&format!("nth_root_powers|{}|{logn}", F::NAME)));
            }
            Err(p) => viol(
                ctx,
                "nth_root_powers",
                F::NAME,
                &format!("panic-on-valid:{}", p.class()),
                &format!("panicked: {} at {}", p.message, p.location),
                json!({"field": F::NAME, "n": d.n}),
            ),
        }
    }
}

// ---------------------------------------------------------------------------------------------
// Textbook Lagrange interpolation
// ---------------------------------------------------------------------------------------------

struct Interp<F> {
    xs: Vec<F>,
    /// 1 / prod_{m != j} (x_j - x_m)
    inv_den: Vec<F>,
}

impl<F: Nf> Interp<F> {
    /// Generic nodes, O(k^2).
    fn new(xs: &[F]) -> Self {
        let k = xs.len();
        let mut inv_den = Vec::with_capacity(k);
        for j in 0..k {
            let mut den = F::one();
            for m in 0..k {
                if m != j {
                    den *= xs[j] - xs[m];
                }
            }
            let inv = den.inv();
            assert!(inv * den == F::one(), "oracle: interpolation nodes not distinct / inv broken");
            inv_den.push(inv);
        }
        Interp { xs: xs.to_vec(), inv_den }
    }

    /// All n-th roots of unity: prod_{m != j} (w^j - w^m) = d/dx (x^n - 1) at w^j = n * w^(-j).
    /// (Closed form of the same textbook quantity; cross-checked against `new` for small n.)
    fn new_roots(d: &Dom<F>, ninv: F) -> Self {
        let inv_den = (0..d.n).map(|j| ninv * d.pw[j]).collect();
        Interp { xs: d.pw.clone(), inv_den }
    }

    /// L_j(x) for every j, O(k), no division (prefix / suffix products).
    fn basis_at(&self, x: F) -> Vec<F> {
        let k = self.xs.len();
        let mut pre = Vec::with_capacity(k + 1);
        let mut acc = F::one();
        pre.push(acc);
        for m in 0..k {
            acc *= x - self.xs[m];
            pre.push(acc);
        }
        let mut out = vec![F::zero(); k];
        let mut suf = F::one();
        for j in (0..k).rev() {
            out[j] = pre[j] * suf * self.inv_den[j];
            suf *= x - self.xs[j];
        }
        out
    }
}

fn dot<F: Nf>(a: &[F], b: &[F]) -> F {
    let mut s = F::zero();
    for (x, y) in a.iter().zip(b) {
        s += *x * *y;
    }
    s
}

fn interp_for_domain<F: Nf>(ctx: &mut Ctx, d: &Dom<F>) -> Option<Interp<F>> {
    let ninv = n_inv::<F>(ctx, d.n)?;
    let fast = Interp::new_roots(d, ninv);
    if d.n <= 128 {
        let slow = Interp::new(&d.pw);
        assert!(slow.inv_den == fast.inv_den, "oracle self-check: closed-form denominators wrong");
    }
    Some(fast)
}

// ---------------------------------------------------------------------------------------------
// poly_eval_lagrange_batched, poly_interpret_eval
// ---------------------------------------------------------------------------------------------

fn eval_points<F: Nf>(ctx: &mut Ctx, d: &Dom<F>, d2: Option<&Dom<F>>, rng: &mut Rng64, all_nodes: bool) -> Vec<(F, &'static str)> {
    let n = d.n;
    let mut xs: Vec<(F, &'static str)> = vec![
        (F::zero(), "other"),
        (F::from_small(2), "other"),
        (F::zero() - F::from_small(2), "other"),
        (rand_elem::<F>(rng), "other"),
        (rand_elem::<F>(rng), "other"),
        (rand_elem::<F>(rng), "other"),
    ];
    let node_idx: Vec<usize> = if all_nodes {
        (0..n).collect()
    } else {
        let mut s = vec![0, 1 % n, n / 2, n - 1];
        for _ in 0..12 {
            s.push(rng.usize_below(n));
        }
        s.sort();
        s.dedup();
        s
    };
    for &i in &node_idx {
        xs.push((d.pw[i], "node"));
    }
    if let Some(d2) = d2 {
        for &i in &node_idx {
            xs.push((d2.pw[2 * i + 1], "doubled-node"));
        }
        if d2.logn + 1 <= 20 {
            if let Some(d4) = dom::<F>(ctx, d2.logn + 1) {
                xs.push((d4.pw[1], "other"));
                xs.push((d4.pw[d4.n - 1], "other"));
            }
        }
    } else {
        xs.push((F::one(), "node"));
    }
    xs
}

fn lagrange_eval<F: Nf>(ctx: &mut Ctx, item: &mut u64, lb: usize, lmax: usize) {
    for logn in 0..=lmax {
        let n = 1usize << logn;
        let basis = logn <= lb;
        let label = format!("eval/{}/{logn}", F::NAME);
        let mut grng = Rng64::derive(ctx.seed, &["C10", &label], 0);
        // The list of evaluation points is the same on all shards; points are the work items.
        let first_item = *item;
        let npoints = {
            // cheap upper bound known without building the domain: built below when needed
            let nodes = if basis && n <= 256 { n } else { 16.min(n) };
            6 + 2 * nodes + 2
        };
        let any_mine = (1..=npoints as u64).any(|k| ctx.mine(first_item + k));
        *item += npoints as u64;
        if !any_mine {
            continue;
        }
        let Some(d) = dom::<F>(ctx, logn) else { continue };
        let d2 = dom2::<F>(ctx, &d);
        let Some(ip) = interp_for_domain::<F>(ctx, &d) else { continue };
        let xs = eval_points::<F>(ctx, &d, d2.as_ref(), &mut grng, basis && n <= 256);
        assert!(xs.len() <= npoints);
        ctx.nontrivial(digest_str(&format!("poly_eval_lagrange_batched|{}|n=2^{logn}|{}", F::NAME, if basis { "basis" } else { "sampled" })));
        ctx.max("max_log2_size_lagrange_eval", logn as u64);
        for (k, (x, class)) in xs.iter().enumerate() {
            if !ctx.mine(first_item + 1 + k as u64) {
                continue;
            }
            let x = *x;
            let mut rng = Rng64::derive(ctx.seed, &["C10", &label, "pt"], k as u64);
            let l = ip.basis_at(x);
            ctx.count(&format!("lagrange_eval_points_{class}"));
            ctx.trace(|| format!("lagrange_eval {label} point {k} ({class})"));
            // (a) unit vectors, batched 1..8 at a time
            let js: Vec<usize> = if basis {
                (0..n).collect()
            } else {
                let mut s = vec![0, 1, n / 2, n - 1];
                for _ in 0..4 {
                    s.push(rng.usize_below(n));
                }
                s
            };
            let mut pos = 0;
            let mut bsz = 1 + (k % 8);
            while pos < js.len() {
                let chunk = &js[pos..(pos + bsz).min(js.len())];
                pos += chunk.len();
                bsz = bsz % 8 + 1;
                let cs: Vec<F> = chunk.iter().map(|_| if rng.bool() { F::one() } else { rand_nonzero::<F>(&mut rng) }).collect();
                let polys: Vec<Vec<F>> = chunk
                    .iter()
                    .zip(&cs)
                    .map(|(&j, &c)| {
                        let mut p = vec![F::zero(); n];
                        p[j] = c;
                        p
                    })
                    .collect();
                ctx.eval();
                ctx.count_n("lagrange_eval_polys", polys.len() as u64);
                let wit = || json!({"field": F::NAME, "n": n, "x": dec(x), "x_class": class, "unit_indices": chunk, "coefficients": cs.iter().map(|c| dec(*c)).collect::<Vec<_>>()});
                match catch(|| hp::poly_eval_lagrange_batched(&polys, x)) {
                    Ok(got) => {
                        let bad = got.len() != polys.len() || (0..polys.len()).any(|t| got[t] != cs[t] * l[chunk[t]]);
                        if bad {
                            viol(
                                ctx,
                                "poly_eval_lagrange_batched",
                                F::NAME,
                                &format!("mismatch:unit:{class}"),
                                "batched Lagrange evaluation of unit vectors differs from the Lagrange basis polynomial L_j(x)",
                                wit(),
                            );
                        }
                    }
                    Err(p) => viol(
                        ctx,
                        "poly_eval_lagrange_batched",
                        F::NAME,
                        &format!("panic-on-valid:{}", p.class()),
                        &format!("panicked: {} at {}", p.message, p.location),
                        wit(),
                    ),
                }
            }
            // (b) dense polynomials, batch of 1..3
            let b = 1 + k % 3;
            let polys: Vec<Vec<F>> = (0..b).map(|_| rand_vec::<F>(&mut rng, n)).collect();
            ctx.eval();
            ctx.count_n("lagrange_eval_polys", b as u64);
            let wit = || json!({"field": F::NAME, "n": n, "x": dec(x), "x_class": class, "gen": format!("{label}/pt/{k}"), "polys": polys.iter().map(|p| dec_vec(p)).collect::<Vec<_>>()});
            match catch(|| hp::poly_eval_lagrange_batched(&polys, x)) {
                Ok(got) => {
                    if got.len() != b || (0..b).any(|t| got[t] != dot(&polys[t], &l)) {
                        viol(
                            ctx,
                            "poly_eval_lagrange_batched",
                            F::NAME,
                            &format!("mismatch:dense:{class}"),
                            "batched Lagrange evaluation differs from interpolate-then-evaluate",
                            wit(),
                        );
                    }
                }
                Err(p) => viol(
                    ctx,
                    "poly_eval_lagrange_batched",
                    F::NAME,
                    &format!("panic-on-valid:{}", p.class()),
                    &format!("panicked: {} at {}", p.message, p.location),
                    wit(),
                ),
            }
            // (c) poly_interpret_eval on a dense vector and a few unit vectors (NTT-based route)
            if k % 4 == 0 || *class == "node" && k % 16 == 1 {
                let mut tmp = vec![garbage::<F>(); n + (k % 2)];
                let mut cases: Vec<(Vec<F>, F)> = vec![(polys[0].clone(), dot(&polys[0], &l))];
                for &j in js.iter().take(4) {
                    let mut p = vec![F::zero(); n];
                    p[j] = F::one();
                    cases.push((p, l[j]));
                }
                for (pts, want) in cases {
                    ctx.eval();
                    ctx.count("poly_interpret_eval_cases");
                    let wit = || json!({"field": F::NAME, "n": n, "x": dec(x), "x_class": class, "points": dec_vec(&pts), "gen": format!("{label}/pt/{k}")});
                    match catch(|| hp::poly_interpret_eval(&pts, x, &mut tmp)) {
                        Ok(got) => {
                            if got != want {
                                viol(
                                    ctx,
                                    "poly_interpret_eval",
                                    F::NAME,
                                    &format!("mismatch:{class}"),
                                    "poly_interpret_eval differs from interpolate-then-evaluate",
                                    wit(),
                                );
                            }
                        }
                        Err(p) => viol(
                            ctx,
                            "poly_interpret_eval",
                            F::NAME,
                            &format!("panic-on-valid:{}", p.class()),
                            &format!("panicked: {} at {}", p.message, p.location),
                            wit(),
                        ),
                    }
                }
            }
            if k == 7 && logn == 2 {
                ctx.sample(|| json!({"part": "poly_eval_lagrange_batched", "field": F::NAME, "n": n, "x": dec(x), "x_class": class}));
            }
        }
    }
}

// ---------------------------------------------------------------------------------------------
// extend_values_to_power_of_2
// ---------------------------------------------------------------------------------------------

fn extend_case<F: Nf>(ctx: &mut Ctx, d: &Dom<F>, k: usize, basis: bool, label: &str) {
    let n = d.n;
    let seed = ctx.seed;
    let mut rng = Rng64::derive(seed, &["C10", label], k as u64);
    ctx.count("extend_partial_length_cases");
    if k < n {
        ctx.count("extend_partial_length_cases_proper");
    }
    let mut inputs: Vec<(Vec<F>, Value)> = vec![];
    if basis {
        for j in 0..k {
            let c = if j % 2 == 0 { F::one() } else { rand_nonzero::<F>(&mut rng) };
            let mut v = vec![F::zero(); k];
            v[j] = c;
            inputs.push((v, json!({"unit_index": j, "coefficient": dec(c)})));
        }
    } else {
        for j in [0, k / 2, k.saturating_sub(1)] {
            if j < k {
                let mut v = vec![F::zero(); k];
                v[j] = F::one();
                inputs.push((v, json!({"unit_index": j, "coefficient": "1"})));
            }
        }
    }
    for r in 0..2 {
        let v = rand_vec::<F>(&mut rng, k);
        let desc = json!({"gen": format!("{label}/{k}/dense{r}"), "values": dec_vec(&v)});
        inputs.push((v, desc));
    }
    // Run the library on every input first ...
    let mut outputs: Vec<Option<Vec<F>>> = vec![];
    for (vals, desc) in &inputs {
        let mut poly = vals.clone();
        // The tail is documented as overwritten: fill it with garbage.
        for _ in k..n {
            poly.push(rand_elem::<F>(&mut rng));
        }
        ctx.eval();
        match catch(|| {
            hp::extend_values_to_power_of_2(&mut poly, k);
            poly
        }) {
            Ok(poly) => {
                if poly.len() != n || poly[..k] != vals[..] {
                    viol(
                        ctx,
                        "extend_values_to_power_of_2",
                        F::NAME,
                        "given-values-changed",
                        "the given evaluations were modified",
                        json!({"field": F::NAME, "n": n, "num_values": k, "values": desc, "seed": seed}),
                    );
                    outputs.push(None);
                } else {
                    outputs.push(Some(poly));
                }
            }
            Err(p) => {
                viol(
                    ctx,
                    "extend_values_to_power_of_2",
                    F::NAME,
                    &format!("panic-on-valid:{}", p.class()),
                    &format!("panicked: {} at {}", p.message, p.location),
                    json!({"field": F::NAME, "n": n, "num_values": k, "values": desc, "seed": seed}),
                );
                outputs.push(None);
            }
        }
    }
    // ... then compare position by position with L_j(w^t) over the nodes w^0..w^(k-1).
    let ip = if k > 0 { Some(Interp::new(&d.pw[..k])) } else { None };
    for t in k..n {
        let row: Vec<F> = match &ip {
            Some(ip) => ip.basis_at(d.pw[t]),
            None => vec![],
        };
        for (idx, (vals, desc)) in inputs.iter().enumerate() {
            let Some(poly) = &outputs[idx] else { continue };
            let want = dot(vals, &row);
            if poly[t] != want {
                viol(
                    ctx,
                    "extend_values_to_power_of_2",
                    F::NAME,
                    if k == 0 { "mismatch:num_values=0" } else { "mismatch" },
                    "extension differs from evaluating the unique polynomial of degree < num_values through the given values",
                    json!({"field": F::NAME, "n": n, "num_values": k, "values": desc, "seed": seed,
                           "detail": {"index": t, "got": dec(poly[t]), "want": dec(want)}}),
                );
                outputs[idx] = None;
            }
        }
    }
}

fn lagrange_extend<F: Nf>(ctx: &mut Ctx, item: &mut u64, lb: usize, lmax: usize) {
    for logn in 0..=lmax {
        let n = 1usize << logn;
        let basis = logn <= lb;
        let ks: Vec<usize> = if basis {
            (0..=n).collect()
        } else {
            let mut rng = Rng64::derive(ctx.seed, &["C10", "extend-ks", F::NAME], logn as u64);
            let mut s = vec![0, 1, 2, n / 2 - 1, n / 2, n / 2 + 1, n - 2, n - 1, n];
            for _ in 0..7 {
                s.push(rng.usize_below(n + 1));
            }
            s.sort();
            s.dedup();
            s
        };
        let mine: Vec<usize> = ks
            .into_iter()
            .filter(|_| {
                *item += 1;
                ctx.mine(*item)
            })
            .collect();
        if mine.is_empty() {
            continue;
        }
        let Some(d) = dom::<F>(ctx, logn) else { continue };
        ctx.nontrivial(digest_str(&format!("extend_values|{}|n=2^{logn}|{}", F::NAME, if basis { "basis" } else { "sampled" })));
        ctx.max("max_log2_size_extend", logn as u64);
        let label = format!("extend/{}/{logn}", F::NAME);
        for k in mine {
            ctx.trace(|| format!("extend {label} k={k}"));
            extend_case::<F>(ctx, &d, k, basis, &label);
            if logn == 3 && k == 5 {
                ctx.sample(|| json!({"part": "extend_values_to_power_of_2", "field": F::NAME, "n": n, "num_values": k, "inputs": "5 unit vectors + 2 random"}));
            }
        }
    }
}

// ---------------------------------------------------------------------------------------------
// double_evaluations, poly_mul_lagrange
// ---------------------------------------------------------------------------------------------

fn call_double<F: Nf>(ev: &[F], alloc: bool) -> Result<Result<Vec<F>, NttError>, PanicInfo> {
    catch(|| {
        if alloc {
            hp::get_double_evaluations(ev)
        } else {
            let mut o = vec![garbage::<F>(); 2 * ev.len()];
            hp::double_evaluations(&mut o, ev).map(|_| o)
        }
    })
}

fn call_mul<F: Nf>(p: &[F], q: &[F]) -> Result<Result<Vec<F>, NttError>, PanicInfo> {
    catch(|| {
        let mut o = vec![garbage::<F>(); 2 * p.len()];
        hp::poly_mul_lagrange(&mut o, p, q).map(|_| o)
    })
}

fn report_bad_outcome<F: Nf, T>(ctx: &mut Ctx, routine: &str, r: Result<Result<T, NttError>, PanicInfo>, wit: &dyn Fn() -> Value) -> Option<T> {
    match r {
        Ok(Ok(v)) => Some(v),
        Ok(Err(e)) => {
            viol(ctx, routine, F::NAME, &format!("err-on-valid:{e:?}"), "admissible sizes were refused", wit());
            None
        }
        Err(p) => {
            viol(
                ctx,
                routine,
                F::NAME,
                &format!("panic-on-valid:{}", p.class()),
                &format!("panicked: {} at {}", p.message, p.location),
                wit(),
            );
            None
        }
    }
}

/// Basis-exhaustive: the full matrix D[t][j] = L_j(w_2n^t) is computed; double_evaluations is
/// compared on every unit vector, poly_mul_lagrange on every PAIR of unit vectors (bilinear).
fn lagrange_double_mul_basis<F: Nf>(ctx: &mut Ctx, item: &mut u64, lb: usize, lb_mul: usize) {
    for logn in 0..=lb {
        let n = 1usize << logn;
        // items: one per unit index i (double_evaluations of e_i, and products e_i * e_j for all j)
        let mine: Vec<usize> = (0..n)
            .filter(|_| {
                *item += 1;
                ctx.mine(*item)
            })
            .collect();
        if mine.is_empty() {
            continue;
        }
        let Some(d) = dom::<F>(ctx, logn) else { continue };
        let Some(d2) = dom2::<F>(ctx, &d) else { continue };
        let Some(ip) = interp_for_domain::<F>(ctx, &d) else { continue };
        let dm: Vec<Vec<F>> = (0..2 * n).map(|t| ip.basis_at(d2.pw[t])).collect();
        ctx.nontrivial(digest_str(&format!("double_evaluations|{}|n=2^{logn}|basis", F::NAME)));
        if logn <= lb_mul {
            ctx.nontrivial(digest_str(&format!("poly_mul_lagrange|{}|n=2^{logn}|basis-pairs", F::NAME)));
        }
        let label = format!("dbl/{}/{logn}", F::NAME);
        for i in mine {
            let mut rng = Rng64::derive(ctx.seed, &["C10", &label], i as u64);
            let a = if i % 2 == 0 { F::one() } else { rand_nonzero::<F>(&mut rng) };
            let mut p = vec![F::zero(); n];
            p[i] = a;
            for alloc in [false, true] {
                ctx.eval();
                let wit = || json!({"field": F::NAME, "n": n, "unit_index": i, "coefficient": dec(a), "api": if alloc {"get_double_evaluations"} else {"double_evaluations"}});
                if let Some(o) = report_bad_outcome::<F, _>(ctx, "double_evaluations", call_double::<F>(&p, alloc), &wit) {
                    if o.len() != 2 * n || (0..2 * n).any(|t| o[t] != a * dm[t][i]) {
                        viol(
                            ctx,
                            "double_evaluations",
                            F::NAME,
                            "mismatch:unit",
                            "doubling differs from evaluating the interpolated polynomial on the 2n-th roots of unity",
                            wit(),
                        );
                    }
                    ctx.count("double_evaluations_vectors_compared");
                }
            }
            // a dense vector as well
            if i % 8 == 0 {
                let v = rand_vec::<F>(&mut rng, n);
                ctx.eval();
                let wit = || json!({"field": F::NAME, "n": n, "gen": format!("{label}/{i}"), "values": dec_vec(&v)});
                if let Some(o) = report_bad_outcome::<F, _>(ctx, "double_evaluations", call_double::<F>(&v, false), &wit) {
                    if (0..2 * n).any(|t| o[t] != dot(&v, &dm[t])) {
                        viol(ctx, "double_evaluations", F::NAME, "mismatch:dense", "doubling differs from interpolate-then-evaluate", wit());
                    }
                    ctx.count("double_evaluations_vectors_compared");
                }
            }
            if logn > lb_mul {
                continue;
            }
            for j in 0..n {
                let b = if (i + j) % 3 == 0 { F::one() } else { rand_nonzero::<F>(&mut rng) };
                let mut q = vec![F::zero(); n];
                q[j] = b;
                ctx.eval();
                let wit = || json!({"field": F::NAME, "n": n, "p": {"unit_index": i, "coefficient": dec(a)}, "q": {"unit_index": j, "coefficient": dec(b)}});
                if let Some(o) = report_bad_outcome::<F, _>(ctx, "poly_mul_lagrange", call_mul::<F>(&p, &q), &wit) {
                    let ab = a * b;
                    if (0..2 * n).any(|t| o[t] != ab * dm[t][i] * dm[t][j]) {
                        viol(
                            ctx,
                            "poly_mul_lagrange",
                            F::NAME,
                            "mismatch:unit-pair",
                            "Lagrange product differs from the product of the interpolated polynomials on the 2n-th roots of unity",
                            wit(),
                        );
                    }
                    ctx.count("poly_mul_pairs_compared");
                }
            }
            if i == 0 {
                let pv = rand_vec::<F>(&mut rng, n);
                let qv = rand_vec::<F>(&mut rng, n);
                ctx.eval();
                let wit = || json!({"field": F::NAME, "n": n, "gen": format!("{label}/0/mul"), "p": dec_vec(&pv), "q": dec_vec(&qv)});
                if let Some(o) = report_bad_outcome::<F, _>(ctx, "poly_mul_lagrange", call_mul::<F>(&pv, &qv), &wit) {
                    if (0..2 * n).any(|t| o[t] != dot(&pv, &dm[t]) * dot(&qv, &dm[t])) {
                        viol(ctx, "poly_mul_lagrange", F::NAME, "mismatch:dense", "Lagrange product differs from interpolate-multiply-evaluate", wit());
                    }
                    ctx.count("poly_mul_pairs_compared");
                }
                if logn == 2 {
                    ctx.sample(|| json!({"part": "poly_mul_lagrange", "field": F::NAME, "n": n, "p": dec_vec(&pv), "q": dec_vec(&qv)}));
                }
            }
        }
    }
}

/// Larger sizes: dense + unit inputs compared at sampled points of the doubled domain.
fn lagrange_double_mul_sampled<F: Nf>(ctx: &mut Ctx, item: &mut u64, lfrom: usize, lmax: usize) {
    for logn in lfrom..=lmax.min(19) {
        let n = 1usize << logn;
        let reps = if logn > 14 { ctx.budget(1, 4) } else { ctx.budget(2, 4) };
        for rep in 0..reps {
            *item += 1;
            if !ctx.mine(*item) {
                continue;
            }
            let Some(d) = dom::<F>(ctx, logn) else { continue };
            let Some(d2) = dom2::<F>(ctx, &d) else { continue };
            let Some(ip) = interp_for_domain::<F>(ctx, &d) else { continue };
            let label = format!("dbl-large/{}/{logn}/{rep}", F::NAME);
            ctx.trace(|| label.clone());
            let mut rng = Rng64::derive(ctx.seed, &["C10", &label], 0);
            let pv = rand_vec::<F>(&mut rng, n);
            let qv = rand_vec::<F>(&mut rng, n);
            let j = rng.usize_below(n);
            let mut uv = vec![F::zero(); n];
            uv[j] = F::one();
            let mut ts = vec![0usize, 1, 2, 3, n - 1, n, n + 1, 2 * n - 2, 2 * n - 1];
            for _ in 0..7 {
                ts.push(rng.usize_below(2 * n));
            }
            ts.sort();
            ts.dedup();
            let dp = report_bad_outcome::<F, _>(ctx, "double_evaluations", call_double::<F>(&pv, rep % 2 == 1), &|| json!({"field": F::NAME, "n": n, "gen": label}));
            let du = report_bad_outcome::<F, _>(ctx, "double_evaluations", call_double::<F>(&uv, false), &|| json!({"field": F::NAME, "n": n, "unit_index": j}));
            let mu = report_bad_outcome::<F, _>(ctx, "poly_mul_lagrange", call_mul::<F>(&pv, &qv), &|| json!({"field": F::NAME, "n": n, "gen": label}));
            ctx.evals(3);
            for &t in &ts {
                let l = ip.basis_at(d2.pw[t]);
                let pt = dot(&pv, &l);
                let qt = dot(&qv, &l);
                if let Some(o) = &dp {
                    if o.len() != 2 * n || o[t] != pt {
                        viol(ctx, "double_evaluations", F::NAME, "mismatch:dense", "doubling differs from interpolate-then-evaluate",
                             json!({"field": F::NAME, "n": n, "gen": label, "index": t, "seed": ctx.seed}));
                    }
                }
                if let Some(o) = &du {
                    if o.len() != 2 * n || o[t] != l[j] {
                        viol(ctx, "double_evaluations", F::NAME, "mismatch:unit", "doubling differs from evaluating the interpolated polynomial on the 2n-th roots of unity",
                             json!({"field": F::NAME, "n": n, "unit_index": j, "coefficient": "1", "index": t}));
                    }
                }
                if let Some(o) = &mu {
                    if o.len() != 2 * n || o[t] != pt * qt {
                        viol(ctx, "poly_mul_lagrange", F::NAME, "mismatch:dense", "Lagrange product differs from interpolate-multiply-evaluate",
                             json!({"field": F::NAME, "n": n, "gen": label, "index": t, "seed": ctx.seed}));
                    }
                }
            }
            ctx.count_n("double_evaluations_vectors_compared", 2);
            ctx.count("poly_mul_pairs_compared");
            ctx.max("max_log2_size_double_mul", logn as u64);
            ctx.nontrivial(digest_str(&format!("double_mul|{}|n=2^{logn}|sampled", F::NAME)));
        }
    }
}

// ---------------------------------------------------------------------------------------------
// Size / capacity violations
// ---------------------------------------------------------------------------------------------

fn expect_err<F: Nf>(ctx: &mut Ctx, tf: Tf, class: &str, inp: &[F], size: usize, outp_len: usize) {
    ctx.eval();
    let wit = || json!({"field": F::NAME, "routine": tf.name(), "size": size.to_string(), "output_len": outp_len, "input_len": inp.len(), "class": class});
    match call_tf::<F>(tf, inp, size, outp_len) {
        Ok(Err(e)) => {
            ctx.count("size_violations_refused");
            ctx.set_insert("size_violation_errors", format!("{}:{class}:{e:?}", tf.name()));
        }
        Ok(Ok(_)) => viol(
            ctx,
            tf.name(),
            F::NAME,
            &format!("size-violation-accepted:{class}"),
            "a size/capacity violation returned Ok instead of an error",
            wit(),
        ),
        Err(p) => viol(
            ctx,
            tf.name(),
            F::NAME,
            &format!("size-violation-panics:{class}:{}", p.class()),
            &format!("a size/capacity violation panicked instead of returning an error: {} at {}", p.message, p.location),
            wit(),
        ),
    }
}

fn errors<F: Nf>(ctx: &mut Ctx, item: &mut u64) {
    let mut rng = Rng64::derive(ctx.seed, &["C10", "errors", F::NAME], 0);
    let inp: Vec<F> = rand_vec::<F>(&mut rng, 4);
    let slice_tfs = [Tf::Ntt, Tf::SetS, Tf::Inv];
    let all_tfs = [Tf::Ntt, Tf::SetS, Tf::Inv, Tf::GetNtt, Tf::GetInv];
    // (a) not a power of two, output large enough
    let mut npot: Vec<usize> = vec![3, 5, 6, 7, 9, 12, 15, 17, 24, 100, 1000, 3 << 18];
    for k in [10usize, 16, 19, 20] {
        npot.push((1 << k) - 1);
        npot.push((1 << k) + 1);
    }
    for &size in &npot {
        for tf in all_tfs {
            *item += 1;
            if ctx.mine(*item) {
                expect_err::<F>(ctx, tf, "not-power-of-two", &inp, size, size);
            }
        }
    }
    // (b) beyond capacity: 2^21 (2^20 for the shifted transform), output large enough
    for tf in all_tfs {
        let sizes: &[usize] = if ctx.quick() { &[1 << 21] } else { &[1 << 21, 1 << 22] };
        for &size in sizes {
            *item += 1;
            if ctx.mine(*item) {
                expect_err::<F>(ctx, tf, "beyond-capacity", &inp, size, size);
            }
        }
    }
    *item += 1;
    if ctx.mine(*item) {
        expect_err::<F>(ctx, Tf::SetS, "beyond-capacity-shifted-2^20", &inp, 1 << 20, 1 << 20);
    }
    // (c) output shorter than size
    for size in [1usize, 2, 4, 64, 1024, 1 << 19, 1 << 20] {
        for outp_len in [0usize, size - 1, size / 2] {
            for tf in slice_tfs {
                *item += 1;
                if ctx.mine(*item) {
                    expect_err::<F>(ctx, tf, "output-too-small", &inp, size, outp_len);
                }
            }
        }
    }
    // (d) absurd sizes with a small output buffer (no allocation involved)
    for size in [1usize << 32, (1 << 32) + 1, 1 << 40, 1 << 63, usize::MAX - 1, usize::MAX] {
        for tf in slice_tfs {
            *item += 1;
            if ctx.mine(*item) {
                expect_err::<F>(ctx, tf, "huge-size", &inp, size, 8);
            }
        }
    }
    // (e) positive controls at the capacity boundary: 2^20 plain, 2^19 shifted, must be Ok and right
    for (tf, logn) in [(Tf::Ntt, 20usize), (Tf::Inv, 20), (Tf::SetS, 19)] {
        *item += 1;
        if !ctx.mine(*item) {
            continue;
        }
        let Some(d) = dom::<F>(ctx, logn) else { continue };
        let n = d.n;
        let j = 1 + rng.usize_below(n - 1);
        let c = rand_nonzero::<F>(&mut rng);
        let mut v = vec![F::zero(); n];
        v[j] = c;
        let wit = || json!({"field": F::NAME, "routine": tf.name(), "size": n, "input": {"unit_index": j, "coefficient": dec(c)}});
        if let Some(o) = admissible::<F>(ctx, tf, &v, n, n, &wit) {
            let ok = match tf {
                Tf::Ntt => (0..n).all(|i| o[i] == c * d.pw[(i * j) % n]),
                Tf::Inv => {
                    let Some(ninv) = n_inv::<F>(ctx, n) else { continue };
                    (0..n).all(|i| o[i] == c * ninv * d.pw[(n - (i * j) % n) % n])
                }
                _ => {
                    let Some(d2) = dom2::<F>(ctx, &d) else { continue };
                    (0..n).all(|i| o[i] == c * d2.pw[((2 * i + 1) * j) % (2 * n)])
                }
            };
            if !ok {
                viol(ctx, tf.name(), F::NAME, "mismatch:unit", "transform at the capacity boundary differs from direct evaluation", wit());
            }
            ctx.count("capacity_boundary_controls_ok");
        }
    }
    // (f) Lagrange routines that report sizes through NttError
    *item += 1;
    if ctx.mine(*item) {
        let cases: Vec<(usize, usize, &str)> = vec![
            (3, 6, "not-power-of-two"),
            (5, 10, "not-power-of-two"),
            (12, 24, "not-power-of-two"),
            (4, 7, "output-len-mismatch"),
            (4, 4, "output-len-mismatch"),
            (4, 9, "output-len-mismatch"),
            (8, 0, "output-len-mismatch"),
        ];
        for (n, outl, class) in cases {
            let ev = rand_vec::<F>(&mut rng, n);
            ctx.eval();
            let r = catch(|| {
                let mut o = vec![garbage::<F>(); outl];
                hp::double_evaluations(&mut o, &ev)
            });
            match r {
                Ok(Ok(())) => viol(
                    ctx,
                    "double_evaluations",
                    F::NAME,
                    &format!("size-violation-accepted:{class}"),
                    "a size violation returned Ok instead of an error",
                    json!({"field": F::NAME, "evaluations_len": n, "output_len": outl}),
                ),
                Ok(Err(_)) => ctx.count("size_violations_refused"),
                Err(p) => viol(
                    ctx,
                    "double_evaluations",
                    F::NAME,
                    &format!("size-violation-panics:{class}:{}", p.class()),
                    &format!("a size violation panicked instead of returning an error: {} at {}", p.message, p.location),
                    json!({"field": F::NAME, "evaluations_len": n, "output_len": outl}),
                ),
            }
            if n.is_power_of_two() {
                // poly_mul_lagrange forwards the same check
                let q = rand_vec::<F>(&mut rng, n);
                ctx.eval();
                let r = catch(|| {
                    let mut o = vec![garbage::<F>(); outl];
                    hp::poly_mul_lagrange(&mut o, &ev, &q)
                });
                match r {
                    Ok(Ok(())) => viol(
                        ctx,
                        "poly_mul_lagrange",
                        F::NAME,
                        &format!("size-violation-accepted:{class}"),
                        "a size violation returned Ok instead of an error",
                        json!({"field": F::NAME, "p_len": n, "output_len": outl}),
                    ),
                    Ok(Err(_)) => ctx.count("size_violations_refused"),
                    Err(p) => viol(
                        ctx,
                        "poly_mul_lagrange",
                        F::NAME,
                        &format!("size-violation-panics:{class}:{}", p.class()),
                        &format!("an output-length violation panicked instead of returning an error: {} at {}", p.message, p.location),
                        json!({"field": F::NAME, "p_len": n, "output_len": outl}),
                    ),
                }
            }
        }
    }
    // capacity: doubling 2^20 evaluations would need the 2^21-th roots
    *item += 1;
    if ctx.mine(*item) {
        let ev = vec![F::one(); 1 << 20];
        ctx.eval();
        match call_double::<F>(&ev, false) {
            Ok(Err(e)) => {
                ctx.count("size_violations_refused");
                ctx.set_insert("size_violation_errors", format!("double_evaluations:beyond-capacity:{e:?}"));
            }
            Ok(Ok(_)) => viol(
                ctx,
                "double_evaluations",
                F::NAME,
                "size-violation-accepted:beyond-capacity",
                "doubling 2^20 evaluations returned Ok",
                json!({"field": F::NAME, "evaluations_len": 1 << 20}),
            ),
            Err(p) => viol(
                ctx,
                "double_evaluations",
                F::NAME,
                &format!("size-violation-panics:beyond-capacity:{}", p.class()),
                &format!("doubling 2^20 evaluations panicked: {} at {}", p.message, p.location),
                json!({"field": F::NAME, "evaluations_len": 1 << 20}),
            ),
        }
    }
    // (g) size 1 with an empty coefficient vector: shorter inputs are zero-padded for every
    //     other size, so this is the zero polynomial.
    for tf in all_tfs {
        *item += 1;
        if !ctx.mine(*item) {
            continue;
        }
        ctx.eval();
        let wit = || json!({"field": F::NAME, "routine": tf.name(), "size": 1, "input": [], "output_len": 1});
        match call_tf::<F>(tf, &[], 1, 1) {
            Ok(Ok(o)) => {
                if o.len() != 1 || o[0] != F::zero() {
                    viol(ctx, tf.name(), F::NAME, "mismatch:empty-input-size-1", "transform of the zero polynomial is not zero", wit());
                }
                ctx.count("ntt_short_input_cases");
            }
            Ok(Err(e)) => viol(ctx, tf.name(), F::NAME, &format!("err-on-valid:empty-input-size-1:{e:?}"), "size 1 refused", wit()),
            Err(p) => {
                // One root cause in the generic `ntt_internal` (all routines, all fields): one
                // signature; the affected (routine, field) pairs are listed in a set.
                ctx.set_insert("empty_input_size_1_panics", format!("{}/{}", tf.name(), F::NAME));
                ctx.violation(
                    format!("transforms|size=1,empty-input|panic:{}", p.class()),
                    format!("size-1 transform of an empty coefficient vector panicked (sizes >= 2 zero-pad short inputs): {} at {}", p.message, p.location),
                    wit(),
                );
            }
        }
    }
    // sizes >= 2 with an empty input: zero polynomial, positive control for (g)
    for tf in all_tfs {
        *item += 1;
        if !ctx.mine(*item) {
            continue;
        }
        for size in [2usize, 8] {
            let wit = || json!({"field": F::NAME, "routine": tf.name(), "size": size, "input": []});
            if let Some(o) = admissible::<F>(ctx, tf, &[], size, size, &wit) {
                if o[..size].iter().any(|x| *x != F::zero()) {
                    viol(ctx, tf.name(), F::NAME, "mismatch:empty-input", "transform of the zero polynomial is not zero", wit());
                }
                ctx.count("ntt_short_input_cases");
            }
        }
    }
}

// ---------------------------------------------------------------------------------------------
// Monomial-basis helpers used by the routines above (textbook definitions only)
// ---------------------------------------------------------------------------------------------

fn monomial<F: Nf>(ctx: &mut Ctx, item: &mut u64) {
    let cases = ctx.budget(40, 400);
    for case in 0..cases {
        *item += 1;
        if !ctx.mine(*item) {
            continue;
        }
        let mut rng = Rng64::derive(ctx.seed, &["C10", "monomial", F::NAME], case);
        let la = 1 + rng.usize_below(12);
        let lb = 1 + rng.usize_below(12);
        let mut p = rand_vec::<F>(&mut rng, la);
        let mut q = rand_vec::<F>(&mut rng, lb);
        // trailing / interior zeros
        if rng.chance(1, 3) {
            let z = rng.usize_below(la + 1);
            for v in p.iter_mut().skip(la - z) {
                *v = F::zero();
            }
        }
        if rng.chance(1, 4) {
            let i = rng.usize_below(lb);
            q[i] = F::zero();
        }
        let x = rand_elem::<F>(&mut rng);
        let wit = || json!({"field": F::NAME, "p": dec_vec(&p), "q": dec_vec(&q), "x": dec(x)});
        // poly_eval_monomial == sum p_i x^i
        let naive = |c: &[F], x: F| {
            let mut s = F::zero();
            let mut xp = F::one();
            for ci in c {
                s += *ci * xp;
                xp *= x;
            }
            s
        };
        ctx.evals(3);
        match catch(|| (hp::poly_eval_monomial(&p, x), hp::poly_deg(&p), hp::poly_mul_monomial(&p, &q))) {
            Ok((ev, deg, prod)) => {
                if ev != naive(&p, x) {
                    viol(ctx, "poly_eval_monomial", F::NAME, "mismatch", "differs from sum p_i x^i", wit());
                }
                let want_deg = p.iter().rposition(|c| *c != F::zero()).unwrap_or(0);
                if deg != want_deg {
                    viol(ctx, "poly_deg", F::NAME, "mismatch", "differs from the index of the last non-zero coefficient", wit());
                }
                let mut conv = vec![F::zero(); la + lb - 1];
                for i in 0..la {
                    for j in 0..lb {
                        conv[i + j] += p[i] * q[j];
                    }
                }
                let len = conv.len().max(prod.len());
                let at = |v: &[F], i: usize| v.get(i).copied().unwrap_or(F::zero());
                if (0..len).any(|i| at(&conv, i) != at(&prod, i)) {
                    viol(ctx, "poly_mul_monomial", F::NAME, "mismatch", "differs from the schoolbook product (as polynomials)", wit());
                }
                ctx.count("monomial_cases");
            }
            Err(pn) => viol(
                ctx,
                "monomial-helpers",
                F::NAME,
                &format!("panic-on-valid:{}", pn.class()),
                &format!("panicked: {} at {}", pn.message, pn.location),
                wit(),
            ),
        }
        // poly_range_check(start, end): monic, degree end - start, roots exactly start..end
        let start = rng.usize_below(200);
        let end = start + rng.usize_below(24);
        ctx.eval();
        let wit = || json!({"field": F::NAME, "start": start, "end": end});
        match catch(|| hp::poly_range_check::<F>(start, end)) {
            Ok(rc) => {
                let mut ok = rc.len() == end - start + 1 && rc[end - start] == F::one();
                for i in start..end {
                    ok &= naive(&rc, F::from_small(i as u64)) == F::zero();
                }
                ok &= naive(&rc, F::from_small(end as u64)) != F::zero();
                if start > 0 {
                    ok &= naive(&rc, F::from_small(start as u64 - 1)) != F::zero();
                }
                if !ok {
                    viol(ctx, "poly_range_check", F::NAME, "mismatch", "not the monic polynomial with roots exactly start..end", wit());
                }
            }
            Err(pn) => viol(
                ctx,
                "poly_range_check",
                F::NAME,
                &format!("panic-on-valid:{}", pn.class()),
                &format!("panicked: {} at {}", pn.message, pn.location),
                wit(),
            ),
        }
    }
}

// ---------------------------------------------------------------------------------------------

fn run_field<F: Nf>(ctx: &mut Ctx, item: &mut u64) {
    // basis-exhaustive bound / largest size, by tier
    let lb_tf = ctx.budget(9, 11) as usize;
    let ldense_tf = ctx.budget(16, 20) as usize;
    let lmax_tf = 20usize;
    let lb_eval = ctx.budget(8, 9) as usize;
    let lmax_eval = ctx.budget(17, 20) as usize;
    let lb_ext = ctx.budget(7, 8) as usize;
    let lmax_ext = ctx.budget(11, 12) as usize;
    let lb_dbl = ctx.budget(9, 10) as usize;
    let lb_mul = ctx.budget(7, 9) as usize;
    let lmax_dbl = 19usize; // every size in both tiers: integer-width limits (n^2, 2n) bite only at the top sizes

    let prof = std::env::var("C10_PROFILE").is_ok();
    let mut t = std::time::Instant::now();
    let mut lap = |name: &str| {
        if prof {
            eprintln!("PROFILE {} {name}: {:.2}s", F::NAME, t.elapsed().as_secs_f64());
        }
        t = std::time::Instant::now();
    };
    transforms::<F>(ctx, item, lb_tf, ldense_tf, lmax_tf);
    lap("transforms");
    root_powers::<F>(ctx, item);
    lap("root_powers");
    lagrange_eval::<F>(ctx, item, lb_eval, lmax_eval);
    lap("lagrange_eval");
    lagrange_extend::<F>(ctx, item, lb_ext, lmax_ext);
    lap("lagrange_extend");
    lagrange_double_mul_basis::<F>(ctx, item, lb_dbl, lb_mul);
    lap("double_mul_basis");
    lagrange_double_mul_sampled::<F>(ctx, item, lb_dbl + 1, lmax_dbl);
    lap("double_mul_sampled");
    errors::<F>(ctx, item);
    lap("errors");
    monomial::<F>(ctx, item);
    lap("monomial");
    ctx.set_insert(
        "basis_exhaustive_bounds",
        format!(
            "{}: transforms n<=2^{lb_tf} (dense sampled to 2^{ldense_tf}, unit vectors to 2^{lmax_tf}), batched eval n<=2^{lb_eval} (all nodes n<=256), extend n<=2^{lb_ext} (every k), doubling n<=2^{lb_dbl}, product pairs n<=2^{lb_mul}",
            F::NAME
        ),
    );
}

pub fn run(ctx: &mut Ctx) {
    let mut item = 0u64;
    run_field::<Field64>(ctx, &mut item);
    run_field::<Field128>(ctx, &mut item);
    run_field::<FieldPrio2>(ctx, &mut item);
    // Exhaustive in the sense of DESIGN.md C10: for the sizes listed in `basis_exhaustive_bounds`
    // the routines (linear / bilinear maps) were compared on a complete basis of their input space.
    ctx.exhaustive = Some(true);
}
