//! C11: seed streams are chunking-independent; field sampling follows the spec exactly.
//!
//! Part 1 (metamorphic): for every XOF, the byte stream is a function of
//! (seed, concat(dst parts), concat(binder parts)) only. One canonical execution (single dst part,
//! single `update`, one big read) is compared with executions that split dst / binder differently
//! (incl. empty parts, `clone` in the middle, the `seed_stream` convenience function, the
//! `XofFixedKeyAes128Key` factory) and that read with other size sequences (all (a, b) with
//! a + b <= 48, random 0..70-byte reads up to 4 KiB, coarse reads, `next_u32` / `next_u64` mixed
//! in); `into_seed` must equal the first SEED_SIZE bytes.
//!
//! Part 2 (reference model): spec-level rejection sampling (next ENCODED_SIZE bytes little-endian,
//! clear the bits above the modulus length, discard when >= p) written here over `BigUint`, applied
//! to the very bytes the library consumed. The library side is driven with a scripted `Rng`
//! (public `IntoFieldVec` accepts any `Rng`) whose streams put rejected chunks at every chunk
//! position 0..70 -- before, at and after the refill of the 32-element look-ahead buffer of `Prng`
//! -- singly, doubly and in runs; plus `IdpfValue::generate`, `Poplar1IdpfValue::generate`,
//! `StandardUniform` sampling and `try_from_random`, plus the real XOF streams.

use crate::common::*;
use num_bigint::BigUint;
use num_traits::{One, Zero};
use prio::field::{Field128, Field255, Field64, FieldElement, FieldPrio2};
use prio::idpf::IdpfValue;
use prio::vdaf::poplar1::Poplar1IdpfValue;
use prio::vdaf::xof::{
    IntoFieldVec, SeedStreamAes128, SeedStreamTurboShake128, Xof, XofFixedKeyAes128, XofFixedKeyAes128Key,
    XofHmacSha256Aes128, XofTurboShake128,
};
use prio::codec::Encode;
use rand::RngExt;
use rand_core::{Rng, SeedableRng, TryRng};
use serde_json::{json, Value};
use std::convert::Infallible;

// ---------------------------------------------------------------------------------------------
// Part 1: streams
// ---------------------------------------------------------------------------------------------

#[derive(Clone, Copy, PartialEq, Eq, Debug)]
enum Kind {
    Turbo,
    FixedInit,
    FixedKey,
    Hmac,
    /// `SeedStreamAes128::new(key, iv)`: no dst / binder; seed = key || iv.
    Aes,
    /// `SeedStreamTurboShake128::from_seed`: documented as XofTurboShake128 with empty dst and binder.
    TurboSeedable,
}

const KINDS: [Kind; 6] = [Kind::Turbo, Kind::FixedInit, Kind::FixedKey, Kind::Hmac, Kind::Aes, Kind::TurboSeedable];

impl Kind {
    fn name(&self) -> &'static str {
        match self {
            Kind::Turbo => "XofTurboShake128",
            Kind::FixedInit => "XofFixedKeyAes128",
            Kind::FixedKey => "XofFixedKeyAes128Key",
            Kind::Hmac => "XofHmacSha256Aes128",
            Kind::Aes => "SeedStreamAes128",
            Kind::TurboSeedable => "SeedStreamTurboShake128::from_seed",
        }
    }
    fn seed_size(&self) -> usize {
        match self {
            Kind::FixedInit | Kind::FixedKey => 16,
            _ => 32,
        }
    }
    fn has_info(&self) -> bool {
        !matches!(self, Kind::Aes | Kind::TurboSeedable)
    }
    /// Documented dst limits (over-long dst is a documented panic, outside the property).
    fn max_dst(&self) -> usize {
        match self {
            Kind::Hmac => 255,
            _ => 600,
        }
    }
    /// Which kind produces the canonical stream this kind must equal.
    fn canonical(&self) -> Kind {
        match self {
            Kind::FixedKey => Kind::FixedInit,
            Kind::TurboSeedable => Kind::Turbo,
            k => *k,
        }
    }
}

/// How the XOF object is driven.
#[derive(Clone, Copy, Debug)]
enum Style {
    /// `init(seed, dst_parts)`, one `update` per binder part, `into_seed_stream`.
    InitUpdate,
    /// `Xof::seed_stream(seed, dst_parts, binder_parts)`.
    SeedStreamFn,
    /// like InitUpdate but the object is cloned after `clone_at` updates and the clone continues.
    CloneMid(usize),
}

fn drive<X: Xof<S>, const S: usize>(seed: &[u8], dst: &[&[u8]], binder: &[&[u8]], style: Style) -> X::SeedStream {
    let seed: &[u8; S] = seed.try_into().unwrap();
    match style {
        Style::InitUpdate => {
            let mut x = X::init(seed, dst);
            for b in binder {
                x.update(b);
            }
            x.into_seed_stream()
        }
        Style::SeedStreamFn => X::seed_stream(seed, dst, binder),
        Style::CloneMid(at) => {
            let mut x = X::init(seed, dst);
            let at = at.min(binder.len());
            for b in &binder[..at] {
                x.update(b);
            }
            let mut y = x.clone();
            // advance the original differently: the clone must be unaffected
            x.update(b"divergent");
            for b in &binder[at..] {
                y.update(b);
            }
            y.into_seed_stream()
        }
    }
}

fn derive_seed<X: Xof<S>, const S: usize>(seed: &[u8], dst: &[&[u8]], binder: &[&[u8]]) -> Vec<u8> {
    let seed: &[u8; S] = seed.try_into().unwrap();
    let mut x = X::init(seed, dst);
    for b in binder {
        x.update(b);
    }
    x.into_seed().as_ref().to_vec()
}

fn make_stream(kind: Kind, seed: &[u8], dst: &[&[u8]], binder: &[&[u8]], style: Style) -> Box<dyn Rng> {
    match kind {
        Kind::Turbo => Box::new(drive::<XofTurboShake128, 32>(seed, dst, binder, style)),
        Kind::FixedInit => Box::new(drive::<XofFixedKeyAes128, 16>(seed, dst, binder, style)),
        Kind::Hmac => Box::new(drive::<XofHmacSha256Aes128, 32>(seed, dst, binder, style)),
        Kind::FixedKey => {
            let b: Vec<u8> = binder.concat();
            let key = XofFixedKeyAes128Key::new(dst, &b);
            let seed: &[u8; 16] = seed.try_into().unwrap();
            if let Style::CloneMid(_) = style {
                // one key, several seeds: an earlier stream from the same key must not matter
                let mut other = key.with_seed(&[0x5a; 16]);
                let mut sink = [0u8; 23];
                other.fill_bytes(&mut sink);
            }
            Box::new(key.with_seed(seed))
        }
        Kind::Aes => {
            let key: &[u8; 16] = seed[..16].try_into().unwrap();
            let iv: &[u8; 16] = seed[16..].try_into().unwrap();
            Box::new(SeedStreamAes128::new(key, iv))
        }
        Kind::TurboSeedable => {
            let s: [u8; 32] = seed.try_into().unwrap();
            Box::new(SeedStreamTurboShake128::from_seed(s))
        }
    }
}

fn into_seed_of(kind: Kind, seed: &[u8], dst: &[&[u8]], binder: &[&[u8]]) -> Option<Vec<u8>> {
    match kind {
        Kind::Turbo => Some(derive_seed::<XofTurboShake128, 32>(seed, dst, binder)),
        Kind::FixedInit => Some(derive_seed::<XofFixedKeyAes128, 16>(seed, dst, binder)),
        Kind::Hmac => Some(derive_seed::<XofHmacSha256Aes128, 32>(seed, dst, binder)),
        _ => None,
    }
}

/// Split `data` into `parts` pieces (some possibly empty).
fn split(rng: &mut Rng64, data: &[u8], parts: usize) -> Vec<Vec<u8>> {
    if parts == 0 {
        assert!(data.is_empty());
        return vec![];
    }
    let mut cuts: Vec<usize> = (0..parts - 1)
        .map(|_| match rng.below(4) {
            0 => 0,
            1 => data.len(),
            _ => rng.usize_below(data.len() + 1),
        })
        .collect();
    cuts.sort();
    let mut out = vec![];
    let mut prev = 0;
    for c in cuts {
        out.push(data[prev..c].to_vec());
        prev = c;
    }
    out.push(data[prev..].to_vec());
    out
}

fn refs(v: &[Vec<u8>]) -> Vec<&[u8]> {
    v.iter().map(|x| x.as_slice()).collect()
}

#[derive(Clone, Copy, Debug)]
enum Op {
    Fill(usize),
    U32,
    U64,
}

/// Execute a read-size sequence; returns the bytes obtained (words are taken little-endian, the
/// `rand_core` convention that `next_word_via_fill` implements).
fn read_ops(s: &mut dyn Rng, ops: &[Op]) -> Vec<u8> {
    let mut out = vec![];
    for op in ops {
        match op {
            Op::Fill(k) => {
                let mut b = vec![0xa5u8; *k];
                s.fill_bytes(&mut b);
                out.extend_from_slice(&b);
            }
            Op::U32 => out.extend_from_slice(&s.next_u32().to_le_bytes()),
            Op::U64 => out.extend_from_slice(&s.next_u64().to_le_bytes()),
        }
    }
    out
}

struct Case {
    kind: Kind,
    seed: Vec<u8>,
    dst: Vec<u8>,
    binder: Vec<u8>,
}

impl Case {
    fn witness(&self) -> Value {
        json!({"xof": self.kind.name(), "seed": hex(&self.seed), "dst": hex(&self.dst), "binder": hex(&self.binder)})
    }
    fn canonical(&self, n: usize) -> Result<Vec<u8>, PanicInfo> {
        let k = self.kind.canonical();
        catch(|| {
            let mut s = make_stream(k, &self.seed, &[&self.dst], &[&self.binder], Style::InitUpdate);
            let mut b = vec![0u8; n];
            s.fill_bytes(&mut b);
            b
        })
    }
}

fn gen_case(rng: &mut Rng64, kind: Kind) -> Case {
    let seed = match rng.below(8) {
        0 => vec![0u8; kind.seed_size()],
        1 => vec![0xffu8; kind.seed_size()],
        _ => rng.bytes(kind.seed_size()),
    };
    if !kind.has_info() {
        return Case { kind, seed, dst: vec![], binder: vec![] };
    }
    let dst_len = match rng.below(10) {
        0 => 0,
        1 => 1,
        2 => *rng.choose(&[15usize, 16, 17, 31, 32, 33, 166, 167, 168, 169, 254, 255]),
        3 => kind.max_dst(),
        _ => rng.usize_below(80),
    }
    .min(kind.max_dst());
    let binder_len = match rng.below(10) {
        0 => 0,
        1 => 1,
        2 => *rng.choose(&[15usize, 16, 17, 31, 32, 33, 63, 64, 65, 127, 128, 129, 135, 166, 167, 168, 169, 335, 336, 337]),
        3 => rng.usize_below(1200),
        _ => rng.usize_below(100),
    };
    Case { kind, seed, dst: rng.bytes(dst_len), binder: rng.bytes(binder_len) }
}

fn stream_violation(ctx: &mut Ctx, case: &Case, what_sig: &str, what: &str, extra: Value) {
    let mut w = case.witness();
    w["detail"] = extra;
    ctx.violation(format!("stream|{}|{what_sig}", case.kind.name()), what.to_string(), w);
}

/// Compare one variant execution with the canonical prefix.
fn check_variant(
    ctx: &mut Ctx,
    case: &Case,
    canon: &[u8],
    sig: &str,
    what: &str,
    detail: &dyn Fn() -> Value,
    f: impl FnOnce() -> Vec<u8>,
) {
    ctx.eval();
    ctx.count("stream_comparisons");
    match catch(f) {
        Ok(got) => {
            assert!(got.len() <= canon.len(), "harness: canonical stream too short");
            if got[..] != canon[..got.len()] {
                let at = (0..got.len()).find(|&i| got[i] != canon[i]).unwrap();
                let mut d = detail();
                d["first_difference_at_byte"] = json!(at);
                d["got"] = json!(hex_trunc(&got[at..], 32));
                d["want"] = json!(hex_trunc(&canon[at..got.len()], 32));
                stream_violation(ctx, case, sig, what, d);
            }
        }
        Err(p) => {
            let mut d = detail();
            d["panic"] = json!(format!("{} at {}", p.message, p.location));
            stream_violation(ctx, case, &format!("{sig}|panic:{}", p.class()), "seed stream operation panicked", d);
        }
    }
}

fn splitting_checks(ctx: &mut Ctx, rng: &mut Rng64, case: &Case, canon: &[u8]) {
    let kind = case.kind;
    let n = 96 + rng.usize_below(160);
    let variants = if kind.has_info() { 4 } else { 1 };
    for v in 0..variants {
        let dparts = if case.dst.is_empty() && rng.bool() { 0 } else { 1 + rng.usize_below(5) };
        let bparts = if case.binder.is_empty() && rng.bool() { 0 } else { 1 + rng.usize_below(6) };
        let d = split(rng, &case.dst, dparts);
        let b = split(rng, &case.binder, bparts);
        let style = match (v + rng.usize_below(2)) % 3 {
            0 => Style::InitUpdate,
            1 => Style::SeedStreamFn,
            _ => Style::CloneMid(rng.usize_below(bparts + 1)),
        };
        if d.iter().any(|p| p.is_empty()) || b.iter().any(|p| p.is_empty()) {
            ctx.count("splittings_with_empty_parts");
        }
        let sig = match style {
            Style::InitUpdate => "splitting",
            Style::SeedStreamFn => "splitting-via-seed_stream",
            Style::CloneMid(_) => {
                if kind == Kind::FixedKey {
                    "key-reuse"
                } else {
                    "splitting-with-clone"
                }
            }
        };
        let sig = if kind.canonical() != kind { format!("{sig}|vs-{}", kind.canonical().name()) } else { sig.to_string() };
        let detail = || {
            json!({"dst_part_lengths": d.iter().map(|p| p.len()).collect::<Vec<_>>(),
                   "binder_part_lengths": b.iter().map(|p| p.len()).collect::<Vec<_>>(),
                   "style": format!("{style:?}"), "read": n})
        };
        check_variant(
            ctx,
            case,
            canon,
            &sig,
            "stream differs although (seed, concat(dst), concat(binder)) are identical",
            &detail,
            || {
                let mut s = make_stream(kind, &case.seed, &refs(&d), &refs(&b), style);
                let mut out = vec![0u8; n];
                s.fill_bytes(&mut out);
                out
            },
        );
        ctx.nontrivial(digest(&[kind.name().as_bytes(), b"split", &(dparts as u64).to_le_bytes(), &(bparts as u64).to_le_bytes(), format!("{style:?}").as_bytes()]));
    }
    // into_seed == first SEED_SIZE bytes
    if kind.has_info() && kind != Kind::FixedKey {
        let d = vec![case.dst.clone()];
        let b = vec![case.binder.clone()];
        let detail = || json!({"op": "into_seed"});
        check_variant(
            ctx,
            case,
            canon,
            "into_seed",
            "into_seed() is not the first SEED_SIZE bytes of the stream",
            &detail,
            || into_seed_of(kind, &case.seed, &refs(&d), &refs(&b)).unwrap(),
        );
        ctx.count("into_seed_comparisons");
    }
}

fn ops_total(ops: &[Op]) -> usize {
    ops.iter()
        .map(|o| match o {
            Op::Fill(k) => *k,
            Op::U32 => 4,
            Op::U64 => 8,
        })
        .sum()
}

fn read_check(ctx: &mut Ctx, rng: &mut Rng64, case: &Case, canon: &[u8], ops: &[Op], sig: &str) {
    let kind = case.kind;
    // dst / binder are passed exactly as in the canonical execution: only the reads differ
    let _ = &rng;
    let d = vec![case.dst.clone()];
    let b = vec![case.binder.clone()];
    let detail = || {
        let shown: Vec<String> = ops.iter().take(200).map(|o| format!("{o:?}")).collect();
        json!({"reads": shown, "total_reads": ops.len()})
    };
    let sig = if kind.canonical() != kind { format!("{sig}|vs-{}", kind.canonical().name()) } else { sig.to_string() };
    check_variant(
        ctx,
        case,
        canon,
        &sig,
        "stream bytes depend on the sizes of successive reads",
        &detail,
        || {
            let (d, b) = if kind.has_info() { (refs(&d), refs(&b)) } else { (vec![], vec![]) };
            let mut s = make_stream(kind, &case.seed, &d, &b, Style::InitUpdate);
            read_ops(&mut *s, ops)
        },
    );
}

fn streams(ctx: &mut Ctx, item: &mut u64) {
    let n_split = ctx.budget(2_400, 12_000);
    let n_pairs = ctx.budget(40, 300);
    let n_rand = ctx.budget(600, 3_000);
    for kind in KINDS {
        // (1) splittings + into_seed
        for c in 0..n_split {
            *item += 1;
            if !ctx.mine(*item) {
                continue;
            }
            let mut rng = Rng64::derive(ctx.seed, &["C11", "split", kind.name()], c);
            let case = gen_case(&mut rng, kind);
            ctx.trace(|| format!("split {} {c}", kind.name()));
            let Ok(canon) = case.canonical(256) else {
                stream_violation(ctx, &case, "canonical|panic", "building the canonical stream panicked", json!(null));
                continue;
            };
            splitting_checks(ctx, &mut rng, &case, &canon);
            if c == 0 {
                ctx.sample(|| json!({"part": "stream-splitting", "case": case.witness()}));
            }
        }
        // (2) all (a, b) with a + b <= 48, then a third read
        for c in 0..n_pairs {
            let mut rng = Rng64::derive(ctx.seed, &["C11", "pairs", kind.name()], c);
            let case = gen_case(&mut rng, kind);
            let mut canon: Option<Vec<u8>> = None;
            for a in 0..=48usize {
                *item += 1;
                if !ctx.mine(*item) {
                    continue;
                }
                if canon.is_none() {
                    match case.canonical(128) {
                        Ok(cn) => canon = Some(cn),
                        Err(_) => {
                            stream_violation(ctx, &case, "canonical|panic", "building the canonical stream panicked", json!(null));
                            break;
                        }
                    }
                }
                let cn = canon.as_ref().unwrap();
                for b in 0..=(48 - a) {
                    let third = 1 + (a * 7 + b * 3) % 40;
                    read_check(ctx, &mut rng, &case, cn, &[Op::Fill(a), Op::Fill(b), Op::Fill(third)], "read-sizes");
                    ctx.count("read_pair_comparisons");
                }
            }
            ctx.nontrivial(digest(&[kind.name().as_bytes(), b"pairs", &c.to_le_bytes()]));
        }
        // (3) random sequences of 0..70-byte reads up to 4 KiB; coarse reads; word reads mixed in
        for c in 0..n_rand {
            *item += 1;
            if !ctx.mine(*item) {
                continue;
            }
            let mut rng = Rng64::derive(ctx.seed, &["C11", "seq", kind.name()], c);
            let case = gen_case(&mut rng, kind);
            let flavour = c % 4;
            let (limit, maxread) = match flavour {
                3 => (20_000usize, 700usize),
                _ => (4096, 70),
            };
            let mut ops = vec![];
            let mut total = 0;
            while total < limit {
                let op = match flavour {
                    0 => Op::Fill(rng.usize_below(maxread + 1)),
                    1 => match rng.below(4) {
                        0 => Op::U32,
                        1 => Op::U64,
                        _ => Op::Fill(rng.usize_below(maxread + 1)),
                    },
                    2 => {
                        // biased to block-size neighbours
                        Op::Fill(*rng.choose(&[0usize, 1, 7, 8, 9, 15, 16, 17, 31, 32, 33, 47, 48, 49, 63, 64, 65, 70]))
                    }
                    _ => Op::Fill(rng.usize_below(maxread + 1)),
                };
                total += ops_total(&[op]);
                ops.push(op);
            }
            let Ok(canon) = case.canonical(total) else {
                stream_violation(ctx, &case, "canonical|panic", "building the canonical stream panicked", json!(null));
                continue;
            };
            ctx.trace(|| format!("seq {} {c}", kind.name()));
            read_check(ctx, &mut rng, &case, &canon, &ops, if flavour == 1 { "read-sizes-with-words" } else { "read-sizes" });
            ctx.count("read_sequence_comparisons");
            ctx.max("longest_read_sequence_bytes", total as u64);
            ctx.nontrivial(digest(&[kind.name().as_bytes(), b"seq", &c.to_le_bytes()]));
        }
    }
}

// ---------------------------------------------------------------------------------------------
// Part 2: rejection sampling
// ---------------------------------------------------------------------------------------------

pub trait SField: FieldElement {
    const NAME: &'static str;
    /// Bit length of the modulus.
    const BITS: u64;
    fn p() -> BigUint;
}
impl SField for FieldPrio2 {
    const NAME: &'static str = "FieldPrio2";
    const BITS: u64 = 32;
    fn p() -> BigUint {
        BigUint::from(4293918721u64)
    }
}
impl SField for Field64 {
    const NAME: &'static str = "Field64";
    const BITS: u64 = 64;
    fn p() -> BigUint {
        BigUint::from(18446744069414584321u64)
    }
}
impl SField for Field128 {
    const NAME: &'static str = "Field128";
    const BITS: u64 = 128;
    fn p() -> BigUint {
        BigUint::from(340282366920938462946865773367900766209u128)
    }
}
impl SField for Field255 {
    const NAME: &'static str = "Field255";
    const BITS: u64 = 255;
    fn p() -> BigUint {
        (BigUint::one() << 255u32) - 19u32
    }
}

fn le_bytes(v: &BigUint, n: usize) -> Vec<u8> {
    let mut b = v.to_bytes_le();
    assert!(b.len() <= n);
    b.resize(n, 0);
    b
}

/// The spec: value of a chunk after clearing the bits above the modulus length.
fn masked<F: SField>(chunk: &[u8]) -> BigUint {
    let v = BigUint::from_bytes_le(chunk);
    let mask = (BigUint::one() << F::BITS) - 1u32;
    v & mask
}

struct RefOut {
    /// canonical little-endian encodings of the accepted elements
    elems: Vec<Vec<u8>>,
    /// chunks consumed (accepted + rejected) to produce them
    consumed: usize,
    /// chunk indices that were rejected among the consumed ones
    rejected: Vec<usize>,
}

/// Spec-level rejection sampling of `n` elements from `stream`.
fn ref_sample<F: SField>(stream: &[u8], n: usize) -> Option<RefOut> {
    let es = F::ENCODED_SIZE;
    let p = F::p();
    let mut out = RefOut { elems: vec![], consumed: 0, rejected: vec![] };
    let mut pos = 0;
    while out.elems.len() < n {
        if pos + es > stream.len() {
            return None;
        }
        let v = masked::<F>(&stream[pos..pos + es]);
        if v < p {
            out.elems.push(le_bytes(&v, es));
        } else {
            out.rejected.push(out.consumed);
        }
        out.consumed += 1;
        pos += es;
    }
    Some(out)
}

fn enc<F: SField>(x: &F) -> Vec<u8> {
    (*x).into()
}

/// A scripted random source: serves the crafted bytes in order and records what was pulled.
struct ScriptRng {
    data: Vec<u8>,
    pos: usize,
    fills: Vec<usize>,
    word_reads: u64,
    overrun: bool,
}

impl ScriptRng {
    fn new(data: Vec<u8>) -> Self {
        ScriptRng { data, pos: 0, fills: vec![], word_reads: 0, overrun: false }
    }
}

impl TryRng for ScriptRng {
    type Error = Infallible;
    fn try_fill_bytes(&mut self, dst: &mut [u8]) -> Result<(), Infallible> {
        self.fills.push(dst.len());
        for b in dst.iter_mut() {
            if self.pos < self.data.len() {
                *b = self.data[self.pos];
            } else {
                *b = 0;
                self.overrun = true;
            }
            self.pos += 1;
        }
        Ok(())
    }
    fn try_next_u32(&mut self) -> Result<u32, Infallible> {
        self.word_reads += 1;
        let mut b = [0u8; 4];
        self.try_fill_bytes(&mut b)?;
        Ok(u32::from_le_bytes(b))
    }
    fn try_next_u64(&mut self) -> Result<u64, Infallible> {
        self.word_reads += 1;
        let mut b = [0u8; 8];
        self.try_fill_bytes(&mut b)?;
        Ok(u64::from_le_bytes(b))
    }
}

#[derive(Clone, Copy, Debug, PartialEq)]
enum Ck {
    // accepted
    AccRandom,
    AccPMinus1,
    AccZero,
    AccOne,
    /// Field255 only: raw value >= 2^255 (so >= p as a 256-bit integer) that is < p once the top
    /// bit is cleared.
    AccOnlyAfterMask,
    // rejected
    RejP,
    RejPPlus1,
    RejAllOnes,
    RejRandom,
    /// Field255 only: rejected value with the (cleared) top bit set as well.
    RejTopBitSet,
}

const REJ_KINDS: [Ck; 5] = [Ck::RejP, Ck::RejPPlus1, Ck::RejAllOnes, Ck::RejRandom, Ck::RejTopBitSet];

fn rand_below(rng: &mut Rng64, bound: &BigUint) -> BigUint {
    let nbytes = (bound.bits() as usize).div_ceil(8) + 8;
    BigUint::from_bytes_le(&rng.bytes(nbytes)) % bound
}

fn craft<F: SField>(rng: &mut Rng64, ck: Ck) -> Vec<u8> {
    let es = F::ENCODED_SIZE;
    let p = F::p();
    let top = BigUint::one() << F::BITS; // 2^bits
    let has_spare_bit = (es as u64) * 8 > F::BITS;
    let v = match ck {
        Ck::AccRandom => rand_below(rng, &p),
        Ck::AccPMinus1 => &p - 1u32,
        Ck::AccZero => BigUint::zero(),
        Ck::AccOne => BigUint::one(),
        Ck::AccOnlyAfterMask => {
            let base = match rng.below(3) {
                0 => &p - 1u32,
                1 => BigUint::zero(),
                _ => rand_below(rng, &p),
            };
            if has_spare_bit {
                base + &top
            } else {
                base
            }
        }
        Ck::RejP => p.clone(),
        Ck::RejPPlus1 => &p + 1u32,
        Ck::RejAllOnes => &top - 1u32,
        Ck::RejRandom => &p + rand_below(rng, &(&top - &p)),
        Ck::RejTopBitSet => {
            let base = &p + rand_below(rng, &(&top - &p));
            if has_spare_bit {
                base + &top
            } else {
                base
            }
        }
    };
    le_bytes(&v, es)
}

fn pos_class(pos: usize) -> &'static str {
    match (pos / 32, pos % 32) {
        (0, 0) => "stream_start",
        (_, 0) => "first_slot_after_refill",
        (_, 31) => "last_slot_before_refill",
        (0, _) => "first_buffer_interior",
        _ => "later_buffer_interior",
    }
}

/// A plan: which chunk positions are rejected (with which kind) and the last chunk the reference
/// has to consume.
struct Plan {
    rejects: Vec<(usize, Ck)>,
    /// index of the last chunk to be consumed (an accepted one); None => n = 0
    end: Option<usize>,
    family: &'static str,
}

fn build_script<F: SField>(rng: &mut Rng64, plan: &Plan) -> (Vec<u8>, usize) {
    let total = plan.end.map(|e| e + 1).unwrap_or(0).max(plan.rejects.iter().map(|r| r.0 + 1).max().unwrap_or(0)) + 40;
    let mut kinds: Vec<Ck> = (0..total)
        .map(|_| match rng.below(10) {
            0 => Ck::AccPMinus1,
            1 => Ck::AccZero,
            2 => Ck::AccOne,
            3 | 4 => Ck::AccOnlyAfterMask,
            _ => Ck::AccRandom,
        })
        .collect();
    for (pos, ck) in &plan.rejects {
        kinds[*pos] = *ck;
    }
    let mut n = 0;
    if let Some(e) = plan.end {
        assert!(!REJ_KINDS.contains(&kinds[e]), "plan end must be an accepted chunk");
        n = kinds[..=e].iter().filter(|k| !REJ_KINDS.contains(k)).count();
    }
    let mut data = Vec::with_capacity(total * F::ENCODED_SIZE);
    for k in kinds {
        data.extend_from_slice(&craft::<F>(rng, k));
    }
    (data, n)
}

fn sampling_violation<F: SField>(ctx: &mut Ctx, path: &str, sig: &str, what: &str, data: &[u8], n: usize, r: &RefOut, extra: Value) {
    ctx.violation(
        format!("sampling|{path}|{}|{sig}", F::NAME),
        what.to_string(),
        json!({"field": F::NAME, "path": path, "stream": hex(data), "length": n, "rejected_chunk_positions": r.rejected, "chunks_consumed_by_spec": r.consumed, "detail": extra}),
    );
}

fn compare_elems<F: SField>(ctx: &mut Ctx, path: &str, got: &[Vec<u8>], data: &[u8], n: usize, r: &RefOut) -> bool {
    if got.len() != r.elems.len() {
        sampling_violation::<F>(ctx, path, "wrong-length", "number of elements differs from the requested length", data, n, r, json!({"got_len": got.len()}));
        return false;
    }
    if let Some(i) = (0..n).find(|&i| got[i] != r.elems[i]) {
        sampling_violation::<F>(
            ctx,
            path,
            "mismatch",
            "sampled elements differ from spec-level rejection sampling of the same byte stream",
            data,
            n,
            r,
            json!({"first_bad_element": i, "got": hex(&got[i]), "want": hex(&r.elems[i])}),
        );
        return false;
    }
    true
}

fn run_plan<F: SField>(ctx: &mut Ctx, rng: &mut Rng64, plan: &Plan) {
    let es = F::ENCODED_SIZE;
    let (data, n) = build_script::<F>(rng, plan);
    let r = ref_sample::<F>(&data, n).expect("script long enough");
    if let Some(e) = plan.end {
        assert_eq!(r.consumed, e + 1);
    }
    // --- Prng path (into_field_vec) ---
    ctx.eval();
    ctx.count("scripted_samplings");
    let mut script = ScriptRng::new(data.clone());
    let res = catch(|| {
        let v: Vec<F> = (&mut script).into_field_vec(n);
        v.iter().map(enc::<F>).collect::<Vec<_>>()
    });
    match res {
        Ok(got) => {
            let pulled: usize = script.fills.iter().sum();
            if compare_elems::<F>(ctx, "into_field_vec", &got, &data, n, &r) {
                if pulled < r.consumed * es {
                    sampling_violation::<F>(ctx, "into_field_vec", "fewer-bytes-pulled-than-consumed", "output matches but fewer stream bytes were pulled than the spec consumes", &data, n, &r, json!({"pulled": pulled}));
                }
                for pos in &r.rejected {
                    ctx.count(&format!("rej_{}_{}", F::NAME, pos_class(*pos)));
                    ctx.count(&format!("rejections_{}", F::NAME));
                    ctx.count("rejections_consumed_prng_path");
                }
                if script.fills.len() > 1 {
                    ctx.count_n("prng_buffer_refills_observed", script.fills.len() as u64 - 1);
                }
                ctx.max("prng_max_lookahead_bytes", (pulled - r.consumed * es) as u64);
                ctx.max("max_rejections_in_one_sampling", r.rejected.len() as u64);
                ctx.set_insert("prng_fill_sizes", format!("{}:{:?}", F::NAME, script.fills.iter().take(3).collect::<Vec<_>>()));
            }
            if script.overrun {
                ctx.note("scripted stream overran (look-ahead larger than 40 chunks); zeros were served");
            }
        }
        Err(p) => sampling_violation::<F>(ctx, "into_field_vec", &format!("panic:{}", p.class()), &format!("panicked: {} at {}", p.message, p.location), &data, n, &r, json!(null)),
    }
    // --- generate_random path: IdpfValue::generate called n times on the same stream ---
    ctx.eval();
    let mut script = ScriptRng::new(data.clone());
    let res = catch(|| (0..n).map(|_| enc::<F>(&<F as IdpfValue>::generate(&mut script, &()))).collect::<Vec<_>>());
    match res {
        Ok(got) => {
            if compare_elems::<F>(ctx, "IdpfValue::generate", &got, &data, n, &r) {
                ctx.count_n("rejections_consumed_generate_path", r.rejected.len() as u64);
                let pulled: usize = script.fills.iter().sum();
                ctx.max("generate_max_lookahead_bytes", pulled.saturating_sub(r.consumed * es) as u64);
            }
        }
        Err(p) => sampling_violation::<F>(ctx, "IdpfValue::generate", &format!("panic:{}", p.class()), &format!("panicked: {} at {}", p.message, p.location), &data, n, &r, json!(null)),
    }
    // --- Poplar1IdpfValue::generate: pairs ---
    if n >= 2 {
        ctx.eval();
        let pairs = n / 2;
        let mut script = ScriptRng::new(data.clone());
        let res = catch(|| {
            let mut out = vec![];
            for _ in 0..pairs {
                let v = <Poplar1IdpfValue<F> as IdpfValue>::generate(&mut script, &());
                let b = v.get_encoded().unwrap();
                out.push(b[..es].to_vec());
                out.push(b[es..].to_vec());
            }
            out
        });
        let r2 = RefOut { elems: r.elems[..2 * pairs].to_vec(), consumed: r.consumed, rejected: r.rejected.clone() };
        match res {
            Ok(got) => {
                compare_elems::<F>(ctx, "Poplar1IdpfValue::generate", &got, &data, 2 * pairs, &r2);
            }
            Err(p) => sampling_violation::<F>(ctx, "Poplar1IdpfValue::generate", &format!("panic:{}", p.class()), &format!("panicked: {} at {}", p.message, p.location), &data, n, &r, json!(null)),
        }
    }
    ctx.nontrivial(digest(&[F::NAME.as_bytes(), plan.family.as_bytes(), format!("{:?}{:?}", plan.rejects, plan.end).as_bytes()]));
    ctx.count(&format!("plans_{}", plan.family));
}

/// `StandardUniform` sampling of the macro-generated fields goes through generate_random too.
trait UniformPath: SField {
    fn uniform(s: &mut ScriptRng) -> Option<Self>;
}
impl UniformPath for FieldPrio2 {
    fn uniform(s: &mut ScriptRng) -> Option<Self> {
        Some(s.random::<FieldPrio2>())
    }
}
impl UniformPath for Field64 {
    fn uniform(s: &mut ScriptRng) -> Option<Self> {
        Some(s.random::<Field64>())
    }
}
impl UniformPath for Field128 {
    fn uniform(s: &mut ScriptRng) -> Option<Self> {
        Some(s.random::<Field128>())
    }
}
impl UniformPath for Field255 {
    fn uniform(_: &mut ScriptRng) -> Option<Self> {
        None
    }
}

fn rej_kinds_for<F: SField>() -> Vec<Ck> {
    if (F::ENCODED_SIZE as u64) * 8 > F::BITS {
        REJ_KINDS.to_vec()
    } else {
        REJ_KINDS[..4].to_vec()
    }
}

fn sampling<F: SField + UniformPath>(ctx: &mut Ctx, item: &mut u64) {
    let rk = rej_kinds_for::<F>();
    let mut plans: Vec<Plan> = vec![];
    // no rejections: positive controls, every output length 0..=100
    for n in 0..=100usize {
        plans.push(Plan { rejects: vec![], end: n.checked_sub(1), family: "no_rejection" });
    }
    // single rejection at every position 0..=70, every rejection kind, two end points
    for q in 0..=70usize {
        for &k in &rk {
            plans.push(Plan { rejects: vec![(q, k)], end: Some(q + 1), family: "single" });
            plans.push(Plan { rejects: vec![(q, k)], end: Some(q + 30), family: "single" });
        }
        // rejected chunk present but beyond what is consumed (look-ahead only)
        plans.push(Plan { rejects: vec![(q + 1, rk[q % rk.len()])], end: Some(q), family: "unconsumed_rejection" });
    }
    // double rejections: adjacent and at distances that straddle the refill
    for q in 0..=70usize {
        for d in [1usize, 2, 31, 32, 33] {
            let k1 = rk[(q + d) % rk.len()];
            let k2 = rk[(q * 3 + d) % rk.len()];
            plans.push(Plan { rejects: vec![(q, k1), (q + d, k2)], end: Some(q + d + 1 + (q % 3)), family: "double" });
        }
    }
    // runs
    for len in [3usize, 4, 5, 8, 16, 30, 31, 32, 33, 34, 48, 63, 64, 65, 70, 100] {
        for q in [0usize, 1, 2, 15, 28, 29, 30, 31, 32, 33, 34, 60, 61, 62, 63, 64, 65, 70] {
            let rejects = (0..len).map(|i| (q + i, rk[(q + i) % rk.len()])).collect();
            plans.push(Plan { rejects, end: Some(q + len + (len % 2)), family: "run" });
        }
    }
    let fixed = plans.len();
    let extra = ctx.budget(36_000, 180_000) as usize;
    for idx in 0..fixed + extra {
        *item += 1;
        if !ctx.mine(*item) {
            continue;
        }
        let mut rng = Rng64::derive(ctx.seed, &["C11", "plan", F::NAME], idx as u64);
        ctx.trace(|| format!("plan {} {idx}", F::NAME));
        if idx < fixed {
            run_plan::<F>(ctx, &mut rng, &plans[idx]);
            if idx == 150 {
                let p = &plans[idx];
                ctx.sample(|| json!({"part": "scripted-sampling", "field": F::NAME, "family": p.family, "rejected_positions": p.rejects.iter().map(|r| r.0).collect::<Vec<_>>(), "end": p.end}));
            }
        } else {
            // random pattern
            let len = 1 + rng.usize_below(130);
            let (num, den) = *rng.choose(&[(1u64, 2u64), (1, 4), (1, 16), (3, 4)]);
            let mut rejects = vec![];
            let mut accepts = vec![];
            for pos in 0..len {
                if rng.chance(num, den) {
                    rejects.push((pos, *rng.choose(&rk)));
                } else {
                    accepts.push(pos);
                }
            }
            let end = if accepts.is_empty() || rng.chance(1, 20) { None } else { Some(*rng.choose(&accepts)) };
            let plan = Plan { rejects, end, family: "random_pattern" };
            run_plan::<F>(ctx, &mut rng, &plan);
        }
    }
    // try_from_random: the per-chunk rule itself, and StandardUniform sampling
    let n_chunks = ctx.budget(4_000, 20_000);
    for c in 0..n_chunks {
        *item += 1;
        if !ctx.mine(*item) {
            continue;
        }
        let mut rng = Rng64::derive(ctx.seed, &["C11", "chunk", F::NAME], c);
        let all = [Ck::AccRandom, Ck::AccPMinus1, Ck::AccZero, Ck::AccOne, Ck::AccOnlyAfterMask, Ck::RejP, Ck::RejPPlus1, Ck::RejAllOnes, Ck::RejRandom, Ck::RejTopBitSet];
        let ck = all[(c % all.len() as u64) as usize];
        let chunk = if c % 23 == 22 { rng.bytes(F::ENCODED_SIZE) } else { craft::<F>(&mut rng, ck) };
        let m = masked::<F>(&chunk);
        let want: Option<Vec<u8>> = if m < F::p() { Some(le_bytes(&m, F::ENCODED_SIZE)) } else { None };
        ctx.eval();
        ctx.count("try_from_random_chunks");
        let got = catch(|| F::try_from_random(&chunk).ok().map(|x| enc::<F>(&x)));
        let wit = || json!({"field": F::NAME, "chunk": hex(&chunk), "spec": want.as_ref().map(|w| hex(w))});
        match got {
            Ok(g) => {
                if g != want {
                    ctx.violation(
                        format!("sampling|try_from_random|{}|{}", F::NAME, if want.is_some() { "valid-chunk-mishandled" } else { "invalid-chunk-accepted" }),
                        "try_from_random disagrees with 'clear the bits above the modulus length, discard if >= p'",
                        wit(),
                    );
                }
                if want.is_none() {
                    ctx.count("try_from_random_rejections");
                }
            }
            Err(p) => ctx.violation(format!("sampling|try_from_random|{}|panic:{}", F::NAME, p.class()), format!("panicked: {} at {}", p.message, p.location), wit()),
        }
        // StandardUniform on a short scripted stream with this chunk first
        if c % 4 == 0 {
            let mut data = chunk.clone();
            for _ in 0..3 {
                let k = if rng.bool() { Ck::RejRandom } else { Ck::AccRandom };
                data.extend_from_slice(&craft::<F>(&mut rng, k));
            }
            data.extend_from_slice(&craft::<F>(&mut rng, Ck::AccRandom));
            let r = ref_sample::<F>(&data, 1).unwrap();
            let mut s = ScriptRng::new(data.clone());
            if let Ok(Some(x)) = catch(|| F::uniform(&mut s)) {
                ctx.eval();
                ctx.count("standard_uniform_samplings");
                compare_elems::<F>(ctx, "StandardUniform", &[enc::<F>(&x)], &data, 1, &r);
            }
        }
    }
}

/// Real XOF streams through `into_field_vec`: the reference is applied to the bytes of a canonical
/// one-shot read of the same stream.
fn real_streams<F: SField>(ctx: &mut Ctx, item: &mut u64) {
    let cases = ctx.budget(200, 1_200);
    for kind in KINDS {
        for c in 0..cases {
            *item += 1;
            if !ctx.mine(*item) {
                continue;
            }
            let mut rng = Rng64::derive(ctx.seed, &["C11", "real", kind.name(), F::NAME], c);
            let case = gen_case(&mut rng, kind);
            let n = match c % 6 {
                0 => rng.usize_below(4),
                1 => 31 + rng.usize_below(4),
                2 => 63 + rng.usize_below(4),
                3 => 1000 + rng.usize_below(3000),
                _ => rng.usize_below(101),
            };
            let es = F::ENCODED_SIZE;
            let Ok(canon) = case.canonical((2 * n + 64) * es) else { continue };
            let Some(r) = ref_sample::<F>(&canon, n) else {
                ctx.note("real stream: canonical read too short for the reference (astronomically unlikely)");
                continue;
            };
            ctx.eval();
            ctx.count("real_stream_samplings");
            let d = vec![case.dst.clone()];
            let b = vec![case.binder.clone()];
            let res = catch(|| {
                let (d, b) = if kind.has_info() { (refs(&d), refs(&b)) } else { (vec![], vec![]) };
                let s = make_stream(kind, &case.seed, &d, &b, Style::InitUpdate);
                let v: Vec<F> = s.into_field_vec(n);
                v.iter().map(enc::<F>).collect::<Vec<_>>()
            });
            let wit = |extra: Value| json!({"field": F::NAME, "case": case.witness(), "length": n, "detail": extra});
            match res {
                Ok(got) => {
                    let bad = if got.len() != n { Some(usize::MAX) } else { (0..n).find(|&i| got[i] != r.elems[i]) };
                    if let Some(i) = bad {
                        ctx.violation(
                            format!("sampling|into_field_vec-real-stream|{}|{}|mismatch", kind.name(), F::NAME),
                            "elements differ from spec-level rejection sampling of the stream's own bytes",
                            wit(json!({"first_bad_element": if i == usize::MAX { json!("length") } else { json!(i) }, "rejected_chunk_positions": r.rejected})),
                        );
                    }
                    ctx.count_n(&format!("real_stream_rejections_{}", F::NAME), r.rejected.len() as u64);
                }
                Err(p) => ctx.violation(
                    format!("sampling|into_field_vec-real-stream|{}|{}|panic:{}", kind.name(), F::NAME, p.class()),
                    format!("panicked: {} at {}", p.message, p.location),
                    wit(json!(null)),
                ),
            }
        }
    }
}

pub fn run(ctx: &mut Ctx) {
    let mut item = 0u64;
    streams(ctx, &mut item);
    sampling::<FieldPrio2>(ctx, &mut item);
    sampling::<Field64>(ctx, &mut item);
    sampling::<Field128>(ctx, &mut item);
    sampling::<Field255>(ctx, &mut item);
    real_streams::<FieldPrio2>(ctx, &mut item);
    real_streams::<Field64>(ctx, &mut item);
    real_streams::<Field128>(ctx, &mut item);
    real_streams::<Field255>(ctx, &mut item);
}
