//! C12: the ping-pong topology follows the specified state machine and survives restarts.
//!
//! Instruments: an order-/round-sensitive spy VDAF (`spy_vdaf.rs`), plus Prio3 (joint-rand and
//! not), Poplar1 (inner and leaf level, 2 rounds) and `dummy::Vdaf` (1..6 rounds).
//!
//! Per exchange (every ping-pong message and every persisted continuation crosses its wire
//! encoding, every library call is under the panic monitor):
//!  * history check: (sender, kind) sequence and final party states equal a small sequential model
//!    of draft-irtf-cfrg-vdaf-18 §5.7.1; message contents and output shares equal a direct
//!    broadcast execution of the same VDAF; the spy's combiner saw `[leader, helper]` of the right
//!    round exactly once per round;
//!  * fault plans: at a delivery point the correct message is preceded by faulty ones (replayed /
//!    reflected earlier messages, re-typed, tag byte changed, truncated, corrupted, emptied,
//!    extended); each must be refused (codec, routine or `evaluate` returns `Err`) without an
//!    output share, the parties' stored states stay usable, and the exchange then completes with
//!    the same messages and outputs as the fault-free one;
//!  * crash points: every continuation is encoded, decoded with the proper parameter and evaluated
//!    0..3 times (optionally the party resumes from the reloaded evaluation), during the exchange
//!    and again after it completed.

use crate::common::*;
use crate::spy_vdaf::{self as spy, Spy};
use prio::codec::{CodecError, Decode, Encode, ParameterizedDecode};
use prio::flp::Type;
use prio::idpf::IdpfInput;
use prio::topology::ping_pong::{Continued, PingPongContinuation, PingPongError, PingPongMessage, PingPongState, PingPongTopology};
use prio::vdaf::dummy;
use prio::vdaf::poplar1::{Poplar1, Poplar1AggregationParam};
use prio::vdaf::prio3::Prio3;
use prio::vdaf::test_utils::TestVectorClient;
use prio::vdaf::xof::{Xof, XofTurboShake128};
use prio::vdaf::{Aggregator, VerifyTransition};
use serde_json::{json, Value};
use std::fmt::Debug;

// =================================================================================================
// Reference model of the ping-pong state machine (draft-irtf-cfrg-vdaf-18 §5.7.1), kinds only.
// =================================================================================================

mod model {
    #[derive(Clone, Copy, Debug, PartialEq, Eq)]
    pub enum Kind {
        Initialize,
        Continue,
        Finish,
    }

    #[derive(Clone, Copy, Debug, PartialEq, Eq)]
    pub enum St {
        Continued,
        FinishedWithOutbound,
        Finished,
        Rejected,
    }

    /// One party running a VDAF with `total` verification rounds; `done` counts its `verify_next`
    /// calls (the n-th call returns an output share iff n == total).
    #[derive(Clone, Copy, Debug)]
    pub struct Party {
        pub done: usize,
        pub total: usize,
    }

    impl Party {
        /// `ping_pong_transition`: combine the round's shares, run `verify_next` on the result.
        fn transition(&mut self) -> (St, Option<Kind>) {
            self.done += 1;
            if self.done == self.total {
                (St::FinishedWithOutbound, Some(Kind::Finish))
            } else {
                (St::Continued, Some(Kind::Continue))
            }
        }

        /// `ping_pong_leader_init`.
        pub fn leader_init(total: usize) -> (Party, St, Option<Kind>) {
            (Party { done: 0, total }, St::Continued, Some(Kind::Initialize))
        }

        /// `ping_pong_helper_init`.
        pub fn helper_init(total: usize, inbound: Kind) -> (Party, St, Option<Kind>) {
            let mut p = Party { done: 0, total };
            if inbound != Kind::Initialize {
                return (p, St::Rejected, None);
            }
            let (s, m) = p.transition();
            (p, s, m)
        }

        /// `ping_pong_{leader,helper}_continued` (does not modify `self` when it rejects).
        pub fn continued(&mut self, inbound: Kind) -> (St, Option<Kind>) {
            if inbound == Kind::Initialize {
                return (St::Rejected, None);
            }
            let finished = self.done + 1 == self.total;
            match (finished, inbound) {
                (true, Kind::Finish) => {
                    self.done += 1;
                    (St::Finished, None)
                }
                (false, Kind::Continue) => {
                    self.done += 1;
                    self.transition()
                }
                _ => (St::Rejected, None),
            }
        }
    }

    /// The whole exchange: [(sender (0 leader / 1 helper), kind)], final states [leader, helper].
    pub fn exchange(total: usize) -> (Vec<(usize, Kind)>, [St; 2]) {
        let mut msgs = vec![];
        let (l, ls, lm) = Party::leader_init(total);
        let mut parties = [l, Party { done: 0, total }];
        let mut states = [ls, St::Rejected];
        let mut inflight = lm;
        let mut sender = 0usize;
        let mut first = true;
        while let Some(kind) = inflight {
            msgs.push((sender, kind));
            let recv = 1 - sender;
            let (s, m) = if first {
                first = false;
                let (p, s, m) = Party::helper_init(total, kind);
                parties[1] = p;
                (s, m)
            } else {
                parties[recv].continued(kind)
            };
            states[recv] = s;
            if s == St::Rejected {
                break;
            }
            inflight = m;
            sender = recv;
        }
        (msgs, states)
    }
}

use model::Kind;

fn kind_of(m: &PingPongMessage) -> Kind {
    match m {
        PingPongMessage::Initialize { .. } => Kind::Initialize,
        PingPongMessage::Continue { .. } => Kind::Continue,
        PingPongMessage::Finish { .. } => Kind::Finish,
    }
}

// =================================================================================================
// Per-VDAF glue: continuation codec with the proper decoding parameter
// =================================================================================================

pub trait PpVdaf<const S: usize>: Aggregator<S, 16> + Sized
where
    Self::OutputShare: PartialEq + Eq + Debug,
{
    fn enc_state(s: &Self::VerifyState) -> Result<Vec<u8>, CodecError>;
    fn enc_cont(c: &PingPongContinuation<S, 16, Self>) -> Result<Vec<u8>, CodecError>;
    fn dec_cont(&self, agg_id: usize, b: &[u8]) -> Result<PingPongContinuation<S, 16, Self>, CodecError>;
}

impl PpVdaf<16> for Spy {
    fn enc_state(s: &Self::VerifyState) -> Result<Vec<u8>, CodecError> {
        s.get_encoded()
    }
    fn enc_cont(c: &PingPongContinuation<16, 16, Self>) -> Result<Vec<u8>, CodecError> {
        c.get_encoded()
    }
    fn dec_cont(&self, agg_id: usize, b: &[u8]) -> Result<PingPongContinuation<16, 16, Self>, CodecError> {
        PingPongContinuation::get_decoded_with_param(&(self, agg_id), b)
    }
}

impl PpVdaf<0> for dummy::Vdaf {
    fn enc_state(s: &Self::VerifyState) -> Result<Vec<u8>, CodecError> {
        s.get_encoded()
    }
    fn enc_cont(c: &PingPongContinuation<0, 16, Self>) -> Result<Vec<u8>, CodecError> {
        c.get_encoded()
    }
    fn dec_cont(&self, _agg_id: usize, b: &[u8]) -> Result<PingPongContinuation<0, 16, Self>, CodecError> {
        PingPongContinuation::get_decoded_with_param(&(), b)
    }
}

impl<T: Type, P: Xof<32>> PpVdaf<32> for Prio3<T, P, 32> {
    fn enc_state(s: &Self::VerifyState) -> Result<Vec<u8>, CodecError> {
        s.get_encoded()
    }
    fn enc_cont(c: &PingPongContinuation<32, 16, Self>) -> Result<Vec<u8>, CodecError> {
        c.get_encoded()
    }
    fn dec_cont(&self, agg_id: usize, b: &[u8]) -> Result<PingPongContinuation<32, 16, Self>, CodecError> {
        PingPongContinuation::get_decoded_with_param(&(self, agg_id), b)
    }
}

impl<P: Xof<32>> PpVdaf<32> for Poplar1<P, 32> {
    fn enc_state(s: &Self::VerifyState) -> Result<Vec<u8>, CodecError> {
        s.get_encoded()
    }
    fn enc_cont(c: &PingPongContinuation<32, 16, Self>) -> Result<Vec<u8>, CodecError> {
        c.get_encoded()
    }
    fn dec_cont(&self, agg_id: usize, b: &[u8]) -> Result<PingPongContinuation<32, 16, Self>, CodecError> {
        PingPongContinuation::get_decoded_with_param(&(self, agg_id), b)
    }
}

// =================================================================================================
// Setup of one exchange
// =================================================================================================

#[derive(Clone, Copy, PartialEq, Eq, Debug)]
pub enum Mode {
    /// Every fault must be refused by the delivery it is injected into (codec / routine /
    /// evaluate): VDAFs whose every object is self-authenticating (spy) or empty (dummy).
    Immediate,
    /// A corruption of VDAF payload may be accepted by the receiving party as long as no output
    /// share is released from the fault on (the VDAF-level check fails by the end).
    Eventual,
}

pub struct Setup<V: PpVdaf<S>, const S: usize>
where
    V::OutputShare: PartialEq + Eq + Debug,
{
    pub family: String,
    pub mode: Mode,
    pub leader: V,
    pub helper: V,
    /// Handle used for crash-point reloads / re-evaluations (a restarted process).
    pub scratch: V,
    /// Handle used for the broadcast reference execution.
    pub reference: V,
    pub key: [u8; S],
    pub vctx: Vec<u8>,
    pub agg_param: V::AggregationParam,
    pub nonce: [u8; 16],
    pub public: V::PublicShare,
    pub inputs: Vec<V::InputShare>,
    pub log: Option<spy::Log>,
    pub desc: Value,
}

impl<V: PpVdaf<S>, const S: usize> Setup<V, S>
where
    V::OutputShare: PartialEq + Eq + Debug,
{
    fn handle(&self, party: usize) -> &V {
        if party == 0 {
            &self.leader
        } else {
            &self.helper
        }
    }
}

/// Direct broadcast execution: verify_init on both, then rounds of
/// verifier_shares_to_message([leader, helper]) and verify_next on both, without the topology.
pub struct Broadcast {
    pub rounds: usize,
    /// shares[k][a]: encoded round-k verifier share of aggregator a
    pub shares: Vec<[Vec<u8>; 2]>,
    /// msgs[k]: encoded round-k verifier message
    pub msgs: Vec<Vec<u8>>,
    pub outs: [Vec<u8>; 2],
}

fn broadcast<V: PpVdaf<S>, const S: usize>(su: &Setup<V, S>) -> Result<Broadcast, String>
where
    V::OutputShare: PartialEq + Eq + Debug,
{
    let v = &su.reference;
    let r = catch(|| -> Result<Broadcast, String> {
        let mut states = vec![];
        let mut cur = vec![];
        for a in 0..2 {
            let (st, sh) = v
                .verify_init(&su.key, &su.vctx, a, &su.agg_param, &su.nonce, &su.public, &su.inputs[a])
                .map_err(|e| format!("verify_init({a}): {e}"))?;
            states.push(st);
            cur.push(sh);
        }
        let mut shares = vec![];
        let mut msgs = vec![];
        for round in 0..32 {
            shares.push([
                cur[0].get_encoded().map_err(|e| e.to_string())?,
                cur[1].get_encoded().map_err(|e| e.to_string())?,
            ]);
            let m = v
                .verifier_shares_to_message(&su.vctx, &su.agg_param, cur.clone())
                .map_err(|e| format!("verifier_shares_to_message(round {round}): {e}"))?;
            msgs.push(m.get_encoded().map_err(|e| e.to_string())?);
            let mut next_states = vec![];
            let mut next_shares = vec![];
            let mut outs = vec![];
            for a in 0..2 {
                match v
                    .verify_next(&su.vctx, states[a].clone(), m.clone())
                    .map_err(|e| format!("verify_next({a}, round {round}): {e}"))?
                {
                    VerifyTransition::Continue(st, sh) => {
                        next_states.push(st);
                        next_shares.push(sh);
                    }
                    VerifyTransition::Finish(o) => outs.push(o.get_encoded().map_err(|e| e.to_string())?),
                }
            }
            if outs.len() == 2 {
                return Ok(Broadcast { rounds: round + 1, shares, msgs, outs: [outs[0].clone(), outs[1].clone()] });
            }
            if !outs.is_empty() {
                return Err("aggregators finish in different rounds".into());
            }
            states = next_states;
            cur = next_shares;
        }
        Err("more than 32 rounds".into())
    });
    match r {
        Ok(x) => x,
        Err(p) => Err(format!("panic: {} at {}", p.message, p.location)),
    }
}

/// The messages the spec prescribes, with contents taken from the broadcast transcript.
fn expected_wires(bc: &Broadcast) -> Vec<Vec<u8>> {
    let r = bc.rounds;
    let mut v = vec![];
    for k in 0..=r {
        let sender = k % 2;
        let m = if k == 0 {
            PingPongMessage::Initialize { verifier_share: bc.shares[0][0].clone() }
        } else if k < r {
            PingPongMessage::Continue { verifier_message: bc.msgs[k - 1].clone(), verifier_share: bc.shares[k][sender].clone() }
        } else {
            PingPongMessage::Finish { verifier_message: bc.msgs[r - 1].clone() }
        };
        v.push(m.get_encoded().unwrap());
    }
    v
}

// =================================================================================================
// Faults
// =================================================================================================

#[derive(Clone, Debug, PartialEq, Eq)]
pub enum Fault {
    /// Deliver earlier message j of the exchange instead (same sender: replay / duplicate / wrong
    /// round; sent by the receiver itself: a message addressed to the other party).
    Earlier(usize),
    /// Same payload(s) under another message type (structural), variant 0..4.
    Retype(u8),
    /// Same bytes, type byte replaced.
    TagByte(u8),
    Truncate(usize),
    Corrupt(usize, u8),
    /// Same type, all payloads empty.
    EmptyPayload,
    /// One extra byte appended.
    Trailing(u8),
    /// Well-framed message of the same type in which opaque field `.0` (0 = first, 1 = second) is the
    /// correct payload FOLLOWED BY surplus bytes (`.1`: 0 = one zero byte, 1 = four bytes, 2 = a copy of
    /// itself). The payload no longer decodes (leftover bytes), so the message is undecodable.
    FieldExtend(u8, u8),
    /// Same, the field shortened by its last byte (length prefix adjusted).
    FieldTruncate(u8),
}

impl Fault {
    fn class(&self, k: usize) -> &'static str {
        match self {
            Fault::Earlier(j) => {
                if j % 2 == k % 2 {
                    "replay"
                } else {
                    "reflected"
                }
            }
            Fault::Retype(_) => "retype",
            Fault::TagByte(_) => "tagbyte",
            Fault::Truncate(_) => "truncate",
            Fault::Corrupt(..) => "corrupt",
            Fault::EmptyPayload => "empty_payload",
            Fault::Trailing(_) => "trailing",
            Fault::FieldExtend(..) => "field_extend",
            Fault::FieldTruncate(_) => "field_truncate",
        }
    }

    /// Build the faulty wire message from the messages sent so far (`wires[..k]`) and the correct
    /// one (`wires[k]`). None when not applicable.
    fn apply(&self, wires: &[Vec<u8>], k: usize) -> Option<Vec<u8>> {
        let good = &wires[k];
        match self {
            Fault::Earlier(j) => (*j < k).then(|| wires[*j].clone()),
            Fault::TagByte(t) => {
                if good.is_empty() || good[0] == *t {
                    return None;
                }
                let mut b = good.clone();
                b[0] = *t;
                Some(b)
            }
            Fault::Truncate(n) => (*n < good.len()).then(|| good[..*n].to_vec()),
            Fault::Corrupt(off, mask) => {
                if *off >= good.len() || *mask == 0 {
                    return None;
                }
                let mut b = good.clone();
                b[*off] ^= *mask;
                Some(b)
            }
            Fault::Trailing(x) => {
                let mut b = good.clone();
                b.push(*x);
                Some(b)
            }
            Fault::FieldExtend(..) | Fault::FieldTruncate(_) => {
                let m = PingPongMessage::get_decoded(good).ok()?;
                let edit = |f: Vec<u8>| -> Option<Vec<u8>> {
                    let mut f = f;
                    match self {
                        Fault::FieldExtend(_, 0) => f.push(0),
                        Fault::FieldExtend(_, 1) => f.extend_from_slice(&[0xa5; 4]),
                        Fault::FieldExtend(..) => {
                            if f.is_empty() {
                                f.push(0x11)
                            } else {
                                let c = f.clone();
                                f.extend_from_slice(&c)
                            }
                        }
                        _ => {
                            f.pop()?;
                        }
                    }
                    Some(f)
                };
                let idx = match self {
                    Fault::FieldExtend(i, _) | Fault::FieldTruncate(i) => *i,
                    _ => 0,
                };
                let e = match (m, idx) {
                    (PingPongMessage::Initialize { verifier_share }, 0) => PingPongMessage::Initialize { verifier_share: edit(verifier_share)? },
                    (PingPongMessage::Continue { verifier_message, verifier_share }, 0) => PingPongMessage::Continue { verifier_message: edit(verifier_message)?, verifier_share },
                    (PingPongMessage::Continue { verifier_message, verifier_share }, 1) => PingPongMessage::Continue { verifier_message, verifier_share: edit(verifier_share)? },
                    (PingPongMessage::Finish { verifier_message }, 0) => PingPongMessage::Finish { verifier_message: edit(verifier_message)? },
                    _ => return None,
                };
                e.get_encoded().ok()
            }
            Fault::EmptyPayload => {
                let m = PingPongMessage::get_decoded(good).ok()?;
                let e = match m {
                    PingPongMessage::Initialize { .. } => PingPongMessage::Initialize { verifier_share: vec![] },
                    PingPongMessage::Continue { .. } => PingPongMessage::Continue { verifier_message: vec![], verifier_share: vec![] },
                    PingPongMessage::Finish { .. } => PingPongMessage::Finish { verifier_message: vec![] },
                };
                e.get_encoded().ok()
            }
            Fault::Retype(variant) => {
                let m = PingPongMessage::get_decoded(good).ok()?;
                // Most recent verifier share seen on the wire before k (for Finish -> Continue).
                let mut prev_share = vec![];
                for w in wires[..k].iter().rev() {
                    match PingPongMessage::get_decoded(w) {
                        Ok(PingPongMessage::Initialize { verifier_share }) | Ok(PingPongMessage::Continue { verifier_share, .. }) => {
                            prev_share = verifier_share;
                            break;
                        }
                        _ => {}
                    }
                }
                let r = match (m, variant) {
                    (PingPongMessage::Initialize { verifier_share: s }, 0) => PingPongMessage::Finish { verifier_message: s },
                    (PingPongMessage::Initialize { verifier_share: s }, 1) => PingPongMessage::Continue { verifier_message: s.clone(), verifier_share: s },
                    (PingPongMessage::Initialize { verifier_share: s }, 2) => PingPongMessage::Continue { verifier_message: vec![], verifier_share: s },
                    (PingPongMessage::Initialize { verifier_share: s }, 3) => PingPongMessage::Continue { verifier_message: s, verifier_share: vec![] },
                    (PingPongMessage::Continue { verifier_message: m, .. }, 0) => PingPongMessage::Finish { verifier_message: m },
                    (PingPongMessage::Continue { verifier_share: s, .. }, 1) => PingPongMessage::Finish { verifier_message: s },
                    (PingPongMessage::Continue { verifier_share: s, .. }, 2) => PingPongMessage::Initialize { verifier_share: s },
                    (PingPongMessage::Continue { verifier_message: m, .. }, 3) => PingPongMessage::Initialize { verifier_share: m },
                    (PingPongMessage::Finish { verifier_message: m }, 0) => PingPongMessage::Initialize { verifier_share: m },
                    (PingPongMessage::Finish { verifier_message: m }, 1) => PingPongMessage::Continue { verifier_message: m, verifier_share: vec![] },
                    (PingPongMessage::Finish { verifier_message: m }, 2) => PingPongMessage::Continue { verifier_message: m.clone(), verifier_share: m },
                    (PingPongMessage::Finish { verifier_message: m }, 3) => PingPongMessage::Continue { verifier_message: m, verifier_share: prev_share },
                    _ => return None,
                };
                r.get_encoded().ok()
            }
        }
    }
}

#[derive(Clone, Copy, PartialEq, Eq, Debug)]
pub enum Gran {
    /// truncation at every length, corruption at every offset (one mask per offset, cycling)
    Full,
    /// same, three masks per offset
    Full3,
    /// representatives: framing bytes, first/middle/last payload byte
    Reduced,
}

const MASKS: [u8; 4] = [0x01, 0xff, 0x80, 0x24];

/// All faults applicable at delivery point k (before de-duplication against the correct message).
fn enumerate_faults(wires: &[Vec<u8>], k: usize, gran: Gran) -> Vec<Fault> {
    let len = wires[k].len();
    let mut v = vec![];
    for j in 0..k {
        v.push(Fault::Earlier(j));
    }
    for x in 0..4 {
        v.push(Fault::Retype(x));
    }
    for t in 0..=3u8 {
        v.push(Fault::TagByte(t));
    }
    v.push(Fault::TagByte(0xff));
    v.push(Fault::EmptyPayload);
    v.push(Fault::Trailing(0));
    v.push(Fault::Trailing(0x5a));
    for field in 0..2u8 {
        for how in 0..3u8 {
            v.push(Fault::FieldExtend(field, how));
        }
        v.push(Fault::FieldTruncate(field));
    }
    match gran {
        Gran::Full | Gran::Full3 => {
            for n in 0..len {
                v.push(Fault::Truncate(n));
            }
            for off in 0..len {
                if gran == Gran::Full {
                    v.push(Fault::Corrupt(off, MASKS[(off + k) % 4]));
                } else {
                    for m in &MASKS[..3] {
                        v.push(Fault::Corrupt(off, *m));
                    }
                }
            }
        }
        Gran::Reduced => {
            let mut offs = vec![0usize, 1, 4, 5, len / 2, len.saturating_sub(9), len.saturating_sub(1)];
            offs.sort();
            offs.dedup();
            for o in offs {
                if o < len {
                    v.push(Fault::Truncate(o));
                    v.push(Fault::Corrupt(o, MASKS[(o + k) % 4]));
                }
            }
        }
    }
    v
}

// =================================================================================================
// One exchange
// =================================================================================================

fn err_variant(e: &PingPongError) -> &'static str {
    match e {
        PingPongError::VdafVerifyInit(_) => "VdafVerifyInit",
        PingPongError::VdafVerifierSharesToMessage(_) => "VdafVerifierSharesToMessage",
        PingPongError::VdafVerifyNext(_) => "VdafVerifyNext",
        PingPongError::CodecVerifierShare(_) => "CodecVerifierShare",
        PingPongError::CodecVerifierMessage(_) => "CodecVerifierMessage",
        PingPongError::PeerMessageMismatch { .. } => "PeerMessageMismatch",
        _ => "Other",
    }
}

/// Encoded view of a `PingPongState` (variant, state, outbound message, output share).
#[derive(Clone, Debug, PartialEq, Eq)]
struct Print {
    variant: &'static str,
    state: Option<Vec<u8>>,
    message: Option<Vec<u8>>,
    out: Option<Vec<u8>>,
}

impl Print {
    fn json(&self) -> Value {
        json!({"variant": self.variant, "state": self.state.as_ref().map(|b| hex_trunc(b, 96)),
               "message": self.message.as_ref().map(|b| hex_trunc(b, 96)), "output_share": self.out.as_ref().map(|b| hex_trunc(b, 96))})
    }
}

fn print_of<V: PpVdaf<S>, const S: usize>(s: &PingPongState<V::VerifyState, V::OutputShare>) -> Result<Print, String>
where
    V::OutputShare: PartialEq + Eq + Debug,
{
    Ok(match s {
        PingPongState::Continued(c) => Print {
            variant: "Continued",
            state: Some(V::enc_state(&c.verifier_state).map_err(|e| format!("state encode: {e}"))?),
            message: Some(c.message.get_encoded().map_err(|e| format!("message encode: {e}"))?),
            out: None,
        },
        PingPongState::FinishedWithOutbound { output_share, message } => Print {
            variant: "FinishedWithOutbound",
            state: None,
            message: Some(message.get_encoded().map_err(|e| format!("message encode: {e}"))?),
            out: Some(output_share.get_encoded().map_err(|e| format!("output share encode: {e}"))?),
        },
        PingPongState::Finished { output_share } => Print {
            variant: "Finished",
            state: None,
            message: None,
            out: Some(output_share.get_encoded().map_err(|e| format!("output share encode: {e}"))?),
        },
    })
}

enum Delivered<V: PpVdaf<S>, const S: usize>
where
    V::OutputShare: PartialEq + Eq + Debug,
{
    /// Refused: (stage, detail)
    Refused(&'static str, String),
    Panicked(&'static str, PanicInfo),
    Accepted(PingPongContinuation<S, 16, V>, PingPongState<V::VerifyState, V::OutputShare>),
}

const PARTY: [&str; 2] = ["leader", "helper"];

/// Deliver wire bytes to `recv` (holding `held`, or nothing yet for the helper's first message).
fn deliver<V: PpVdaf<S>, const S: usize>(su: &Setup<V, S>, recv: usize, held: Option<V::VerifyState>, bytes: &[u8]) -> Delivered<V, S>
where
    V::OutputShare: PartialEq + Eq + Debug,
{
    let msg = match catch(|| PingPongMessage::get_decoded(bytes)) {
        Ok(Ok(m)) => m,
        Ok(Err(e)) => return Delivered::Refused("message_codec", e.to_string()),
        Err(p) => return Delivered::Panicked("message_codec", p),
    };
    let v = su.handle(recv);
    let (routine, r) = match (recv, held) {
        (1, None) => (
            "helper_initialized",
            catch(|| v.helper_initialized(&su.key, &su.vctx, &su.agg_param, &su.nonce, &su.public, &su.inputs[1], &msg)),
        ),
        (0, Some(st)) => ("leader_continued", catch(|| v.leader_continued(&su.vctx, &su.agg_param, st, &msg))),
        (1, Some(st)) => ("helper_continued", catch(|| v.helper_continued(&su.vctx, &su.agg_param, st, &msg))),
        _ => return Delivered::Refused("harness", "leader has no state".into()),
    };
    let cont = match r {
        Ok(Ok(c)) => c,
        Ok(Err(e)) => return Delivered::Refused(routine, format!("{}: {e}", err_variant(&e))),
        Err(p) => return Delivered::Panicked(routine, p),
    };
    match catch(|| cont.evaluate(&su.vctx, v)) {
        Ok(Ok(s)) => Delivered::Accepted(cont, s),
        Ok(Err(e)) => Delivered::Refused(if recv == 0 { "evaluate_leader" } else { "evaluate_helper" }, format!("{}: {e}", err_variant(&e))),
        Err(p) => Delivered::Panicked("evaluate", p),
    }
}

#[derive(Default)]
pub struct ExResult {
    /// Messages of the main line, in order (sender = index parity).
    pub wires: Vec<Vec<u8>>,
    pub outs: [Option<Vec<u8>>; 2],
    pub finals: [&'static str; 2],
    pub completed: bool,
    /// A fault was accepted and released an output share (Eventual mode: to be confirmed).
    pub released_on_fault: Option<Value>,
    /// Exchange left the correct path through an accepted fault and died there (Eventual mode).
    pub died_on_fault_path: bool,
    /// Eventual mode: a corruption confined to VDAF payload (message still decodes to the expected
    /// kind) was tolerated by the VDAF and an output share released: no demand, only counted.
    pub payload_corruption_tolerated: bool,
    pub faults_applied: u64,
    pub faults_identical: u64,
}

struct StoredCont {
    party: usize,
    k: usize,
    bytes: Vec<u8>,
    print: Print,
}

fn mix(a: u64, b: u64) -> u64 {
    let mut r = Rng64::new(a ^ b.wrapping_mul(0x9E37_79B9_7F4A_7C15));
    r.u64()
}

/// Run one exchange. `plan`: faults (k, fault) delivered before the correct message k, in order.
/// `crash`: None = no persistence; Some(seed) = at every continuation point persist, reload,
/// evaluate 0..3 times (number and whether to resume from the reload derived from seed and point).
fn run_exchange<V: PpVdaf<S>, const S: usize>(ctx: &mut Ctx, su: &Setup<V, S>, plan: &[(usize, Fault)], crash: Option<u64>) -> ExResult
where
    V::OutputShare: PartialEq + Eq + Debug,
{
    let fam = su.family.as_str();
    let mut res = ExResult { finals: ["none", "none"], ..Default::default() };
    if let Some(l) = &su.log {
        l.lock().unwrap().clear();
    }
    ctx.eval();
    ctx.count("exchanges");
    ctx.count(&format!("exchanges_{fam}"));
    let witness = |extra: Value| json!({"setup": su.desc, "plan": format!("{plan:?}"), "crash_seed": crash, "detail": extra});

    // Leader init.
    let li = catch(|| su.leader.leader_initialized(&su.key, &su.vctx, &su.agg_param, &su.nonce, &su.public, &su.inputs[0]));
    let Continued { verifier_state, message } = match li {
        Ok(Ok(c)) => c,
        Ok(Err(e)) => {
            ctx.violation(format!("{fam}|honest|refused@leader_initialized:{}", err_variant(&e)), "leader_initialized refused honest inputs", witness(json!({"err": e.to_string()})));
            return res;
        }
        Err(p) => {
            ctx.violation(format!("{fam}|honest|panic@leader_initialized|{}", p.class()), "leader_initialized panicked", witness(json!({"panic": p.message, "at": p.location})));
            return res;
        }
    };
    res.finals[0] = "Continued";
    let mut held: [Option<V::VerifyState>; 2] = [Some(verifier_state), None];
    let mut outbound = match message.get_encoded() {
        Ok(b) => b,
        Err(e) => {
            ctx.violation(format!("{fam}|honest|message-encode"), "PingPongMessage failed to encode", witness(json!({"err": e.to_string()})));
            return res;
        }
    };
    let mut stored: Vec<StoredCont> = vec![];
    let mut on_fault_path = false;
    // Is refusal demanded for the fault whose path is being followed? (false: payload-only.)
    let mut path_demanded = true;
    let mut k = 0usize;
    loop {
        let recv = 1 - (k % 2);
        res.wires.push(outbound.clone());
        // ---- faulty deliveries ------------------------------------------------------------------
        let mut diverted = false;
        if !on_fault_path {
            for (fk, fault) in plan.iter().filter(|(fk, _)| *fk == k) {
                let Some(bytes) = fault.apply(&res.wires, *fk) else { continue };
                if bytes == res.wires[k] {
                    res.faults_identical += 1;
                    ctx.count("faults_skipped_identical_to_expected");
                    continue;
                }
                let class = fault.class(k);
                // Refusal is demanded by the property for messages of the wrong kind, from another
                // round, duplicated or undecodable. A corruption that leaves a decodable message of
                // the expected kind only changes VDAF payload; what the VDAF makes of that is its own
                // business (e.g. the Poplar1 leader ignores two of the three sketch elements), so in
                // Eventual mode such a fault carries no demand.
                let same_kind = match (PingPongMessage::get_decoded(&bytes), PingPongMessage::get_decoded(&res.wires[k])) {
                    (Ok(a), Ok(b)) => kind_of(&a) == kind_of(&b),
                    _ => false,
                };
                let demanded = su.mode == Mode::Immediate || !same_kind || matches!(fault, Fault::EmptyPayload | Fault::FieldExtend(..) | Fault::FieldTruncate(_));
                if !demanded {
                    ctx.count("faults_payload_only_no_demand");
                }
                res.faults_applied += 1;
                ctx.count("faults_delivered");
                ctx.count(&format!("faults_{class}"));
                let before: Vec<Option<Vec<u8>>> = held.iter().map(|h| h.as_ref().and_then(|s| V::enc_state(s).ok())).collect();
                let d = deliver(su, recv, held[recv].clone(), &bytes);
                let after: Vec<Option<Vec<u8>>> = held.iter().map(|h| h.as_ref().and_then(|s| V::enc_state(s).ok())).collect();
                if before != after {
                    ctx.violation(format!("{fam}|fault:{class}|stored-state-changed"), "a party's stored verifier state changed during a refused delivery", witness(json!({"k": k})));
                }
                let fw = |extra: Value| json!({"setup": su.desc, "plan": format!("{plan:?}"), "k": k, "receiver": PARTY[recv], "fault": format!("{fault:?}"),
                    "faulty_message": hex_trunc(&bytes, 256), "expected_message": hex_trunc(&res.wires[k], 256), "detail": extra});
                match d {
                    Delivered::Refused(stage, why) => {
                        ctx.count("faults_refused");
                        ctx.count(&format!("refused_by_{stage}"));
                        ctx.count(&format!("refused_{class}_by_{stage}"));
                        if let Some(v) = why.split(':').next() {
                            if stage != "message_codec" {
                                ctx.count(&format!("refusal_reason_{v}"));
                            }
                        }
                    }
                    Delivered::Panicked(stage, p) => {
                        // A crash is not a graceful refusal, but panic-freedom of decoders / fallible
                        // operations is C08/C16's subject; here it is an event, never a release.
                        ctx.count("fault_path_panics");
                        ctx.note(format!("{fam}: panic on a faulty delivery ({class}) in {stage}: {} at {}", p.message, p.location));
                    }
                    Delivered::Accepted(_, st) => {
                        let pr = print_of::<V, S>(&st).unwrap_or(Print { variant: "unencodable", state: None, message: None, out: None });
                        let released = pr.out.is_some();
                        match su.mode {
                            Mode::Immediate => {
                                let routine = if held[recv].is_none() { "helper_initialized" } else if recv == 0 { "leader_continued" } else { "helper_continued" };
                                if released {
                                    ctx.violation(format!("{fam}|fault:{class}|output-share-released@{routine}"),
                                        "a faulty message was accepted and an output share released", fw(pr.json()));
                                } else {
                                    ctx.violation(format!("{fam}|fault:{class}|accepted@{routine}"),
                                        "a faulty message (wrong kind / round / duplicate / undecodable) was not refused", fw(pr.json()));
                                }
                            }
                            Mode::Eventual => {
                                if released {
                                    if demanded {
                                        res.released_on_fault = Some(fw(pr.json()));
                                    } else {
                                        res.payload_corruption_tolerated = true;
                                    }
                                    return res;
                                }
                                path_demanded = demanded;
                                // Follow the faulty path.
                                ctx.count("faults_accepted_payload_only_followed");
                                if let PingPongState::Continued(c) = st {
                                    held[recv] = Some(c.verifier_state);
                                    outbound = pr.message.clone().unwrap_or_default();
                                    on_fault_path = true;
                                    diverted = true;
                                    res.finals[recv] = "Continued";
                                }
                                break;
                            }
                        }
                    }
                }
            }
        }
        if diverted {
            // The faulty message replaced the correct one at this delivery point.
            res.wires.pop();
            res.wires.push(vec![]);
            k += 1;
            if k > 40 {
                return res;
            }
            continue;
        }
        // ---- correct delivery -------------------------------------------------------------------
        let d = deliver(su, recv, held[recv].clone(), &res.wires[k].clone());
        let (cont, state) = match d {
            Delivered::Accepted(c, s) => (c, s),
            Delivered::Refused(stage, why) => {
                if on_fault_path {
                    ctx.count("fault_paths_died");
                    ctx.count(&format!("fault_path_died_in_{stage}"));
                    res.died_on_fault_path = true;
                } else {
                    let v = why.split(':').next().unwrap_or("?").to_string();
                    ctx.violation(format!("{fam}|honest|refused@{stage}:{v}"), "an honest ping-pong message was refused",
                        witness(json!({"k": k, "receiver": PARTY[recv], "err": why, "message": hex_trunc(&res.wires[k], 256), "faults_before": res.faults_applied})));
                }
                return res;
            }
            Delivered::Panicked(stage, p) => {
                if on_fault_path {
                    ctx.count("fault_path_panics");
                    res.died_on_fault_path = true;
                } else {
                    ctx.violation(format!("{fam}|honest|panic@{stage}|{}", p.class()), "panic while processing an honest ping-pong message",
                        witness(json!({"k": k, "panic": p.message, "at": p.location})));
                }
                return res;
            }
        };
        let orig = match print_of::<V, S>(&state) {
            Ok(p) => p,
            Err(e) => {
                ctx.violation(format!("{fam}|honest|state-encode"), "state / message / output share failed to encode", witness(json!({"k": k, "err": e})));
                return res;
            }
        };
        if on_fault_path && orig.out.is_some() && !path_demanded {
            res.payload_corruption_tolerated = true;
            return res;
        }
        if on_fault_path && orig.out.is_some() {
            res.released_on_fault = Some(json!({"setup": su.desc, "plan": format!("{plan:?}"), "k": k, "receiver": PARTY[recv], "state": orig.json()}));
            return res;
        }
        // ---- crash point ------------------------------------------------------------------------
        let mut resume: Option<PingPongState<V::VerifyState, V::OutputShare>> = None;
        if let (Some(seed), false) = (crash, on_fault_path) {
            let h = mix(seed, k as u64);
            let n_evals = (h % 4) as usize;
            let resume_reloaded = (h >> 8) & 1 == 1;
            ctx.count("crash_points");
            ctx.count(&format!("crash_points_{}", PARTY[recv]));
            ctx.count(&format!("crash_point_evals_{n_evals}"));
            let cw = |extra: Value| json!({"setup": su.desc, "k": k, "party": PARTY[recv], "crash_seed": seed, "n_evals": n_evals, "original": orig.json(), "detail": extra});
            match catch(|| V::enc_cont(&cont)) {
                Err(p) => {
                    ctx.violation(format!("{fam}|crash|encode-panic|{}", p.class()), "continuation encode panicked", cw(json!({"panic": p.message})));
                }
                Ok(Err(e)) => {
                    if orig.variant == "Finished" {
                        // Documented: a continuation that evaluates to Finished refuses to encode.
                        ctx.count("finished_continuations_refuse_encode");
                        // It can still be evaluated any number of times.
                        for i in 0..n_evals {
                            ctx.count("crash_evals");
                            let again = catch(|| cont.evaluate(&su.vctx, &su.scratch));
                            let same = matches!(&again, Ok(Ok(s)) if *s == state && print_of::<V, S>(s).ok().as_ref() == Some(&orig));
                            if !same {
                                ctx.violation(format!("{fam}|crash|re-evaluate-finished-differs"), "re-evaluating a finished continuation gave another result", cw(json!({"eval": i})));
                            }
                        }
                    } else {
                        ctx.violation(format!("{fam}|crash|encode-refused:{}", orig.variant), "a continuation that still has an outbound message refused to encode",
                            cw(json!({"err": e.to_string()})));
                    }
                }
                Ok(Ok(bytes)) => {
                    ctx.count("continuations_encoded");
                    ctx.max("max_continuation_bytes", bytes.len() as u64);
                    let mut last = None;
                    // n_evals == 0: reload only.
                    for i in 0..n_evals.max(1) {
                        let dec = match catch(|| su.scratch.dec_cont(recv, &bytes)) {
                            Ok(Ok(c)) => c,
                            Ok(Err(e)) => {
                                ctx.violation(format!("{fam}|crash|decode-refused:{}", orig.variant), "an encoded continuation does not decode with its proper parameter",
                                    cw(json!({"err": e.to_string(), "continuation": hex_trunc(&bytes, 256)})));
                                break;
                            }
                            Err(p) => {
                                ctx.violation(format!("{fam}|crash|decode-panic|{}", p.class()), "continuation decode panicked", cw(json!({"panic": p.message, "at": p.location})));
                                break;
                            }
                        };
                        ctx.count("continuations_reloaded");
                        if dec != cont {
                            ctx.violation(format!("{fam}|crash|reloaded-continuation-differs:{}", orig.variant), "decode(encode(continuation)) != continuation",
                                cw(json!({"continuation": hex_trunc(&bytes, 256)})));
                        }
                        if n_evals == 0 {
                            break;
                        }
                        ctx.count("crash_evals");
                        match catch(|| dec.evaluate(&su.vctx, &su.scratch)) {
                            Ok(Ok(s)) => {
                                let pr = print_of::<V, S>(&s).ok();
                                if s != state || pr.as_ref() != Some(&orig) {
                                    ctx.violation(format!("{fam}|crash|re-evaluation-differs:{}", orig.variant),
                                        "evaluating a reloaded continuation gave another state / outbound message / output share than the original",
                                        cw(json!({"eval": i, "reloaded": pr.map(|p| p.json()), "continuation": hex_trunc(&bytes, 256)})));
                                }
                                last = Some(s);
                            }
                            Ok(Err(e)) => {
                                ctx.violation(format!("{fam}|crash|re-evaluation-refused:{}", err_variant(&e)), "evaluating a reloaded continuation failed although the original succeeded",
                                    cw(json!({"eval": i, "err": e.to_string(), "continuation": hex_trunc(&bytes, 256)})));
                            }
                            Err(p) => {
                                ctx.violation(format!("{fam}|crash|re-evaluation-panic|{}", p.class()), "evaluating a reloaded continuation panicked", cw(json!({"panic": p.message, "at": p.location})));
                            }
                        }
                    }
                    if orig.variant == "Finished" {
                        ctx.count("finished_continuation_encoded_and_reloaded");
                    }
                    if resume_reloaded {
                        if let Some(s) = last {
                            ctx.count("resumed_from_reloaded_continuation");
                            resume = Some(s);
                        }
                    }
                    stored.push(StoredCont { party: recv, k, bytes, print: orig.clone() });
                }
            }
        }
        let state = resume.unwrap_or(state);
        // ---- advance ----------------------------------------------------------------------------
        res.finals[recv] = orig.variant;
        match state {
            PingPongState::Continued(c) => {
                held[recv] = Some(c.verifier_state);
                outbound = orig.message.clone().unwrap();
            }
            PingPongState::FinishedWithOutbound { .. } => {
                held[recv] = None;
                res.outs[recv] = orig.out.clone();
                outbound = orig.message.clone().unwrap();
            }
            PingPongState::Finished { .. } => {
                held[recv] = None;
                res.outs[recv] = orig.out.clone();
                res.completed = true;
                break;
            }
        }
        k += 1;
        if k > 40 {
            if !on_fault_path {
                ctx.violation(format!("{fam}|honest|no-termination"), "exchange exceeds 40 messages", witness(json!({})));
            }
            return res;
        }
    }
    // ---- after completion: reload every stored continuation once more -----------------------------
    for sc in &stored {
        ctx.count("crash_points_after_completion");
        ctx.count("crash_evals");
        let r = catch(|| su.scratch.dec_cont(sc.party, &sc.bytes).map(|c| c.evaluate(&su.vctx, &su.scratch)));
        let pr = match &r {
            Ok(Ok(Ok(s))) => print_of::<V, S>(s).ok(),
            _ => None,
        };
        if pr.as_ref() != Some(&sc.print) {
            ctx.violation(format!("{fam}|crash|after-completion-differs:{}", sc.print.variant),
                "a continuation stored during the exchange evaluates differently after the exchange completed",
                json!({"setup": su.desc, "k": sc.k, "party": PARTY[sc.party], "original": sc.print.json(), "reloaded": pr.map(|p| p.json()),
                       "continuation": hex_trunc(&sc.bytes, 256)}));
        }
    }
    res
}

// =================================================================================================
// History checker (offline, over the messages exchanged, the outputs and the spy's event log)
// =================================================================================================

fn check_history<V: PpVdaf<S>, const S: usize>(ctx: &mut Ctx, su: &Setup<V, S>, bc: &Broadcast, res: &ExResult, plan: &[(usize, Fault)], strict_log: bool)
where
    V::OutputShare: PartialEq + Eq + Debug,
{
    let fam = su.family.as_str();
    let w = |extra: Value| json!({"setup": su.desc, "plan": format!("{plan:?}"), "rounds": bc.rounds, "detail": extra});
    let (want_kinds, want_finals) = model::exchange(bc.rounds);
    // (1) sender / kind sequence.
    let mut got_kinds = vec![];
    for (k, b) in res.wires.iter().enumerate() {
        match PingPongMessage::get_decoded(b) {
            Ok(m) => got_kinds.push((k % 2, kind_of(&m))),
            Err(e) => {
                ctx.violation(format!("{fam}|history|own-message-undecodable"), "a message produced by the topology does not decode", w(json!({"k": k, "err": e.to_string()})));
                return;
            }
        }
    }
    if got_kinds != want_kinds {
        ctx.violation(format!("{fam}|history|message-kinds"), "sequence of (sender, message kind) differs from the specified state machine",
            w(json!({"got": format!("{got_kinds:?}"), "want": format!("{want_kinds:?}")})));
        return;
    }
    ctx.count("history_kind_sequences_checked");
    let fin = |s: model::St| match s {
        model::St::Continued => "Continued",
        model::St::FinishedWithOutbound => "FinishedWithOutbound",
        model::St::Finished => "Finished",
        model::St::Rejected => "Rejected",
    };
    if res.finals != [fin(want_finals[0]), fin(want_finals[1])] {
        ctx.violation(format!("{fam}|history|final-states"), "final party states differ from the specified state machine",
            w(json!({"got": format!("{:?}", res.finals), "want": format!("{want_finals:?}")})));
    }
    if bc.rounds % 2 == 1 {
        ctx.count("finish_sent_by_helper");
    } else {
        ctx.count("finish_sent_by_leader");
    }
    // (2) message contents = the spec's, with the objects of the broadcast execution.
    let want_wires = expected_wires(bc);
    for (k, (g, e)) in res.wires.iter().zip(want_wires.iter()).enumerate() {
        if g != e {
            ctx.violation(format!("{fam}|history|message-content"), "a ping-pong message does not carry the verifier message / share of the broadcast execution",
                w(json!({"k": k, "got": hex_trunc(g, 256), "want": hex_trunc(e, 256)})));
            break;
        }
    }
    // (3) outputs.
    for a in 0..2 {
        if res.outs[a].as_ref() != Some(&bc.outs[a]) {
            ctx.violation(format!("{fam}|history|output-share-vs-broadcast"), "output share differs from the direct broadcast execution",
                w(json!({"party": PARTY[a], "got": res.outs[a].as_ref().map(|b| hex_trunc(b, 128)), "want": hex_trunc(&bc.outs[a], 128)})));
        }
    }
    ctx.count("history_outputs_equal_broadcast");
    ctx.count_n("rounds_executed", bc.rounds as u64);
    ctx.max("max_rounds", bc.rounds as u64);
    // (4) the combiner's view (spy only).
    let bad_order = check_combiner(ctx, su, plan, bc.rounds);
    if let Some(log) = &su.log {
        let log = log.lock().unwrap();
        let combines: Vec<&spy::Event> = log.iter().filter(|e| e.op == spy::Op::Combine && e.label <= 1).collect();
        if strict_log && !bad_order {
            // Exactly one successful combination per round, by the party the spec assigns it to.
            let got: Vec<(u8, u8, bool)> = combines.iter().map(|e| (e.label, e.round, e.ok)).collect();
            let want: Vec<(u8, u8, bool)> = (0..bc.rounds).map(|r| (if r % 2 == 0 { 1u8 } else { 0u8 }, r as u8, true)).collect();
            if got != want {
                ctx.violation(format!("{fam}|history|combiner-schedule"), "combiner calls (party, round) differ from the specified schedule",
                    w(json!({"got": format!("{got:?}"), "want": format!("{want:?}")})));
            }
            // Every aggregator ran verify_next once per round, in order, on the main line.
            for a in 0..2u8 {
                let nexts: Vec<u8> = log.iter().filter(|e| e.op == spy::Op::Next && e.label == a && e.ok).map(|e| e.round).collect();
                ctx.count_n("spy_verify_next_calls", nexts.len() as u64);
            }
        }
        ctx.count_n("spy_log_events", log.len() as u64);
    }
}

/// Spy only: every call of the combiner made through the leader's / helper's handle must have
/// been given `[leader share, helper share]` of one round. Also used when an exchange was refused
/// (the log then tells why). Returns true when an order violation was reported.
fn check_combiner<V: PpVdaf<S>, const S: usize>(ctx: &mut Ctx, su: &Setup<V, S>, plan: &[(usize, Fault)], rounds: usize) -> bool
where
    V::OutputShare: PartialEq + Eq + Debug,
{
    let fam = su.family.as_str();
    let Some(log) = &su.log else { return false };
    let log = log.lock().unwrap();
    let mut bad_order = false;
    for e in log.iter().filter(|e| e.op == spy::Op::Combine && e.label <= 1) {
        let w = |extra: Value| json!({"setup": su.desc, "plan": format!("{plan:?}"), "rounds": rounds, "detail": extra});
        let ids: Vec<u8> = e.shares.iter().map(|s| s.0).collect();
        if ids != [0, 1] {
            bad_order = true;
            ctx.violation(format!("{fam}|history|combiner-order"), "verifier shares were handed to the combiner in another order than [leader, helper]",
                w(json!({"by": PARTY[e.label as usize], "shares(id,round)": format!("{:?}", e.shares)})));
        } else if e.shares[0].1 != e.shares[1].1 {
            ctx.violation(format!("{fam}|history|combiner-rounds"), "verifier shares of different rounds were handed to the combiner",
                w(json!({"by": PARTY[e.label as usize], "shares(id,round)": format!("{:?}", e.shares)})));
        } else {
            ctx.count("combiner_calls_in_aggregator_order");
        }
    }
    bad_order
}

// =================================================================================================
// Campaigns
// =================================================================================================

struct Work {
    next: u64,
}

impl Work {
    fn take(&mut self, ctx: &Ctx) -> bool {
        let i = self.next;
        self.next += 1;
        ctx.mine(i)
    }
}

fn plan_digest(fam: &str, cfg: &str, plan: &[(usize, Fault)], crash: Option<u64>) -> u64 {
    digest_str(&format!("{fam}|{cfg}|{plan:?}|{crash:?}"))
}

/// Fault-free exchange(s) with crash plans; returns the honest wires when consistent.
fn honest<V: PpVdaf<S>, const S: usize>(ctx: &mut Ctx, su: &Setup<V, S>, cfg: &str, crash_seeds: &[Option<u64>]) -> Option<(Broadcast, Vec<Vec<u8>>)>
where
    V::OutputShare: PartialEq + Eq + Debug,
{
    let bc = match broadcast(su) {
        Ok(b) => b,
        Err(e) => {
            // Not C12's subject (C01/C03 cover honest verification); without a reference there is no oracle.
            ctx.count("broadcast_reference_failed");
            ctx.note(format!("{}: broadcast reference execution failed: {e}", su.family));
            return None;
        }
    };
    let mut wires = None;
    for cs in crash_seeds {
        let res = run_exchange(ctx, su, &[], *cs);
        if !res.completed {
            check_combiner(ctx, su, &[], bc.rounds);
            return None;
        }
        check_history(ctx, su, &bc, &res, &[], true);
        ctx.count("honest_exchanges");
        ctx.nontrivial(plan_digest(&su.family, cfg, &[], *cs));
        ctx.count(&format!("honest_R{}", bc.rounds));
        if cs.is_some() {
            ctx.count("honest_exchanges_with_crash_points");
        }
        wires = Some(res.wires);
    }
    ctx.sample(|| json!({"setup": su.desc, "rounds": bc.rounds, "messages": wires.as_ref().map(|w: &Vec<Vec<u8>>| w.iter().map(|b| hex_trunc(b, 48)).collect::<Vec<_>>())}));
    wires.map(|w| (bc, w))
}

/// One exchange with a fault plan. `maker(fresh)` builds an independent setup (fresh > 0: fresh
/// keys / randomness for confirmation of a probabilistic acceptance).
fn faulty<V: PpVdaf<S>, const S: usize>(
    ctx: &mut Ctx,
    maker: &dyn Fn(u64) -> Setup<V, S>,
    su: &Setup<V, S>,
    bc: &Broadcast,
    cfg: &str,
    plan: &[(usize, Fault)],
    crash: Option<u64>,
) where
    V::OutputShare: PartialEq + Eq + Debug,
{
    let res = run_exchange(ctx, su, plan, crash);
    ctx.count("fault_exchanges");
    ctx.count(&format!("fault_exchanges_depth_{}", plan.len()));
    if res.faults_applied > 0 {
        ctx.nontrivial(plan_digest(&su.family, cfg, plan, crash));
    }
    if let Some(w) = res.released_on_fault {
        // Eventual mode only: confirm under three fresh keys before reporting.
        let mut confirmed = 0;
        for fresh in 1..=3u64 {
            let Ok(su2) = catch(|| maker(fresh)) else { continue };
            let r2 = run_exchange(ctx, &su2, plan, None);
            if r2.released_on_fault.is_some() {
                confirmed += 1;
            }
        }
        if confirmed == 3 {
            let classes: Vec<&str> = plan.iter().map(|(k, f)| f.class(*k)).collect();
            ctx.violation(format!("{}|fault:{}|output-share-released-after-accepted-fault", su.family, classes.join("+")),
                "an output share was released although a faulty message was delivered (confirmed under 3 fresh keys)", w);
        } else {
            ctx.count("soundness_flukes");
        }
        return;
    }
    if res.died_on_fault_path {
        ctx.count("fault_exchanges_died_without_output");
        return;
    }
    if res.payload_corruption_tolerated {
        ctx.count("payload_corruptions_tolerated_by_vdaf");
        ctx.count(&format!("payload_corruptions_tolerated_by_{}", su.family));
        return;
    }
    if res.completed {
        // All faults were refused; the exchange must be exactly the fault-free one.
        check_history(ctx, su, bc, &res, plan, false);
        ctx.count("fault_exchanges_completed_after_refusals");
    } else {
        check_combiner(ctx, su, plan, bc.rounds);
    }
}

/// Can the client side produce this report at all? (Sharding an honest measurement is C01/C03's
/// subject; without a report there is nothing to exchange, which is inconclusive, not a verdict.)
fn usable<V: PpVdaf<S>, const S: usize>(ctx: &mut Ctx, maker: &dyn Fn(u64) -> Setup<V, S>, what: &str) -> bool
where
    V::OutputShare: PartialEq + Eq + Debug,
{
    match catch(|| maker(0)) {
        Ok(_) => true,
        Err(p) => {
            ctx.inconclusive(format!("{what}: could not construct / shard an honest report ({} at {})", p.message, p.location));
            false
        }
    }
}

/// Every single fault at every delivery point (each its own exchange).
fn single_faults<V: PpVdaf<S>, const S: usize>(ctx: &mut Ctx, work: &mut Work, maker: &dyn Fn(u64) -> Setup<V, S>, cfg: &str, gran: Gran, crash_some: bool)
where
    V::OutputShare: PartialEq + Eq + Debug,
{
    let su = maker(0);
    let Some((bc, wires)) = honest(ctx, &su, cfg, &[None]) else { return };
    for k in 0..wires.len() {
        for (i, f) in enumerate_faults(&wires, k, gran).into_iter().enumerate() {
            if !work.take(ctx) {
                continue;
            }
            let crash = if crash_some && i % 5 == 0 { Some((k * 131 + i) as u64) } else { None };
            faulty(ctx, maker, &su, &bc, cfg, &[(k, f)], crash);
        }
    }
}

/// Every pair of faults (k1 <= k2; at the same point both orders).
fn pair_faults<V: PpVdaf<S>, const S: usize>(ctx: &mut Ctx, work: &mut Work, maker: &dyn Fn(u64) -> Setup<V, S>, cfg: &str, gran: Gran)
where
    V::OutputShare: PartialEq + Eq + Debug,
{
    let su = maker(0);
    let Some((bc, wires)) = honest(ctx, &su, cfg, &[None]) else { return };
    let per_k: Vec<Vec<Fault>> = (0..wires.len()).map(|k| enumerate_faults(&wires, k, gran)).collect();
    for k1 in 0..wires.len() {
        for k2 in k1..wires.len() {
            for f1 in &per_k[k1] {
                for f2 in &per_k[k2] {
                    if k1 == k2 && f1 == f2 {
                        continue;
                    }
                    if !work.take(ctx) {
                        continue;
                    }
                    faulty(ctx, maker, &su, &bc, cfg, &[(k1, f1.clone()), (k2, f2.clone())], None);
                    ctx.count("fault_pairs");
                }
            }
        }
    }
}

/// Random fault plans of depth 1..=depth (for round counts beyond the exhaustive range).
fn sampled_faults<V: PpVdaf<S>, const S: usize>(ctx: &mut Ctx, rng: &mut Rng64, maker: &dyn Fn(u64) -> Setup<V, S>, cfg: &str, n: u64, depth: usize)
where
    V::OutputShare: PartialEq + Eq + Debug,
{
    let su = maker(0);
    let Some((bc, wires)) = honest(ctx, &su, cfg, &[None]) else { return };
    let per_k: Vec<Vec<Fault>> = (0..wires.len()).map(|k| enumerate_faults(&wires, k, Gran::Full3)).collect();
    for _ in 0..n {
        let d = 1 + rng.usize_below(depth);
        let mut plan = vec![];
        for _ in 0..d {
            let k = rng.usize_below(wires.len());
            // Bias towards the rarer structured classes.
            let f = if rng.chance(1, 2) {
                let structured: Vec<&Fault> = per_k[k].iter().filter(|f| !matches!(f, Fault::Truncate(_) | Fault::Corrupt(..))).collect();
                (*rng.choose(&structured)).clone()
            } else {
                rng.choose(&per_k[k]).clone()
            };
            plan.push((k, f));
        }
        plan.sort_by_key(|(k, _)| *k);
        let crash = if rng.chance(1, 4) { Some(rng.u64()) } else { None };
        faulty(ctx, maker, &su, &bc, cfg, &plan, crash);
        ctx.count("fault_exchanges_sampled");
    }
}

// =================================================================================================
// Setup makers
// =================================================================================================

fn spy_setup(seed: u64, rounds: u8, pad: u8, fresh: u64) -> Setup<Spy, 16> {
    let mut rng = Rng64::derive(seed, &["c12-spy"], fresh.wrapping_mul(7919) ^ ((rounds as u64) << 8) ^ pad as u64);
    let log = spy::new_log();
    let leader = Spy::new(rounds, pad, 0, log.clone());
    let key: [u8; 16] = rng.array_edge();
    let nonce: [u8; 16] = rng.array_edge();
    let n = rng.usize_below(24);
    let vctx = rng.bytes(n);
    let agg_param = spy::SpyAggParam(rng.u64() as u8);
    let v0 = rng.u64();
    let v1 = rng.u64();
    let public = spy::SpyPublic(rng.u64());
    let desc = json!({"vdaf": "spy", "rounds": rounds, "pad": pad, "verify_key": hex(&key), "nonce": hex(&nonce), "ctx": hex(&vctx),
        "agg_param": agg_param.0, "input_shares": [v0.to_string(), v1.to_string()], "public_share": public.0.to_string()});
    Setup {
        family: "spy".into(),
        mode: Mode::Immediate,
        helper: leader.relabel(1, log.clone()),
        scratch: leader.relabel(3, spy::new_log()),
        reference: leader.relabel(2, spy::new_log()),
        leader,
        key,
        vctx,
        agg_param,
        nonce,
        public,
        inputs: vec![spy::SpyInput { id: 0, v: v0 }, spy::SpyInput { id: 1, v: v1 }],
        log: Some(log),
        desc,
    }
}

fn dummy_setup(seed: u64, rounds: u32, fresh: u64) -> Setup<dummy::Vdaf, 0> {
    let mut rng = Rng64::derive(seed, &["c12-dummy"], fresh.wrapping_mul(7919) ^ rounds as u64);
    let v = dummy::Vdaf::new(rounds);
    let nonce: [u8; 16] = rng.array();
    let a = rng.u64() as u8;
    let (i0, i1) = (rng.u64() as u8, rng.u64() as u8);
    Setup {
        family: "dummy".into(),
        mode: Mode::Immediate,
        leader: v.clone(),
        helper: v.clone(),
        scratch: v.clone(),
        reference: v,
        key: [],
        vctx: b"c12 dummy".to_vec(),
        agg_param: dummy::AggregationParam(a),
        nonce,
        public: (),
        inputs: vec![dummy::InputShare(i0), dummy::InputShare(i1)],
        log: None,
        desc: json!({"vdaf": "dummy", "rounds": rounds, "agg_param": a, "input_shares": [i0, i1]}),
    }
}

fn prio3_setup<T: Type>(seed: u64, name: &str, vdaf: Prio3<T, XofTurboShake128, 32>, meas: &T::Measurement, meas_desc: String, jr: bool, fresh: u64) -> Option<Setup<Prio3<T, XofTurboShake128, 32>, 32>>
{
    let mut rng = Rng64::derive(seed, &["c12-prio3", name], fresh);
    let key: [u8; 32] = rng.array();
    let nonce: [u8; 16] = rng.array();
    let n = rng.usize_below(16);
    let vctx = rng.bytes(n);
    let tape = rng.bytes(if jr { 128 } else { 64 });
    let (public, inputs) = catch(|| vdaf.shard_with_random(&vctx, meas, &nonce, &tape)).ok()?.ok()?;
    let desc = json!({"vdaf": name, "measurement": meas_desc, "verify_key": hex(&key), "nonce": hex(&nonce), "ctx": hex(&vctx), "shard_random": hex(&tape)});
    Some(Setup {
        family: name.into(),
        mode: Mode::Eventual,
        leader: vdaf.clone(),
        helper: vdaf.clone(),
        scratch: vdaf.clone(),
        reference: vdaf,
        key,
        vctx,
        agg_param: (),
        nonce,
        public,
        inputs,
        log: None,
        desc,
    })
}

fn poplar1_setup(seed: u64, bits: usize, level: usize, fresh: u64) -> Option<Setup<Poplar1<XofTurboShake128, 32>, 32>> {
    let name = if level + 1 == bits { "poplar1-leaf" } else { "poplar1-inner" };
    let mut rng = Rng64::derive(seed, &["c12-poplar1", name], fresh ^ ((bits as u64) << 32) ^ ((level as u64) << 16));
    let vdaf = Poplar1::new_turboshake128(bits);
    let key: [u8; 32] = rng.array();
    let nonce: [u8; 16] = rng.array();
    let n = rng.usize_below(16);
    let vctx = rng.bytes(n);
    let mbits: Vec<bool> = (0..bits).map(|_| rng.bool()).collect();
    let meas = IdpfInput::from_bools(&mbits);
    // Candidate prefixes at `level`: the measurement's own prefix plus a few others, deduplicated.
    let mut prefixes = vec![mbits[..=level].to_vec()];
    for _ in 0..rng.usize_below(3) {
        let p: Vec<bool> = (0..=level).map(|_| rng.bool()).collect();
        if !prefixes.contains(&p) {
            prefixes.push(p);
        }
    }
    let mut idpf_prefixes: Vec<IdpfInput> = prefixes.iter().map(|p| IdpfInput::from_bools(p)).collect();
    idpf_prefixes.sort();
    let agg_param = Poplar1AggregationParam::try_from_prefixes(idpf_prefixes).ok()?;
    let tape = rng.bytes(32 + 3 * 32);
    let (public, inputs) = catch(|| vdaf.shard_with_random(&vctx, &meas, &nonce, &tape)).ok()?.ok()?;
    let desc = json!({"vdaf": name, "bits": bits, "level": level, "measurement": mbits.iter().map(|b| if *b {'1'} else {'0'}).collect::<String>(),
        "prefixes": prefixes.iter().map(|p| p.iter().map(|b| if *b {'1'} else {'0'}).collect::<String>()).collect::<Vec<_>>(),
        "verify_key": hex(&key), "nonce": hex(&nonce), "ctx": hex(&vctx), "shard_random": hex(&tape)});
    Some(Setup {
        family: name.into(),
        mode: Mode::Eventual,
        leader: vdaf.clone(),
        helper: vdaf.clone(),
        scratch: vdaf.clone(),
        reference: vdaf,
        key,
        vctx,
        agg_param,
        nonce,
        public,
        inputs,
        log: None,
        desc,
    })
}

// =================================================================================================
// Driver
// =================================================================================================

const CRASH_SEEDS: [Option<u64>; 9] = [None, Some(0), Some(1), Some(2), Some(3), Some(4), Some(5), Some(6), Some(7)];

pub fn run(ctx: &mut Ctx) {
    let seed = ctx.seed;
    let quick = ctx.quick();
    let mut work = Work { next: 0 };

    // Model self-check (harness sanity, not a verdict): R+1 messages, Finish from helper iff R odd.
    for r in 1..=8usize {
        let (m, f) = model::exchange(r);
        assert_eq!(m.len(), r + 1);
        assert_eq!(m[r], (r % 2, Kind::Finish));
        assert_eq!(f[r % 2], model::St::FinishedWithOutbound);
        assert_eq!(f[1 - r % 2], model::St::Finished);
    }

    // ---- A. spy: fault-free exchanges with every crash plan, R = 1..6 ----------------------------
    let n_cfg = ctx.budget(24, 48);
    for c in 0..n_cfg {
        for rounds in 1..=6u8 {
            for pad in [0u8, 3, 9] {
                if !work.take(ctx) {
                    continue;
                }
                let su = spy_setup(seed.wrapping_add(c * 1009), rounds, pad, 0);
                honest(ctx, &su, &format!("R={rounds},pad={pad},c={c}"), &CRASH_SEEDS);
            }
        }
    }

    // ---- B. spy: every single fault at every delivery point, R = 1..4 ----------------------------
    let n_cfg = ctx.budget(48, 120);
    for c in 0..n_cfg {
        for rounds in 1..=4u8 {
            let pad = [0u8, 2, 5, 8][(c as usize + rounds as usize) % 4];
            let s = seed.wrapping_add(c * 2003);
            let maker = move |fresh: u64| spy_setup(s, rounds, pad, fresh);
            single_faults(ctx, &mut work, &maker, &format!("R={rounds},pad={pad},c={c}"), if quick { Gran::Full } else { Gran::Full3 }, true);
        }
    }

    // ---- C. spy: all pairs of faults, R = 1..3 -----------------------------------------------------
    // quick: pairs over class representatives; thorough: additionally every byte position (pad 0).
    let n_cfg = ctx.budget(4, 6);
    for c in 0..n_cfg {
        for rounds in 1..=3u8 {
            let pad = [1u8, 4, 0, 6][c as usize % 4];
            let s = seed.wrapping_add(c * 3001 + 17);
            let maker = move |fresh: u64| spy_setup(s, rounds, pad, fresh);
            pair_faults(ctx, &mut work, &maker, &format!("pairs,R={rounds},pad={pad},c={c}"), Gran::Reduced);
        }
    }
    if !quick {
        for pad in [0u8, 3] {
            for rounds in 1..=3u8 {
                let s = seed.wrapping_add(77 + pad as u64);
                let maker = move |fresh: u64| spy_setup(s, rounds, pad, fresh);
                pair_faults(ctx, &mut work, &maker, &format!("pairs-full,R={rounds},pad={pad}"), Gran::Full);
            }
        }
    }

    // ---- D. spy: sampled fault plans of depth 1..3 for R = 1..6 (per-shard streams) ---------------
    {
        let mut rng = ctx.rng("c12-sampled");
        let n = ctx.budget(1_600, 16_000);
        for rounds in 1..=6u8 {
            let pad = rng.below(10) as u8;
            let s = rng.u64();
            let maker = move |fresh: u64| spy_setup(s, rounds, pad, fresh);
            sampled_faults(ctx, &mut rng, &maker, &format!("sampled,R={rounds},pad={pad},s={s}"), n, 3);
        }
    }

    // ---- E. dummy VDAF, R = 1..6: happy paths, crash points, message-kind / framing faults ---------
    // Its messages are empty, so a replay of a message of the same kind is byte-identical to the
    // expected one and (by the "identical is not a fault" rule) never asserted.
    for rounds in 1..=6u32 {
        let maker = move |fresh: u64| dummy_setup(seed, rounds, fresh);
        if work.take(ctx) {
            honest(ctx, &maker(0), &format!("R={rounds}"), &CRASH_SEEDS);
        }
        single_faults(ctx, &mut work, &maker, &format!("R={rounds}"), Gran::Full3, true);
        if rounds <= 3 {
            pair_faults(ctx, &mut work, &maker, &format!("pairs,R={rounds}"), Gran::Reduced);
        }
    }

    // ---- F. Prio3 (1 round) and Poplar1 (2 rounds) -------------------------------------------------
    let n_cfg = ctx.budget(12, 24);
    for c in 0..n_cfg {
        let s = seed.wrapping_add(c * 4001);
        let mut r = Rng64::derive(s, &["c12-real"], 0);
        // Prio3Count: no joint randomness (empty verifier message).
        {
            let m = r.bool();
            let maker = move |fresh: u64| prio3_setup(s, "prio3-count", Prio3::new_count(2).unwrap(), &m, format!("{m}"), false, fresh).expect("prio3 count shard");
            if usable(ctx, &maker, "prio3") {
                if work.take(ctx) {
                    honest(ctx, &maker(0), &format!("c={c}"), &CRASH_SEEDS);
                }
                single_faults(ctx, &mut work, &maker, &format!("c={c}"), Gran::Full, true);
            }
        }
        // Prio3SumVec: joint randomness.
        {
            let len = 1 + r.usize_below(4);
            let max = [1u128, 2, 3, 255][r.usize_below(4)];
            let chunk = 1 + r.usize_below(3);
            let meas: Vec<u128> = (0..len).map(|_| r.below(max as u64 + 1) as u128).collect();
            let md = format!("{meas:?} (max {max}, chunk {chunk})");
            let maker = move |fresh: u64| {
                prio3_setup(s, "prio3-sumvec", Prio3::new_sum_vec(2, max, len, chunk).unwrap(), &meas, md.clone(), true, fresh).expect("prio3 sumvec shard")
            };
            if usable(ctx, &maker, "prio3") {
                if work.take(ctx) {
                    honest(ctx, &maker(0), &format!("c={c}"), &CRASH_SEEDS);
                }
                single_faults(ctx, &mut work, &maker, &format!("c={c}"), Gran::Full, true);
            }
        }
        // Prio3Histogram: joint randomness.
        {
            let len = 2 + r.usize_below(5);
            let chunk = 1 + r.usize_below(3);
            let meas = r.usize_below(len);
            let maker = move |fresh: u64| {
                prio3_setup(s, "prio3-histogram", Prio3::new_histogram(2, len, chunk).unwrap(), &meas, format!("{meas} of {len} (chunk {chunk})"), true, fresh)
                    .expect("prio3 histogram shard")
            };
            if usable(ctx, &maker, "prio3") {
                if work.take(ctx) {
                    honest(ctx, &maker(0), &format!("c={c}"), &CRASH_SEEDS);
                }
                single_faults(ctx, &mut work, &maker, &format!("c={c}"), Gran::Full, true);
            }
        }
        // Poplar1, inner level and leaf level.
        for leaf in [false, true] {
            let bits = 2 + r.usize_below(7);
            let level = if leaf { bits - 1 } else { r.usize_below(bits - 1) };
            let maker = move |fresh: u64| poplar1_setup(s, bits, level, fresh).expect("poplar1 shard");
            if usable(ctx, &maker, "poplar1") {
                if work.take(ctx) {
                    honest(ctx, &maker(0), &format!("c={c},bits={bits},level={level}"), &CRASH_SEEDS);
                }
                single_faults(ctx, &mut work, &maker, &format!("c={c},bits={bits},level={level}"), Gran::Full, true);
            }
        }
    }

    // ---- anti-vacuity (per shard) ------------------------------------------------------------------
    let c = |ctx: &Ctx, k: &str| ctx.counters.get(k).copied().unwrap_or(0);
    if c(ctx, "exchanges") == 0 {
        ctx.inconclusive("no exchange executed on this shard");
    }
    if c(ctx, "broadcast_reference_failed") > 0 {
        ctx.inconclusive("broadcast reference execution failed for an honest report (no oracle for those exchanges)");
    }
    if c(ctx, "faults_delivered") > 0 && c(ctx, "faults_refused") == 0 {
        ctx.inconclusive("faults were delivered but no refusal was observed");
    }
    if c(ctx, "fault_exchanges_sampled") > 0 && c(ctx, "exchanges_spy") == 0 {
        ctx.inconclusive("spy VDAF not exercised");
    }
}
