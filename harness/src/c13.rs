//! C13: aggregation is independent of order, grouping and batching of shares.
//!
//! For a multiset of output shares (from REAL verified reports of Prio3 types / Poplar1 inner and
//! leaf levels / Prio2, or arbitrary field vectors of the instance's shape) every aggregator's
//! shares are combined along many different trees of `accumulate` / `merge` / `aggregate` /
//! `From<OutputShare>` / `aggregate_init` (reversed, shuffled, left/right-deep, balanced, random
//! binary trees with random orientation, random partitions into batches with batch aggregates
//! crossing the wire, empty aggregates merged in at every position). All trees must give the
//! byte-identical encoded aggregate share as the single pass `aggregate(all shares)`, the single
//! pass must equal the element-wise sum computed by the harness on the ENCODINGS (little-endian
//! integers mod p), and unsharding tree results must give the same result as unsharding the
//! single-pass results. Mismatched operands (length +-1, empty, longer, inner-vs-leaf kind) must
//! make `merge` / `accumulate` return `Err` and leave the accumulator unchanged (encoding compared
//! before / after).

use crate::common::*;
use crate::proto::*;
use crate::zoo::*;
use num_bigint::BigUint;
use num_traits::{One, Zero};
use prio::codec::{Decode, Encode, ParameterizedDecode};
use prio::field::{Field255, Field64, FieldElement, FieldPrio2};
use prio::idpf::IdpfInput;
use prio::vdaf::poplar1::{Poplar1, Poplar1AggregationParam, Poplar1FieldVec};
use prio::vdaf::prio2::Prio2;
use prio::vdaf::prio3::Prio3;
use prio::vdaf::xof::{Xof, XofTurboShake128};
use prio::vdaf::{Aggregatable, AggregateShare, Aggregator, Client, Collector, OutputShare, Vdaf};
use serde_json::{json, Value};
use std::marker::PhantomData;

type VOf<K> = <K as Kit>::V;
type OutOf<K> = <VOf<K> as Vdaf>::OutputShare;
type AggOf<K> = <VOf<K> as Vdaf>::AggregateShare;
type ParamOf<K> = <VOf<K> as Vdaf>::AggregationParam;

/// What the generic checker needs to know about an instance.
pub trait Kit {
    type V: Aggregator<32, 16> + Collector;
    /// full description (for witnesses)
    fn name(&self) -> String;
    /// family for signatures ("Prio3/SumVec", "Prio2", "Poplar1/inner", "Poplar1/leaf")
    fn family(&self) -> String;
    fn vdaf(&self) -> &Self::V;
    fn agg_param(&self) -> &ParamOf<Self>;
    /// number of field elements in a well-formed share
    fn out_len(&self) -> usize;
    /// (element size in bytes, modulus) of this kind / of the other kind
    fn field(&self, other_kind: bool) -> (usize, BigUint);
    fn has_other_kind(&self) -> bool {
        false
    }
    /// Shares built from element encodings through the public constructors (any element count).
    fn mk_out(&self, elems: &[Vec<u8>], other_kind: bool) -> OutOf<Self>;
    fn mk_agg(&self, elems: &[Vec<u8>], other_kind: bool) -> AggOf<Self>;
    fn result_repr(&self, r: &<Self::V as Vdaf>::AggregateResult) -> String;
}

/// Panic class for signatures: file + message with every run of digits collapsed to one '#', and
/// any directory prefix up to "src/" removed.
fn pclass(p: &PanicInfo) -> String {
    let c = p.class();
    let c = match c.find("src/") {
        Some(i) => c[i..].to_string(),
        None => c,
    };
    let mut out = String::with_capacity(c.len());
    for ch in c.chars() {
        if ch == '#' && out.ends_with('#') {
            continue;
        }
        out.push(ch);
    }
    out
}

fn p_prio2() -> BigUint {
    BigUint::from(4_293_918_721u64)
}
fn p_255() -> BigUint {
    (BigUint::one() << 255) - BigUint::from(19u8)
}

// ---- field-vector kits (Prio3, Prio2) ---------------------------------------------------------

pub struct FvKit<'a, V: Vdaf, F> {
    vdaf: &'a V,
    name: String,
    family: String,
    out_len: usize,
    modulus: BigUint,
    repr: Box<dyn Fn(&V::AggregateResult) -> String + 'a>,
    _f: PhantomData<F>,
}

impl<V, F> Kit for FvKit<'_, V, F>
where
    F: FieldElement,
    V: Aggregator<32, 16, AggregationParam = (), OutputShare = OutputShare<F>, AggregateShare = AggregateShare<F>> + Collector,
{
    type V = V;
    fn name(&self) -> String {
        self.name.clone()
    }
    fn family(&self) -> String {
        self.family.clone()
    }
    fn vdaf(&self) -> &V {
        self.vdaf
    }
    fn agg_param(&self) -> &() {
        &()
    }
    fn out_len(&self) -> usize {
        self.out_len
    }
    fn field(&self, _other: bool) -> (usize, BigUint) {
        (F::ENCODED_SIZE, self.modulus.clone())
    }
    fn mk_out(&self, elems: &[Vec<u8>], _other: bool) -> OutputShare<F> {
        OutputShare::from(elems.iter().map(|b| F::get_decoded(b).expect("harness element encoding")).collect::<Vec<F>>())
    }
    fn mk_agg(&self, elems: &[Vec<u8>], _other: bool) -> AggregateShare<F> {
        AggregateShare::from(elems.iter().map(|b| F::get_decoded(b).expect("harness element encoding")).collect::<Vec<F>>())
    }
    fn result_repr(&self, r: &V::AggregateResult) -> String {
        (self.repr)(r)
    }
}

// ---- Poplar1 kit ------------------------------------------------------------------------------

pub struct PoplarKit<'a> {
    vdaf: &'a Poplar1<XofTurboShake128, 32>,
    bits: usize,
    param: Poplar1AggregationParam,
}

impl PoplarKit<'_> {
    fn is_leaf(&self) -> bool {
        self.param.level() == self.bits - 1
    }
}

fn poplar_vec(elems: &[Vec<u8>], leaf: bool) -> Poplar1FieldVec {
    if leaf {
        Poplar1FieldVec::Leaf(elems.iter().map(|b| Field255::get_decoded(b).expect("harness element encoding")).collect())
    } else {
        Poplar1FieldVec::Inner(elems.iter().map(|b| Field64::get_decoded(b).expect("harness element encoding")).collect())
    }
}

impl Kit for PoplarKit<'_> {
    type V = Poplar1<XofTurboShake128, 32>;
    fn name(&self) -> String {
        format!("Poplar1(bits={}) level={} prefixes={}", self.bits, self.param.level(), self.param.prefixes().len())
    }
    fn family(&self) -> String {
        if self.is_leaf() { "Poplar1/leaf".into() } else { "Poplar1/inner".into() }
    }
    fn vdaf(&self) -> &Self::V {
        self.vdaf
    }
    fn agg_param(&self) -> &Poplar1AggregationParam {
        &self.param
    }
    fn out_len(&self) -> usize {
        self.param.prefixes().len()
    }
    fn field(&self, other: bool) -> (usize, BigUint) {
        if self.is_leaf() != other {
            (32, p_255())
        } else {
            (8, BigUint::from(P64))
        }
    }
    fn has_other_kind(&self) -> bool {
        true
    }
    fn mk_out(&self, elems: &[Vec<u8>], other: bool) -> Poplar1FieldVec {
        poplar_vec(elems, self.is_leaf() != other)
    }
    fn mk_agg(&self, elems: &[Vec<u8>], other: bool) -> Poplar1FieldVec {
        poplar_vec(elems, self.is_leaf() != other)
    }
    fn result_repr(&self, r: &Vec<u64>) -> String {
        format!("{r:?}")
    }
}

// ---------------------------------------------------------------------------------------------
// Monitored operations
// ---------------------------------------------------------------------------------------------

#[derive(Debug)]
enum Fail {
    Err(&'static str, String),
    Panic(&'static str, PanicInfo),
}

macro_rules! op {
    ($name:expr, $e:expr) => {
        match catch(|| $e) {
            Ok(Ok(v)) => Ok(v),
            Ok(Err(e)) => Err(Fail::Err($name, e.to_string())),
            Err(p) => Err(Fail::Panic($name, p)),
        }
    };
}

struct Ops {
    merges: u64,
    accumulates: u64,
    aggregates: u64,
    inits: u64,
    froms: u64,
    wires: u64,
    empties_merged: u64,
}

struct T<'k, K: Kit> {
    kit: &'k K,
    outs: &'k [OutOf<K>],
    ops: Ops,
    force_pos: Option<(usize, bool)>,
}

impl<K: Kit> T<'_, K> {
    fn init(&mut self) -> Result<AggOf<K>, Fail> {
        self.ops.inits += 1;
        match catch(|| self.kit.vdaf().aggregate_init(self.kit.agg_param())) {
            Ok(a) => Ok(a),
            Err(p) => Err(Fail::Panic("aggregate_init", p)),
        }
    }
    fn merge(&mut self, a: &mut AggOf<K>, b: &AggOf<K>) -> Result<(), Fail> {
        self.ops.merges += 1;
        op!("merge", a.merge(b))
    }
    fn acc(&mut self, a: &mut AggOf<K>, i: usize) -> Result<(), Fail> {
        self.ops.accumulates += 1;
        let o = &self.outs[i];
        op!("accumulate", a.accumulate(o))
    }
    fn from(&mut self, i: usize) -> Result<AggOf<K>, Fail> {
        self.ops.froms += 1;
        let o = self.outs[i].clone();
        match catch(|| AggOf::<K>::from(o)) {
            Ok(a) => Ok(a),
            Err(p) => Err(Fail::Panic("From<OutputShare>", p)),
        }
    }
    fn aggregate(&mut self, idx: &[usize]) -> Result<AggOf<K>, Fail> {
        self.ops.aggregates += 1;
        let v: Vec<OutOf<K>> = idx.iter().map(|i| self.outs[*i].clone()).collect();
        op!("aggregate", self.kit.vdaf().aggregate(self.kit.agg_param(), v))
    }
    fn wire(&mut self, a: &AggOf<K>) -> Result<AggOf<K>, Fail> {
        self.ops.wires += 1;
        let b = op!("encode-aggregate-share", a.get_encoded())?;
        op!("decode-aggregate-share", AggOf::<K>::get_decoded_with_param(&(self.kit.vdaf(), self.kit.agg_param()), &b))
    }
    /// A leaf aggregate holding exactly share i, built in one of three ways.
    fn leaf(&mut self, i: usize, how: u64) -> Result<AggOf<K>, Fail> {
        match how % 3 {
            0 => self.from(i),
            1 => {
                let mut a = self.init()?;
                self.acc(&mut a, i)?;
                Ok(a)
            }
            _ => self.aggregate(&[i]),
        }
    }
    /// Combine two aggregates in a random orientation (commutativity).
    fn join(&mut self, mut a: AggOf<K>, mut b: AggOf<K>, flip: bool) -> Result<AggOf<K>, Fail> {
        if flip {
            self.merge(&mut b, &a)?;
            Ok(b)
        } else {
            self.merge(&mut a, &b)?;
            Ok(a)
        }
    }
    /// Random binary tree over idx.
    fn random_tree(&mut self, idx: &[usize], rng: &mut Rng64) -> Result<AggOf<K>, Fail> {
        match idx.len() {
            0 => self.init(),
            1 => self.leaf(idx[0], rng.u64()),
            n => match rng.below(6) {
                0 => self.aggregate(idx),
                1 => {
                    // sequential accumulation onto a sub-tree
                    let k = rng.usize_below(n);
                    let mut a = self.random_tree(&idx[..k], rng)?;
                    for i in &idx[k..] {
                        self.acc(&mut a, *i)?;
                    }
                    Ok(a)
                }
                _ => {
                    let k = 1 + rng.usize_below(n - 1);
                    let mut l = self.random_tree(&idx[..k], rng)?;
                    let mut r = self.random_tree(&idx[k..], rng)?;
                    if rng.chance(1, 6) {
                        l = self.wire(&l)?;
                    }
                    if rng.chance(1, 6) {
                        r = self.wire(&r)?;
                    }
                    if rng.chance(1, 8) {
                        // an empty aggregate merged in on the way
                        let e = self.init()?;
                        self.ops.empties_merged += 1;
                        l = self.join(l, e, rng.bool())?;
                    }
                    self.join(l, r, rng.bool())
                }
            },
        }
    }
    fn balanced(&mut self, idx: &[usize], how: u64) -> Result<AggOf<K>, Fail> {
        match idx.len() {
            0 => self.init(),
            1 => self.leaf(idx[0], how),
            n => {
                let l = self.balanced(&idx[..n / 2], how)?;
                let r = self.balanced(&idx[n / 2..], how)?;
                self.join(l, r, false)
            }
        }
    }
    fn shape(&mut self, name: &str, idx: &[usize], rng: &mut Rng64) -> Result<AggOf<K>, Fail> {
        let n = idx.len();
        match name {
            "aggregate" => self.aggregate(idx),
            "accumulate-left-deep" => {
                let mut a = self.init()?;
                for i in idx {
                    self.acc(&mut a, *i)?;
                }
                Ok(a)
            }
            "merge-left-deep-from" => {
                if n == 0 {
                    return self.init();
                }
                let mut a = self.from(idx[0])?;
                for i in &idx[1..] {
                    let b = self.from(*i)?;
                    self.merge(&mut a, &b)?;
                }
                Ok(a)
            }
            "merge-right-deep" => {
                if n == 0 {
                    return self.init();
                }
                let how = rng.u64();
                let mut acc = self.leaf(idx[n - 1], how)?;
                for i in idx[..n - 1].iter().rev() {
                    let mut t = self.leaf(*i, how)?;
                    self.merge(&mut t, &acc)?;
                    acc = t;
                }
                Ok(acc)
            }
            "balanced" => self.balanced(idx, rng.u64()),
            "batches" => {
                // random partition into k batches (some may be empty), each aggregated separately,
                // crossing the wire, merged along a random tree of batches
                let k = 1 + rng.usize_below(n.clamp(1, 8));
                let mut batches: Vec<Vec<usize>> = vec![vec![]; k];
                for i in idx {
                    batches[rng.usize_below(k)].push(*i);
                }
                let mut aggs = vec![];
                for b in &batches {
                    let a = self.aggregate(b)?;
                    if b.is_empty() {
                        self.ops.empties_merged += 1;
                    }
                    aggs.push(self.wire(&a)?);
                }
                rng.shuffle(&mut aggs);
                while aggs.len() > 1 {
                    let i = rng.usize_below(aggs.len() - 1);
                    let b = aggs.remove(i + 1);
                    let a = aggs.remove(i);
                    let j = self.join(a, b, rng.bool())?;
                    aggs.insert(i, j);
                }
                Ok(aggs.pop().unwrap())
            }
            "empty-at-position" => {
                // left-deep merge of leaves with an empty aggregate merged in at one position, in
                // either orientation; `force_pos` enumerates every position for small multisets
                let (pos, flip) = match self.force_pos.take() {
                    Some(x) => x,
                    None => (rng.usize_below(n + 1), rng.bool()),
                };
                let how = rng.u64();
                let mut acc: Option<AggOf<K>> = None;
                for k in 0..=n {
                    if k == pos {
                        let e = self.init()?;
                        self.ops.empties_merged += 1;
                        acc = Some(match acc {
                            None => e,
                            Some(a) => self.join(a, e, flip)?,
                        });
                    }
                    if k < n {
                        let l = self.leaf(idx[k], how)?;
                        acc = Some(match acc {
                            None => l,
                            Some(a) => self.join(a, l, false)?,
                        });
                    }
                }
                Ok(acc.unwrap())
            }
            _ => self.random_tree(idx, rng),
        }
    }
}

// ---------------------------------------------------------------------------------------------
// Reference: element-wise sum on encodings
// ---------------------------------------------------------------------------------------------

fn le_to_big(b: &[u8]) -> BigUint {
    BigUint::from_bytes_le(b)
}

fn big_to_le(v: &BigUint, size: usize) -> Vec<u8> {
    let mut b = v.to_bytes_le();
    b.resize(size, 0);
    b
}

/// Element-wise sum mod p of encoded shares (all of `len` elements of `size` bytes).
fn ref_sum(encs: &[Vec<u8>], len: usize, size: usize, p: &BigUint) -> Option<Vec<u8>> {
    if size <= 16 {
        // fast path in u128 with BigUint-free modular addition
        let pp: u128 = {
            let d = p.to_u64_digits();
            d.first().copied().unwrap_or(0) as u128 | ((d.get(1).copied().unwrap_or(0) as u128) << 64)
        };
        let mut acc = vec![0u128; len];
        for e in encs {
            if e.len() != len * size {
                return None;
            }
            for (k, ch) in e.chunks(size).enumerate() {
                let mut v = 0u128;
                for (i, byte) in ch.iter().enumerate() {
                    v |= (*byte as u128) << (8 * i);
                }
                if v >= pp {
                    return None;
                }
                acc[k] = addmod(acc[k], v, pp);
            }
        }
        let mut out = Vec::with_capacity(len * size);
        for v in acc {
            out.extend_from_slice(&v.to_le_bytes()[..size]);
        }
        return Some(out);
    }
    let mut acc = vec![BigUint::zero(); len];
    for e in encs {
        if e.len() != len * size {
            return None;
        }
        for (k, ch) in e.chunks(size).enumerate() {
            let v = le_to_big(ch);
            if &v >= p {
                return None;
            }
            acc[k] = (&acc[k] + v) % p;
        }
    }
    let mut out = Vec::with_capacity(len * size);
    for v in &acc {
        out.extend_from_slice(&big_to_le(v, size));
    }
    Some(out)
}

fn rand_elem(rng: &mut Rng64, size: usize, p: &BigUint) -> Vec<u8> {
    let v = match rng.below(8) {
        0 => BigUint::zero(),
        1 => BigUint::one(),
        2 => p - BigUint::one(),
        3 => p - BigUint::from(2u8),
        _ => le_to_big(&rng.bytes(size + 8)) % p,
    };
    big_to_le(&v, size)
}

fn rand_elems(rng: &mut Rng64, n: usize, size: usize, p: &BigUint) -> Vec<Vec<u8>> {
    let style = rng.below(6);
    (0..n)
        .map(|_| match style {
            0 => big_to_le(&BigUint::zero(), size),
            1 => big_to_le(&(p - BigUint::one()), size),
            _ => rand_elem(rng, size, p),
        })
        .collect()
}

// ---------------------------------------------------------------------------------------------
// The generic checker
// ---------------------------------------------------------------------------------------------

const PLAN: [(&str, u8); 20] = [
    ("aggregate", 1),
    ("aggregate", 2),
    ("accumulate-left-deep", 1),
    ("accumulate-left-deep", 2),
    ("merge-left-deep-from", 0),
    ("merge-left-deep-from", 2),
    ("merge-right-deep", 0),
    ("merge-right-deep", 2),
    ("balanced", 0),
    ("balanced", 2),
    ("batches", 0),
    ("batches", 2),
    ("batches", 2),
    ("empty-at-position", 0),
    ("empty-at-position", 2),
    ("empty-at-position", 2),
    ("random-tree", 0),
    ("random-tree", 2),
    ("random-tree", 2),
    ("random-tree", 2),
];

fn fail_violation<K: Kit>(ctx: &mut Ctx, kit: &K, shape: &str, source: &str, f: Fail, n: usize) {
    match f {
        Fail::Err(op, e) => ctx.violation(
            format!("{}|{op}-err|{shape}", kit.family()),
            format!("{op} of well-formed shares of one instance returned an error"),
            json!({"instance": kit.name(), "shares": n, "source": source, "shape": shape, "err": e}),
        ),
        Fail::Panic(op, p) => ctx.violation(
            format!("{}|{op}-panic|{shape}|{}", kit.family(), pclass(&p)),
            format!("{op} of well-formed shares of one instance panicked"),
            json!({"instance": kit.name(), "shares": n, "source": source, "shape": shape, "panic": p.message, "at": p.location}),
        ),
    }
}

fn enc_of<E: Encode>(x: &E) -> Vec<u8> {
    x.get_encoded().unwrap_or_default()
}

/// `outs[j]` = the output shares held by aggregator j (same number for every j).
pub fn check_multiset<K: Kit>(ctx: &mut Ctx, kit: &K, outs: &[Vec<OutOf<K>>], source: &str, rng: &mut Rng64, trees: usize) {
    let n = outs.first().map(|v| v.len()).unwrap_or(0);
    let (size, p) = kit.field(false);
    let len = kit.out_len();
    let fam = kit.family();
    // Witness: all shares in full when they fit in 48 KiB of hex, else the first 8 (truncated).
    let wit_shares = |j: usize| -> Value {
        let total: usize = outs[j].iter().map(|o| enc_of(o).len()).sum();
        if total <= 24 * 1024 {
            let v: Vec<String> = outs[j].iter().map(|o| hex(&enc_of(o))).collect();
            json!({"aggregator": j, "count": outs[j].len(), "output_shares_hex": v})
        } else {
            let v: Vec<String> = outs[j].iter().take(8).map(|o| hex_trunc(&enc_of(o), 96)).collect();
            json!({"aggregator": j, "count": outs[j].len(), "first_shares_hex_truncated": v})
        }
    };
    let mut single: Vec<AggOf<K>> = vec![];
    let mut tree_results: Vec<AggOf<K>> = vec![];
    let mut shapes_used: Vec<String> = vec![];
    for (j, oj) in outs.iter().enumerate() {
        let mut t = T { kit, outs: oj, ops: Ops { merges: 0, accumulates: 0, aggregates: 0, inits: 0, froms: 0, wires: 0, empties_merged: 0 }, force_pos: None };
        let idx: Vec<usize> = (0..n).collect();
        // single pass
        let s = match t.aggregate(&idx) {
            Ok(s) => s,
            Err(f) => {
                fail_violation(ctx, kit, "single-pass", source, f, n);
                return;
            }
        };
        ctx.eval();
        let s_enc = enc_of(&s);
        // single pass == element-wise sum of the encodings
        let encs: Vec<Vec<u8>> = oj.iter().map(|o| enc_of(o)).collect();
        match ref_sum(&encs, len, size, &p) {
            Some(want) => {
                if want != s_enc {
                    ctx.violation(
                        format!("{fam}|single-pass-vs-elementwise-sum"),
                        "aggregate(all shares) differs from the element-wise sum (mod p) of the encoded output shares",
                        json!({"instance": kit.name(), "source": source, "shares": wit_shares(j), "got": hex_trunc(&s_enc, 256), "want": hex_trunc(&want, 256)}),
                    );
                } else {
                    ctx.count("single_pass_equals_reference_sum");
                }
            }
            None => {
                ctx.count("reference_sum_unavailable");
                ctx.note(format!("{fam}: output share encodings are not {len} x {size}-byte reduced elements"));
            }
        }
        // aggregate_init is all-zero and of the right shape
        match t.init() {
            Ok(e) => {
                if enc_of(&e) != vec![0u8; len * size] {
                    ctx.violation(format!("{fam}|aggregate_init-not-zero"), "aggregate_init is not the all-zero vector of the instance's shape", json!({"instance": kit.name(), "got": hex_trunc(&enc_of(&e), 128)}));
                }
            }
            Err(f) => fail_violation(ctx, kit, "aggregate_init", source, f, n),
        }
        // trees
        let mut last = None;
        let extra = if n <= 10 { 2 * (n + 1) } else { 0 };
        for k in 0..trees + extra {
            // Tree plan: the first 20 are fixed (shape, order), further ones are random trees and
            // batchings; small multisets additionally get an empty aggregate at EVERY position.
            let (shape, order_mode) = if k < PLAN.len() {
                PLAN[k]
            } else if k < trees {
                (["random-tree", "batches"][k % 2], 2)
            } else {
                ("empty-at-position", 0)
            };
            if k >= trees {
                let e = k - trees;
                t.force_pos = Some((e / 2, e % 2 == 1));
            }
            let mut order = idx.clone();
            match order_mode {
                0 => {}
                1 => order.reverse(),
                _ => rng.shuffle(&mut order),
            }
            let r = t.shape(shape, &order, rng);
            ctx.eval();
            match r {
                Ok(a) => {
                    let e = enc_of(&a);
                    if e != s_enc {
                        let ord: Vec<usize> = order.iter().take(64).copied().collect();
                        ctx.violation(
                            format!("{fam}|tree-differs-from-single-pass|{shape}"),
                            "a different order / grouping / batching of the same output shares gives a different aggregate share",
                            json!({"instance": kit.name(), "source": source, "shape": shape, "order": ord, "shares": wit_shares(j), "single_pass": hex_trunc(&s_enc, 256), "tree": hex_trunc(&e, 256)}),
                        );
                    } else {
                        ctx.count("trees_identical");
                    }
                    last = Some(a);
                }
                Err(f) => fail_violation(ctx, kit, shape, source, f, n),
            }
            if k < 16 {
                shapes_used.push(shape.to_string());
            }
            ctx.set_insert("tree_shapes", shape);
        }
        ctx.count_n("op_merge", t.ops.merges);
        ctx.count_n("op_accumulate", t.ops.accumulates);
        ctx.count_n("op_aggregate", t.ops.aggregates);
        ctx.count_n("op_aggregate_init", t.ops.inits);
        ctx.count_n("op_from_output_share", t.ops.froms);
        ctx.count_n("op_wire_roundtrip", t.ops.wires);
        ctx.count_n("empty_aggregates_merged", t.ops.empties_merged);
        tree_results.push(last.unwrap_or_else(|| s.clone()));
        single.push(s);
    }
    // unshard(single pass) vs unshard(tree results)
    let un = |v: Vec<AggOf<K>>| -> Result<Result<String, String>, PanicInfo> {
        catch(|| kit.vdaf().unshard(kit.agg_param(), v, n)).map(|r| r.map(|x| kit.result_repr(&x)).map_err(|e| e.to_string()))
    };
    let a = un(single.clone());
    let b = un(tree_results);
    ctx.eval();
    match (&a, &b) {
        (Ok(x), Ok(y)) => {
            if x != y {
                ctx.violation(format!("{fam}|unshard-differs"), "unsharding tree-aggregated shares differs from unsharding the single-pass shares",
                    json!({"instance": kit.name(), "source": source, "single_pass": format!("{x:?}"), "tree": format!("{y:?}")}));
            } else if x.is_ok() {
                ctx.count("unshard_identical");
            } else {
                ctx.count("unshard_identical_err");
            }
        }
        _ => {
            if source == "real" {
                let pi = a.err().or(b.err()).unwrap();
                ctx.violation(format!("{fam}|unshard-panic|{}", pclass(&pi)), "unshard panicked on aggregate shares of verified reports", json!({"instance": kit.name(), "panic": pi.message, "at": pi.location}));
            } else {
                ctx.count("unshard_panics_on_arbitrary_vectors");
            }
        }
    }
    ctx.count(&format!("multisets_{source}"));
    ctx.count(&format!("multisets_{fam}"));
    ctx.max("max_shares", n as u64);
    ctx.max("max_share_len", len as u64);
    ctx.nontrivial(digest(&[kit.name().as_bytes(), source.as_bytes(), &(n as u64).to_le_bytes(), &enc_of(&single[0])]));

    // ---- mismatched operands ------------------------------------------------------------------
    let base = if rng.bool() { single[0].clone() } else { kit.vdaf().aggregate_init(kit.agg_param()) };
    let mut cases: Vec<(String, usize, bool)> = vec![(format!("len+1"), len + 1, false), ("len*2+3".into(), 2 * len + 3, false)];
    if len >= 1 {
        cases.push(("len-1".into(), len - 1, false));
    }
    if len >= 2 {
        cases.push(("empty".into(), 0, false));
    }
    if kit.has_other_kind() {
        cases.push(("other-kind-same-len".into(), len, true));
        cases.push(("other-kind-len+1".into(), len + 1, true));
    }
    for (cname, clen, other) in cases {
        let (sz, pp) = kit.field(other);
        let elems = rand_elems(rng, clen, sz, &pp);
        let bad_out = kit.mk_out(&elems, other);
        let bad_agg = kit.mk_agg(&elems, other);
        let before = enc_of(&base);
        // accumulate(bad output share)
        let mut acc = base.clone();
        let r = catch(|| acc.accumulate(&bad_out));
        judge_mismatch(ctx, kit, "accumulate", &cname, r, &before, &enc_of(&acc), &enc_of(&bad_out));
        // merge(bad aggregate share)
        let mut acc = base.clone();
        let r = catch(|| acc.merge(&bad_agg));
        judge_mismatch(ctx, kit, "merge", &cname, r, &before, &enc_of(&acc), &enc_of(&bad_agg));
        // the other direction: the mismatched aggregate as accumulator
        let mut bad = bad_agg.clone();
        let bad_before = enc_of(&bad);
        let r = catch(|| bad.merge(&base));
        judge_mismatch(ctx, kit, "merge-into-mismatched", &cname, r, &bad_before, &enc_of(&bad), &before);
        // unshard given aggregate shares that ALL mismatch the aggregation parameter in the same
        // way (consistent among themselves): the collector must refuse them as well.
        let n_aggs = kit.vdaf().num_aggregators();
        let bads: Vec<AggOf<K>> = (0..n_aggs).map(|_| kit.mk_agg(&rand_elems(rng, clen, sz, &pp), other)).collect();
        let bad_encs: Vec<String> = bads.iter().map(|b| hex_trunc(&enc_of(b), 64)).collect();
        match catch(|| kit.vdaf().unshard(kit.agg_param(), bads, 1)) {
            Ok(Err(_)) => ctx.count("unshard_mismatch_refused"),
            Ok(Ok(r)) => ctx.violation(format!("{fam}|unshard|{cname}|accepted"), "unshard accepted aggregate shares whose length / tree level does not match the aggregation parameter",
                json!({"instance": kit.name(), "case": cname, "shares": bad_encs, "result": kit.result_repr(&r)})),
            Err(pi) => {
                ctx.count("unshard_mismatch_panics");
                ctx.note(format!("unshard panicked on mismatched aggregate shares ({}): C16's subject", pclass(&pi)));
            }
        }
        // Aggregator::aggregate over batches that contain mismatched output shares, at every
        // position and also when EVERY share of the batch has the same wrong shape: the batch must be
        // refused exactly as aggregate_init + accumulate refuses it (the shape of an aggregate is
        // dictated by the aggregation parameter, not by the first share of the batch).
        let (gsz, gpp) = kit.field(false);
        let good = |rng: &mut Rng64| kit.mk_out(&rand_elems(rng, len, gsz, &gpp), false);
        let bad = |rng: &mut Rng64| kit.mk_out(&rand_elems(rng, clen, sz, &pp), other);
        let batches: Vec<(&str, Vec<OutOf<K>>)> = vec![
            ("single-stray", vec![bad(rng)]),
            ("all-stray", vec![bad(rng), bad(rng), bad(rng)]),
            ("stray-first", vec![bad(rng), good(rng), good(rng)]),
            ("stray-last", vec![good(rng), good(rng), bad(rng)]),
            ("stray-middle", vec![good(rng), bad(rng), good(rng)]),
        ];
        for (bname, batch) in batches {
            let encs: Vec<String> = batch.iter().map(|b| hex_trunc(&enc_of(b), 64)).collect();
            ctx.eval();
            match catch(|| kit.vdaf().aggregate(kit.agg_param(), batch)) {
                Ok(Err(_)) => ctx.count("aggregate_batch_mismatch_refused"),
                Ok(Ok(a)) => ctx.violation(format!("{fam}|aggregate|{cname}|{bname}|accepted"), "Aggregator::aggregate accepted a batch containing output shares whose length / tree level does not match the aggregation parameter",
                    json!({"instance": kit.name(), "case": cname, "batch": bname, "output_shares": encs, "aggregate": hex_trunc(&enc_of(&a), 128)})),
                Err(pi) => ctx.violation(format!("{fam}|aggregate|{cname}|{bname}|panic|{}", pclass(&pi)), "Aggregator::aggregate panicked on a batch containing a mismatched output share instead of refusing it",
                    json!({"instance": kit.name(), "case": cname, "batch": bname, "output_shares": encs, "panic": pi.message, "at": pi.location})),
            }
        }
        ctx.evals(4);
    }
    // positive control for the mismatch oracle: a well-formed operand IS accepted and changes the
    // accumulator exactly by the element-wise sum
    {
        let elems = rand_elems(rng, len, size, &p);
        let good = kit.mk_out(&elems, false);
        let mut acc = base.clone();
        let before = enc_of(&acc);
        match catch(|| acc.accumulate(&good)) {
            Ok(Ok(())) => {
                let want = ref_sum(&[before.clone(), enc_of(&good)], len, size, &p);
                if want.as_deref() != Some(&enc_of(&acc)[..]) {
                    ctx.violation(format!("{fam}|accumulate-not-elementwise-sum"), "accumulate of a well-formed share is not the element-wise sum",
                        json!({"instance": kit.name(), "before": hex_trunc(&before, 128), "share": hex_trunc(&enc_of(&good), 128), "after": hex_trunc(&enc_of(&acc), 128)}));
                } else {
                    ctx.count("mismatch_positive_controls");
                }
            }
            Ok(Err(e)) => ctx.violation(format!("{fam}|accumulate-err|control"), "accumulate refused a well-formed share built through the public constructor", json!({"instance": kit.name(), "err": e.to_string()})),
            Err(pi) => ctx.violation(format!("{fam}|accumulate-panic|control|{}", pclass(&pi)), "accumulate panicked on a well-formed share", json!({"instance": kit.name(), "panic": pi.message, "at": pi.location})),
        }
    }
    if ctx.samples.len() < ctx.max_samples && rng.chance(1, 40) {
        ctx.sample(|| json!({"instance": kit.name(), "source": source, "aggregators": outs.len(), "shares_per_aggregator": n, "trees_per_aggregator": trees, "first_shapes": shapes_used.iter().take(8).collect::<Vec<_>>()}));
    }
}

#[allow(clippy::too_many_arguments)]
fn judge_mismatch<K: Kit>(ctx: &mut Ctx, kit: &K, op: &str, case: &str, r: Result<Result<(), prio::vdaf::VdafError>, PanicInfo>, before: &[u8], after: &[u8], operand: &[u8]) {
    let fam = kit.family();
    let wit = |extra: Value| json!({"instance": kit.name(), "operation": op, "case": case, "accumulator_before": hex_trunc(before, 256), "accumulator_after": hex_trunc(after, 256), "operand": hex_trunc(operand, 256), "detail": extra});
    match r {
        Ok(Err(_)) => {
            if before != after {
                ctx.violation(format!("{fam}|{op}|{case}|accumulator-changed"), "a refused merge/accumulate changed the accumulator", wit(json!(null)));
            } else {
                ctx.count("mismatches_refused_unchanged");
                ctx.count(&format!("mismatch_{case}"));
            }
        }
        Ok(Ok(())) => {
            ctx.violation(format!("{fam}|{op}|{case}|accepted"), "merge/accumulate of an operand of mismatched length / kind returned Ok", wit(json!({"changed": before != after})));
        }
        Err(pi) => {
            ctx.violation(format!("{fam}|{op}|{case}|panic|{}", pclass(&pi)), "merge/accumulate of a mismatched operand panicked instead of refusing", wit(json!({"panic": pi.message, "at": pi.location, "changed": before != after})));
        }
    }
}

/// Arbitrary field vectors of the instance's shape, for every aggregator.
fn arbitrary_outs<K: Kit>(kit: &K, aggs: usize, n: usize, rng: &mut Rng64) -> Vec<Vec<OutOf<K>>> {
    let (size, p) = kit.field(false);
    (0..aggs).map(|_| (0..n).map(|_| kit.mk_out(&rand_elems(rng, kit.out_len(), size, &p), false)).collect()).collect()
}

fn gen_n(rng: &mut Rng64) -> usize {
    match rng.below(12) {
        0 => rng.usize_below(5),
        1 => 60,
        _ => 5 + rng.usize_below(56),
    }
}

// ---------------------------------------------------------------------------------------------
// Sources of output shares
// ---------------------------------------------------------------------------------------------

struct V13<'a> {
    rng: &'a mut Rng64,
    real: bool,
    n: usize,
    trees: usize,
}

impl Prio3Visitor for V13<'_> {
    fn visit<TT: Kinded, PX: Xof<32>>(&mut self, ctx: &mut Ctx, p: &Params, cfg: &VdafCfg, vdaf: Prio3<TT, PX, 32>)
    where
        TT::Field: ZField,
    {
        let rng = &mut *self.rng;
        let name = format!("Prio3 {} aggs={} proofs={}", p.describe(), cfg.aggs, cfg.proofs);
        let kit: FvKit<'_, Prio3<TT, PX, 32>, TT::Field> = FvKit {
            vdaf: &vdaf,
            name: name.clone(),
            family: format!("Prio3/{}", p.kind.name()),
            out_len: p.output_len(),
            modulus: BigUint::from(p.p),
            repr: Box::new(|r| format!("{:?}", TT::result(r))),
            _f: PhantomData,
        };
        let aggs = cfg.aggs as usize;
        if !self.real {
            let outs = arbitrary_outs(&kit, aggs, self.n, rng);
            check_multiset(ctx, &kit, &outs, "arbitrary", rng, self.trees);
            return;
        }
        let vctx = b"c13".to_vec();
        let key: [u8; 32] = rng.array();
        let mut outs: Vec<Vec<OutputShare<TT::Field>>> = vec![vec![]; aggs];
        let mut stats = WireStats::default();
        let mut anomaly = None;
        for _ in 0..self.n {
            let m = p.gen_measurement(rng);
            let lm = TT::meas(p, &m);
            let nonce: [u8; 16] = rng.array();
            let Ok(Ok((ps, shares))) = catch(|| vdaf.shard(&vctx, &lm, &nonce)) else {
                ctx.count("real_reports_not_sharded");
                continue;
            };
            let psb = enc(&ps, &mut anomaly);
            let isb: Vec<Vec<u8>> = shares.iter().map(|s| enc(s, &mut anomaly)).collect();
            match verify_report_simple::<_, 32>(&vdaf, &key, &vctx, &(), &nonce, &psb, &isb, &mut no_tamper, &mut stats, &mut anomaly) {
                Outcome::Finished(o) if o.len() == aggs => {
                    for (j, x) in o.into_iter().enumerate() {
                        outs[j].push(x);
                    }
                    ctx.count("real_reports_verified");
                }
                _ => ctx.count("real_reports_not_verified"),
            }
        }
        check_multiset(ctx, &kit, &outs, "real", rng, self.trees);
    }
}

fn run_prio3(ctx: &mut Ctx, rng: &mut Rng64, real: bool, trees: usize) {
    let kind = Kind::ALL[rng.usize_below(Kind::ALL.len())];
    let p = gen_params(rng, kind, if real { 96 } else { 300 });
    let mut cfg = gen_cfg(rng, kind, false);
    cfg.aggs = cfg.aggs.min(if real { 3 } else { 5 });
    cfg.proofs = cfg.proofs.min(2);
    let n = if real { gen_n(rng).min(24) } else { gen_n(rng) };
    let mut v = V13 { rng, real, n, trees };
    if let Err(e) = with_prio3(ctx, &p, &cfg, &mut v) {
        ctx.note(format!("Prio3 constructor refused {}: {e}", p.describe()));
    }
}

fn run_prio2(ctx: &mut Ctx, rng: &mut Rng64, real: bool, trees: usize) {
    let len = match rng.below(6) {
        0 => rng.usize_below(4),
        1 => [7, 8, 15, 16, 17, 31, 32, 33][rng.usize_below(8)],
        _ => 1 + rng.usize_below(if real { 64 } else { 300 }),
    };
    let Ok(vdaf) = Prio2::new(len) else { return };
    let kit: FvKit<'_, Prio2, FieldPrio2> = FvKit { vdaf: &vdaf, name: format!("Prio2(input_len={len})"), family: "Prio2".into(), out_len: len, modulus: p_prio2(), repr: Box::new(|r| format!("{r:?}")), _f: PhantomData };
    let n = gen_n(rng);
    if !real {
        let outs = arbitrary_outs(&kit, 2, n, rng);
        check_multiset(ctx, &kit, &outs, "arbitrary", rng, trees);
        return;
    }
    let key: [u8; 32] = rng.array();
    let mut outs: Vec<Vec<OutputShare<FieldPrio2>>> = vec![vec![]; 2];
    let mut sums = vec![0u64; len];
    let mut stats = WireStats::default();
    let mut anomaly = None;
    for _ in 0..n {
        let m: Vec<u32> = (0..len).map(|_| rng.below(2) as u32).collect();
        let nonce: [u8; 16] = rng.array();
        let Ok(Ok(((), shares))) = catch(|| vdaf.shard(b"", &m, &nonce)) else {
            ctx.count("real_reports_not_sharded");
            continue;
        };
        let isb: Vec<Vec<u8>> = shares.iter().map(|s| enc(s, &mut anomaly)).collect();
        match verify_report_simple::<_, 32>(&vdaf, &key, b"", &(), &nonce, &[], &isb, &mut no_tamper, &mut stats, &mut anomaly) {
            Outcome::Finished(o) if o.len() == 2 => {
                for (j, x) in o.into_iter().enumerate() {
                    outs[j].push(x);
                }
                for (s, x) in sums.iter_mut().zip(m.iter()) {
                    *s += *x as u64;
                }
                ctx.count("real_reports_verified");
            }
            _ => ctx.count("real_reports_not_verified"),
        }
    }
    check_multiset(ctx, &kit, &outs, "real", rng, trees);
}

fn gen_prefixes(rng: &mut Rng64, level: usize, must: &[Vec<bool>], extra: usize) -> Vec<IdpfInput> {
    let mut set: std::collections::BTreeSet<Vec<bool>> = must.iter().map(|m| m[..=level].to_vec()).collect();
    let cap = if level + 1 >= 16 { usize::MAX } else { 1usize << (level + 1) };
    let want = (set.len() + extra).min(cap);
    let mut tries = 0;
    while set.len() < want && tries < 10 * want + 100 {
        set.insert((0..=level).map(|_| rng.bool()).collect());
        tries += 1;
    }
    set.into_iter().map(|b| crate::common::to_input(&b)).collect()
}

fn run_poplar(ctx: &mut Ctx, rng: &mut Rng64, real: bool, leaf: bool, trees: usize) {
    // Deep trees up to the largest bit length an aggregation parameter can express (level is a u16): the
    // empty aggregate, accumulate and merge must behave at level 65535 as they do anywhere else. Cheap with
    // arbitrary shares (1 case in 6); with real reports only a few per shard (1 in 40) and tiny batches.
    const DEEP: [usize; 12] = [64, 65, 128, 255, 256, 257, 1024, 21846, 32768, 65534, 65535, 65536];
    let deep = if real { rng.chance(1, 40) } else { rng.chance(1, 6) };
    let bits = if deep {
        ctx.count("poplar_deep_tree_cases");
        *rng.choose(&DEEP)
    } else {
        match rng.below(5) {
            0 => 1 + rng.usize_below(3),
            1 => 16 + rng.usize_below(40),
            _ => 2 + rng.usize_below(12),
        }
    };
    let level = if leaf || bits == 1 {
        bits - 1
    } else if deep && rng.bool() {
        bits - 2
    } else {
        rng.usize_below(bits - 1)
    };
    if deep && level == 65535 {
        ctx.count("poplar_level_65535_cases");
    }
    let vdaf: Poplar1<XofTurboShake128, 32> = Poplar1::new_turboshake128(bits);
    let n = if real && deep { gen_n(rng).min(2) } else if real { gen_n(rng).min(16) } else { gen_n(rng) };
    let ms: Vec<Vec<bool>> = (0..n).map(|_| (0..bits).map(|_| rng.bool()).collect()).collect();
    let extra = rng.usize_below(if deep { 3 } else if real { 6 } else { 40 }) + if n == 0 { 1 } else { 0 };
    let prefixes = gen_prefixes(rng, level, if real { &ms } else { &[] }, extra.max(if real { 0 } else { 1 }));
    if prefixes.is_empty() {
        return;
    }
    let Ok(param) = Poplar1AggregationParam::try_from_prefixes(prefixes) else {
        ctx.count("poplar_param_refused");
        return;
    };
    let kit = PoplarKit { vdaf: &vdaf, bits, param: param.clone() };
    if !real {
        let outs = arbitrary_outs(&kit, 2, n, rng);
        check_multiset(ctx, &kit, &outs, "arbitrary", rng, trees);
        return;
    }
    let key: [u8; 32] = rng.array();
    let mut outs: Vec<Vec<Poplar1FieldVec>> = vec![vec![]; 2];
    let mut stats = WireStats::default();
    let mut anomaly = None;
    for m in &ms {
        let nonce: [u8; 16] = rng.array();
        let inp = crate::common::to_input(m);
        let Ok(Ok((ps, shares))) = catch(|| vdaf.shard(b"c13", &inp, &nonce)) else {
            ctx.count("real_reports_not_sharded");
            continue;
        };
        let psb = enc(&ps, &mut anomaly);
        let isb: Vec<Vec<u8>> = shares.iter().map(|s| enc(s, &mut anomaly)).collect();
        match verify_report_simple::<_, 32>(&vdaf, &key, b"c13", &param, &nonce, &psb, &isb, &mut no_tamper, &mut stats, &mut anomaly) {
            Outcome::Finished(o) if o.len() == 2 => {
                for (j, x) in o.into_iter().enumerate() {
                    outs[j].push(x);
                }
                ctx.count("real_reports_verified");
            }
            _ => ctx.count("real_reports_not_verified"),
        }
    }
    check_multiset(ctx, &kit, &outs, "real", rng, trees);
}

pub fn run(ctx: &mut Ctx) {
    let n_sets = ctx.budget(20_000, 1_000_000) / ctx.nshards as u64 + 1;
    for i in 0..n_sets {
        let trees = 20;
        let mut r = Rng64::derive(ctx.seed, &["c13-case"], i * 1009 + ctx.shard as u64);
        ctx.trace(|| format!("multiset {i}"));
        match (i + ctx.shard as u64) % 10 {
            0 => run_prio3(ctx, &mut r, true, trees),
            1 | 2 => run_prio3(ctx, &mut r, false, trees),
            3 => run_prio2(ctx, &mut r, true, trees),
            4 => run_prio2(ctx, &mut r, false, trees),
            5 => run_poplar(ctx, &mut r, true, false, trees),
            6 => run_poplar(ctx, &mut r, true, true, trees),
            7 => run_poplar(ctx, &mut r, false, false, trees),
            8 => run_poplar(ctx, &mut r, false, true, trees),
            _ => run_prio3(ctx, &mut r, false, trees),
        }
    }
    let c = |k: &str| ctx.counters.get(k).copied().unwrap_or(0);
    let (real, refused, trees, empties, verified) = (
        c("multisets_real"),
        c("mismatches_refused_unchanged"),
        c("trees_identical"),
        c("empty_aggregates_merged"),
        c("real_reports_verified"),
    );
    if real == 0 {
        ctx.inconclusive("no multiset of output shares from real verified reports on this shard");
    }
    if refused == 0 {
        ctx.inconclusive("no mismatched merge/accumulate refusal observed on this shard");
    }
    if trees == 0 || empties == 0 {
        ctx.inconclusive("no merge tree / no empty aggregate merged on this shard");
    }
    if verified == 0 {
        ctx.inconclusive("no real report verified on this shard");
    }
}
