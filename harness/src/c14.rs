//! C14: multithreaded gadget evaluation is bit-identical to serial under any schedule.
//!
//! Deciding oracle: byte equality between the multithreaded and the serial computation, across
//! thread-pool sizes and repetitions, with the chunk -> fold-state partition OBSERVED through a spy
//! inner gadget (no hook in /repo needed). Data-race detection (Miri, TSan) is an auxiliary step
//! run by the orchestrator (see lib/props.py).

use crate::common::*;
use prio::codec::Encode;
use prio::field::{Field128, Field64, FieldElement, NttFriendlyFieldElement};
use prio::flp::gadgets::{Mul, ParallelSum, ParallelSumGadget, ParallelSumMultithreaded};
use prio::flp::{FlpError, Gadget};
use prio::vdaf::prio3::{
    Prio3, Prio3Histogram, Prio3HistogramMultithreaded, Prio3MultihotCountVec, Prio3MultihotCountVecMultithreaded, Prio3SumVec,
    Prio3SumVecMultithreaded,
};
use prio::vdaf::test_utils::TestVectorClient;
use prio::vdaf::{Aggregator, Collector, VerifyTransition};
use serde_json::json;
use std::any::Any;
use std::collections::{BTreeMap, BTreeSet};
use std::sync::atomic::{AtomicU64, AtomicUsize, Ordering};
use std::sync::{Arc, Mutex};

/// Shared, thread-safe monitor state for one `eval_poly` call of the multithreaded gadget.
#[derive(Debug, Default)]
struct SpyLog {
    next_clone: AtomicUsize,
    /// (clone id, rayon thread index, chunk tag)
    events: Mutex<Vec<(usize, usize, u64)>>,
    jitter_seed: AtomicU64,
}

/// A `Mul` that records which fold state (clone) and thread evaluated which chunk, and injects
/// seeded jitter inside the fold body to provoke work stealing.
#[derive(Debug)]
struct SpyMul {
    inner: Mul,
    id: usize,
    log: Arc<SpyLog>,
}

impl Clone for SpyMul {
    fn clone(&self) -> Self {
        let id = self.log.next_clone.fetch_add(1, Ordering::SeqCst) + 1;
        SpyMul { inner: self.inner.clone(), id, log: self.log.clone() }
    }
}

impl<F: NttFriendlyFieldElement + Into<Vec<u8>>> Gadget<F> for SpyMul {
    fn eval(&mut self, inp: &[F]) -> Result<F, FlpError> {
        <Mul as Gadget<F>>::eval(&mut self.inner, inp)
    }
    fn eval_poly(&self, outp: &mut [F], inp: &[Vec<F>]) -> Result<(), FlpError> {
        // chunk tag: the low 8 bytes of the first element of the first wire polynomial
        let b: Vec<u8> = inp[0][0].into();
        let tag = u64::from_le_bytes(b[..8].try_into().unwrap());
        let tid = rayon::current_thread_index().unwrap_or(usize::MAX);
        // seeded jitter
        let js = self.log.jitter_seed.load(Ordering::Relaxed);
        if js != 0 {
            let h = (js ^ tag.wrapping_mul(0x9E37_79B9_7F4A_7C15)).wrapping_mul(0xD6E8_FEB8_6659_FD93) >> 56;
            match h % 8 {
                0 => std::thread::yield_now(),
                1 => std::thread::sleep(std::time::Duration::from_micros(h % 50)),
                2 => {
                    for _ in 0..(h * 40) {
                        std::hint::spin_loop();
                    }
                }
                _ => {}
            }
        }
        let r = <Mul as Gadget<F>>::eval_poly(&self.inner, outp, inp);
        self.log.events.lock().unwrap().push((self.id, tid, tag));
        r
    }
    fn arity(&self) -> usize {
        2
    }
    fn degree(&self) -> usize {
        2
    }
    fn calls(&self) -> usize {
        <Mul as Gadget<F>>::calls(&self.inner)
    }
    fn as_any(&mut self) -> &mut dyn Any {
        self
    }
}

fn enc_vec<F: FieldElement>(v: &[F]) -> Vec<u8> {
    let mut out = vec![];
    for x in v {
        x.encode(&mut out).unwrap();
    }
    out
}

trait FromU128: NttFriendlyFieldElement {
    fn mk(v: u128) -> Self;
}
impl FromU128 for Field64 {
    fn mk(v: u128) -> Self {
        Field64::from((v % 18446744069414584321u128) as u64)
    }
}
impl FromU128 for Field128 {
    fn mk(v: u128) -> Self {
        Field128::from(v % 340282366920938462946865773367900766209u128)
    }
}

/// Gadget-level comparison for one (field, chunks, calls) shape over several pools and repetitions.
fn gadget_level<F: FromU128 + Send + Sync + Into<Vec<u8>>>(ctx: &mut Ctx, rng: &mut Rng64, pools: &[(usize, rayon::ThreadPool)], chunks: usize, calls: usize, reps: usize, fname: &str) {
    let n = (1 + calls).next_power_of_two();
    let out_len = (2 * (n - 1) + 1usize).next_power_of_two();
    let style = rng.below(4);
    let inp: Vec<Vec<F>> = (0..2 * chunks)
        .map(|w| {
            let mut poly: Vec<F> = (0..n)
                .map(|_| match style {
                    0 => F::zero(),
                    1 => F::mk(u128::MAX),
                    _ => F::mk(rng.u128()),
                })
                .collect();
            if w % 2 == 0 {
                poly[0] = F::mk((w / 2) as u128); // chunk tag
            }
            poly
        })
        .collect();
    let serial = <ParallelSum<F, Mul> as ParallelSumGadget<F, Mul>>::new(Mul::new(calls), chunks);
    let mut want = vec![F::zero(); out_len];
    if let Err(e) = serial.eval_poly(&mut want, &inp) {
        ctx.inconclusive(format!("serial eval_poly refused a well-formed call: {e}"));
        return;
    }
    let want_b = enc_vec(&want);
    for (threads, pool) in pools {
        let mut partitions: BTreeSet<String> = BTreeSet::new();
        let mut states_max = 0usize;
        let mut threads_seen: BTreeSet<usize> = BTreeSet::new();
        for rep in 0..reps {
            let log = Arc::new(SpyLog::default());
            log.jitter_seed.store(if rep % 3 == 0 { 0 } else { rng.u64() | 1 }, Ordering::Relaxed);
            let spy = SpyMul { inner: Mul::new(calls), id: 0, log: log.clone() };
            let mt = <ParallelSumMultithreaded<F, SpyMul> as ParallelSumGadget<F, SpyMul>>::new(spy, chunks);
            let mut got = vec![F::mk(0xDEAD_BEEF); out_len];
            let r = catch(|| pool.install(|| mt.eval_poly(&mut got, &inp)));
            ctx.eval();
            match r {
                Ok(Ok(())) => {}
                Ok(Err(e)) => {
                    ctx.violation(format!("gadget|eval_poly-err|{fname}"), "multithreaded eval_poly refused a call the serial gadget accepts", json!({"chunks": chunks, "calls": calls, "threads": threads, "err": e.to_string()}));
                    continue;
                }
                Err(pi) => {
                    ctx.violation(format!("gadget|eval_poly-panic|{fname}|{}", pi.class()), "multithreaded eval_poly panicked", json!({"chunks": chunks, "calls": calls, "threads": threads, "panic": pi.message, "at": pi.location}));
                    continue;
                }
            }
            let ev = log.events.lock().unwrap().clone();
            // monitor: every chunk evaluated exactly once
            let mut tags: Vec<u64> = ev.iter().map(|e| e.2).collect();
            tags.sort();
            if tags != (0..chunks as u64).collect::<Vec<_>>() {
                ctx.violation(format!("gadget|chunk-coverage|{fname}"), "a chunk was evaluated zero or several times", json!({"chunks": chunks, "threads": threads, "tags": tags}));
            }
            let mut groups: BTreeMap<usize, Vec<u64>> = BTreeMap::new();
            for (id, tid, tag) in &ev {
                groups.entry(*id).or_default().push(*tag);
                threads_seen.insert(*tid);
            }
            let mut gs: Vec<Vec<u64>> = groups.into_values().map(|mut g| { g.sort(); g }).collect();
            gs.sort();
            states_max = states_max.max(gs.len());
            let part = format!("{gs:?}");
            if enc_vec(&got) != want_b {
                ctx.violation(format!("gadget|eval_poly-differs|{fname}"), "ParallelSumMultithreaded::eval_poly != ParallelSum::eval_poly for the same input",
                    json!({"field": fname, "chunks": chunks, "calls": calls, "threads": threads, "partition": part, "input_style": style,
                           "first_diff": got.iter().zip(&want).position(|(a, b)| a != b)}));
            }
            partitions.insert(part);
        }
        let cfgname = format!("{fname}/chunks={chunks}/calls={calls}/threads={threads}");
        ctx.count_n("gadget_distinct_partitions_total", partitions.len() as u64);
        ctx.max("max_fold_states_in_one_call", states_max as u64);
        ctx.max("max_distinct_partitions_one_config", partitions.len() as u64);
        ctx.max("max_threads_observed_one_config", threads_seen.len() as u64);
        if chunks > *threads && *threads > 1 {
            ctx.count("configs_more_chunks_than_threads");
            if partitions.len() >= 2 {
                ctx.count("configs_more_chunks_than_threads_with_ge2_partitions");
            }
        }
        for pt in partitions.iter().take(3) {
            ctx.nontrivial(digest(&[cfgname.as_bytes(), pt.as_bytes()]));
        }
        for pt in partitions.iter().skip(3) {
            ctx.nontrivial(digest(&[cfgname.as_bytes(), pt.as_bytes()]));
        }
        let sample_part = partitions.iter().next().cloned();
        ctx.sample(|| json!({"level": "gadget", "config": cfgname, "distinct_partitions": partitions.len(), "example_partition": sample_part}));
    }
}

/// Prio3-level: multithreaded type vs serial type, byte for byte.
#[allow(clippy::too_many_arguments)]
fn prio3_level<S, M, Meas, R>(ctx: &mut Ctx, rng: &mut Rng64, pools: &[(usize, rayon::ThreadPool)], serial: &S, mt: &M, meas: &Meas, tape_len: usize, name: &str, desc: &str)
where
    S: TestVectorClient<16> + Aggregator<32, 16> + Collector + prio::vdaf::Vdaf<Measurement = Meas, AggregateResult = R, AggregationParam = ()>,
    M: TestVectorClient<16> + Aggregator<32, 16> + Collector + prio::vdaf::Vdaf<Measurement = Meas, AggregateResult = R, AggregationParam = ()> + Sync,
    S::VerifierShare: Encode,
    M::VerifierShare: Encode,
    Meas: Sync,
    R: PartialEq + std::fmt::Debug + Send,
{
    let nctx = rng.usize_below(20);
    let vctx = rng.bytes(nctx);
    let nonce: [u8; 16] = rng.array();
    let key: [u8; 32] = rng.array();
    let tape = rng.bytes(tape_len);
    // transcript of an execution as a list of byte strings
    fn transcript<V, Meas2, R2>(v: &V, vctx: &[u8], nonce: &[u8; 16], key: &[u8; 32], tape: &[u8], meas: &Meas2) -> Result<(Vec<Vec<u8>>, R2), String>
    where
        V: TestVectorClient<16> + Aggregator<32, 16> + Collector + prio::vdaf::Vdaf<Measurement = Meas2, AggregateResult = R2, AggregationParam = ()>,
    {
        let mut t = vec![];
        let (ps, shares) = v.shard_with_random(vctx, meas, nonce, tape).map_err(|e| e.to_string())?;
        t.push(ps.get_encoded().unwrap());
        let mut states = vec![];
        let mut vs = vec![];
        for (i, s) in shares.iter().enumerate() {
            t.push(s.get_encoded().unwrap());
            let (st, v_) = v.verify_init(key, vctx, i, &(), nonce, &ps, s).map_err(|e| e.to_string())?;
            t.push(v_.get_encoded().unwrap());
            states.push(st);
            vs.push(v_);
        }
        let msg = v.verifier_shares_to_message(vctx, &(), vs).map_err(|e| e.to_string())?;
        t.push(msg.get_encoded().unwrap());
        let mut aggs = vec![];
        for st in states {
            match v.verify_next(vctx, st, msg.clone()).map_err(|e| e.to_string())? {
                VerifyTransition::Finish(o) => {
                    t.push(o.get_encoded().unwrap());
                    aggs.push(v.aggregate(&(), [o]).map_err(|e| e.to_string())?);
                }
                _ => return Err("unexpected continue".into()),
            }
        }
        let r = v.unshard(&(), aggs, 1).map_err(|e| e.to_string())?;
        Ok((t, r))
    }
    let want = match catch(|| transcript(serial, &vctx, &nonce, &key, &tape, meas)) {
        Ok(Ok(x)) => x,
        _ => {
            ctx.inconclusive(format!("serial execution failed for {desc} (C01's domain)"));
            return;
        }
    };
    for (threads, pool) in pools {
        let reps = if ctx.quick() { 2 } else { 6 };
        for _ in 0..reps {
            ctx.eval();
            let got = catch(|| pool.install(|| transcript(mt, &vctx, &nonce, &key, &tape, meas)));
            match got {
                Ok(Ok(g)) => {
                    ctx.count_n("prio3_transcript_messages_compared", g.0.len() as u64);
                    if g.0 != want.0 || g.1 != want.1 {
                        let which = g.0.iter().zip(&want.0).position(|(a, b)| a != b);
                        ctx.violation(format!("prio3|{name}|transcript-differs"), "multithreaded Prio3 variant produced different bytes than the serial variant for the same inputs and randomness",
                            json!({"config": desc, "threads": threads, "first_differing_message_index": which, "nonce": hex(&nonce), "tape": hex_trunc(&tape, 64)}));
                    }
                }
                Ok(Err(e)) => ctx.violation(format!("prio3|{name}|mt-error"), "multithreaded variant failed where the serial variant succeeded", json!({"config": desc, "threads": threads, "err": e})),
                Err(pi) => ctx.violation(format!("prio3|{name}|mt-panic|{}", pi.class()), "multithreaded variant panicked", json!({"config": desc, "threads": threads, "panic": pi.message, "at": pi.location})),
            }
        }
    }
    ctx.nontrivial(digest_str(desc));
    ctx.count(&format!("prio3_configs_{name}"));
}

pub fn run(ctx: &mut Ctx) {
    let mut rng = ctx.rng("c14");
    let sizes: Vec<usize> = if ctx.quick() { vec![1, 2, 3, 4, 7, 16] } else { vec![1, 2, 3, 4, 7, 16, 32] };
    let pools: Vec<(usize, rayon::ThreadPool)> = sizes
        .iter()
        .map(|n| (*n, rayon::ThreadPoolBuilder::new().num_threads(*n).build().expect("thread pool")))
        .collect();
    // ---- gadget level with the spy ----
    let shapes = ctx.budget(10, 80) as usize;
    let reps = ctx.budget(80, 600) as usize;
    for i in 0..shapes {
        let threads_hint = *rng.choose(&sizes);
        let chunks = match (i + ctx.shard) % 8 {
            0 => 1,
            1 => 2,
            2 => threads_hint.saturating_sub(1).max(1),
            3 => threads_hint,
            4 => 10 * threads_hint,
            5 => 3,
            6 => if ctx.quick() { 200 } else { 1000 },
            _ => 1 + rng.usize_below(64),
        };
        let calls = *rng.choose(&[1usize, 1, 2, 3, 10, 31]);
        let calls = if chunks >= 200 { 1 } else { calls };
        let r = if chunks >= 200 { reps / 8 + 1 } else { reps };
        ctx.trace(|| format!("gadget chunks={chunks} calls={calls}"));
        if rng.bool() {
            gadget_level::<Field128>(ctx, &mut rng, &pools, chunks, calls, r, "Field128");
        } else {
            gadget_level::<Field64>(ctx, &mut rng, &pools, chunks, calls, r, "Field64");
        }
    }
    // ---- Prio3 level ----
    let n_cfg = ctx.budget(12, 200);
    for _ in 0..n_cfg {
        let aggs = *rng.choose(&[2u8, 2, 3, 5]);
        match rng.below(3) {
            0 => {
                let bitsmax = *rng.choose(&[1u128, 3, 255, 256, 65535, (1u128 << 100) + 1]);
                let len = 1 + rng.usize_below(40);
                let flat = (128 - bitsmax.leading_zeros()) as usize * len;
                let rc = 1 + rng.usize_below(flat.max(1));
                let chunk = *rng.choose(&[1usize, 2, 3, flat.max(1), flat + 1, (flat / 2).max(1), rc]);
                let (Ok(s), Ok(m)) = (Prio3SumVec::new_sum_vec(aggs, bitsmax, len, chunk), Prio3SumVecMultithreaded::new_sum_vec_multithreaded(aggs, bitsmax, len, chunk)) else { continue };
                let meas: Vec<u128> = (0..len).map(|_| match rng.below(3) { 0 => 0, 1 => bitsmax, _ => rng.u128() % (bitsmax + 1) }).collect();
                let desc = format!("SumVec(max={bitsmax},len={len},chunk={chunk}) aggs={aggs}");
                prio3_level(ctx, &mut rng, &pools, &s, &m, &meas, 2 * aggs as usize * 32, "SumVec", &desc);
            }
            1 => {
                let len = 1 + rng.usize_below(120);
                let rc = 1 + rng.usize_below(len);
                let chunk = *rng.choose(&[1usize, 2, len, len + 1, (len / 2).max(1), rc]);
                let (Ok(s), Ok(m)) = (Prio3Histogram::new_histogram(aggs, len, chunk), Prio3HistogramMultithreaded::new_histogram_multithreaded(aggs, len, chunk)) else { continue };
                let rm = rng.usize_below(len);
                let meas = *rng.choose(&[0usize, len - 1, rm]);
                let desc = format!("Histogram(len={len},chunk={chunk}) aggs={aggs}");
                prio3_level(ctx, &mut rng, &pools, &s, &m, &meas, 2 * aggs as usize * 32, "Histogram", &desc);
            }
            _ => {
                let len = 1 + rng.usize_below(80);
                let w = 1 + rng.usize_below(len);
                let rc = 1 + rng.usize_below(len);
                let chunk = *rng.choose(&[1usize, 2, len, len + 3, (len / 2).max(1), rc]);
                let (Ok(s), Ok(m)) = (Prio3MultihotCountVec::new_multihot_count_vec(aggs, len, w, chunk), Prio3MultihotCountVecMultithreaded::new_multihot_count_vec_multithreaded(aggs, len, w, chunk)) else { continue };
                let mut meas = vec![false; len];
                let rk = rng.usize_below(w + 1);
                let k = *rng.choose(&[0usize, w, rk]);
                let mut idx: Vec<usize> = (0..len).collect();
                rng.shuffle(&mut idx);
                for i in idx.into_iter().take(k) {
                    meas[i] = true;
                }
                let desc = format!("MultihotCountVec(len={len},w={w},chunk={chunk}) aggs={aggs}");
                prio3_level(ctx, &mut rng, &pools, &s, &m, &meas, 2 * aggs as usize * 32, "MultihotCountVec", &desc);
            }
        }
    }
    let _ = Prio3::<prio::flp::types::Count<Field64>, prio::vdaf::xof::XofTurboShake128, 32>::new_count(2);
}
