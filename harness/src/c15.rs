//! C15: the DP noise samplers realise the exact discrete Laplace / Gaussian laws and the noise is
//! added with the right scale, independently per coordinate, reduced into the field.
//!
//! Parts (each with its own counters):
//!  1. L0 uniform draw through the public `Rng` interface with scripted tapes (exhaustive b <= 2^12).
//!  2. L1 Bernoulli(n/d): all d uniform outcomes => exactly n successes; threshold position for huge d.
//!  3. L2/L3 Bernoulli(exp(-gamma)): exact rational mass accounting against Taylor partial sums.
//!  4. L2..L6 outcome-driven trace conformance against the CKS20 reference (c15_model.rs):
//!     exhaustive scripts to depth D, targeted long scripts, random scripts; plus model-free
//!     best-first mass accounting against the closed-form laws (rational interval enclosures).
//!  5. Tripwire Rng (no direct reads) on every intercepted run.
//!  6. End-to-end differential on random tapes through the public API.
//!  7. Noise addition (c15_noise.rs).

use crate::c15_explore as ex;
use crate::c15_model::*;
use crate::c15_noise;
use crate::c15_real::*;
use crate::common::*;
use num_bigint::BigUint;
use num_integer::Integer;
use num_traits::{One, ToPrimitive, Zero};
use prio::verif_hooks::dp as hk;
use serde_json::json;
use std::cell::RefCell;
use std::rc::Rc;

// ---------------------------------------------------------------------------------------------
// Part 1: L0 uniform draw below a bound, scripted tapes
// ---------------------------------------------------------------------------------------------

/// Encode `v` (< 2^bits) as one draw of `bits` significant bits, insignificant bits from `fill`.
fn encode_draw(v: &BigUint, bits: u64, fill: &mut Rng64, out: &mut Vec<u8>) {
    let words = ((bits + 31) / 32) as usize;
    let rem = (bits % 32) as u32;
    let mut digits = v.to_u32_digits();
    digits.resize(words, 0);
    if rem > 0 {
        let last = words - 1;
        let low = (fill.u64() as u32) & ((1u32 << (32 - rem)) - 1);
        digits[last] = (digits[last] << (32 - rem)) | low;
    }
    for d in digits {
        out.extend_from_slice(&d.to_le_bytes());
    }
}

struct L0Run {
    out: Option<BigUint>,
    consumed: usize,
    over: bool,
    panic: Option<PanicInfo>,
}

fn l0_real(low: &BigUint, high: &BigUint, tape: &[u8]) -> L0Run {
    let mut rng = TapeRng::new(tape);
    let r = catch(|| hk::uniform(low, high, &mut rng));
    match r {
        Ok(o) => L0Run { out: o, consumed: rng.pos, over: rng.over, panic: None },
        Err(pi) => L0Run { out: None, consumed: rng.pos, over: rng.over, panic: Some(pi) },
    }
}

fn part1_l0(ctx: &mut Ctx) {
    let mut fill = ctx.rng("l0-fill");
    let zero = BigUint::zero();
    // (a) exhaustive over the significant bits for every bound <= 2^12
    let max_b: u64 = 4096;
    let mut runs = 0u64;
    let mut rejected_first = 0u64;
    let mut chain_max = 0u64;
    let mut bounds_done = 0u64;
    for b in 1..=max_b {
        if !ctx.mine(b) {
            continue;
        }
        let bound = BigUint::from(b);
        let bits = bound.bits();
        let mut seen = vec![0u32; b as usize];
        let mut first_accepts = 0u64;
        for v in 0..(1u64 << bits) {
            let mut tape = Vec::with_capacity(24);
            encode_draw(&BigUint::from(v), bits, &mut fill, &mut tape);
            let mut want = v;
            let mut want_len = 4usize;
            if v >= b {
                // further rejected draws (values in [b, 2^bits)), then an accepted one
                let k = (v.wrapping_mul(0x9E37) >> 7) % 4;
                for _ in 0..k {
                    let r = b + fill.below((1u64 << bits) - b);
                    encode_draw(&BigUint::from(r), bits, &mut fill, &mut tape);
                }
                want = fill.below(b);
                encode_draw(&BigUint::from(want), bits, &mut fill, &mut tape);
                want_len = 4 * (k as usize + 2);
                chain_max = chain_max.max(k + 1);
                rejected_first += 1;
            }
            tape.extend_from_slice(&[0xA5; 8]); // sentinel bytes that must not be consumed
            let r = l0_real(&zero, &bound, &tape);
            runs += 1;
            if let Some(pi) = &r.panic {
                ctx.violation(format!("L0|panic|{}", pi.class()), "uniform draw panicked", json!({"bound": b, "tape": hex(&tape), "panic": pi.message}));
                continue;
            }
            let got = r.out.clone().and_then(|x| x.to_u64());
            if r.consumed == 4 {
                first_accepts += 1;
                if let Some(g) = got {
                    if g < b {
                        seen[g as usize] += 1;
                    }
                }
            }
            if got.map_or(true, |g| g >= b) {
                ctx.violation("L0|out-of-range", "uniform draw returned a value outside [0, bound)", json!({"bound": b, "tape": hex(&tape), "got": format!("{:?}", r.out)}));
            } else if got != Some(want) || r.consumed != want_len {
                ctx.violation(
                    "L0|draw-differs-from-rejection-sampling",
                    "uniform draw is not 'take bits(bound) tape bits; accept if below bound, else discard and redraw'",
                    json!({"bound": b, "tape": hex(&tape), "want": want, "got": got, "want_bytes": want_len, "got_bytes": r.consumed}),
                );
            }
        }
        // exactly uniform: each value produced by exactly one accepting assignment of the
        // significant bits, all other assignments rejected
        if first_accepts != b || seen.iter().any(|c| *c != 1) {
            let bad: Vec<u64> = (0..b).filter(|i| seen[*i as usize] != 1).take(8).collect();
            ctx.violation(
                "L0|not-uniform",
                "over all assignments of the significant tape bits the values of [0,bound) are not produced exactly once each",
                json!({"bound": b, "first_draw_accepts": first_accepts, "values_not_hit_exactly_once": bad}),
            );
        }
        bounds_done += 1;
        ctx.nontrivial(digest(&[b"L0", &b.to_le_bytes()]));
    }
    ctx.evals(runs);
    ctx.count_n("l0_exhaustive_bounds", bounds_done);
    ctx.count_n("l0_exhaustive_tapes", runs);
    ctx.count_n("l0_first_draw_rejected", rejected_first);
    ctx.max("l0_max_rejection_chain", chain_max);

    // (b) multi-word bounds at word edges, boundary tapes; low != 0; insignificant bits do not matter
    let one = BigUint::one();
    let mut bounds: Vec<BigUint> = vec![];
    for k in [31u32, 32, 33, 63, 64, 65, 95, 96, 97, 127, 128, 129, 160, 256] {
        let p = &one << k;
        bounds.push(&p - &one);
        bounds.push(p.clone());
        bounds.push(&p + &one);
    }
    bounds.push((&one << 100u32) + 7u8);
    bounds.push(BigUint::from(10u8).pow(30));
    bounds.push(BigUint::from(1_000_000_007u64));
    bounds.push(BigUint::from(3u8) << 62u32);
    let reps = ctx.budget(40, 2000);
    let mut multi = 0u64;
    for (bi, bound) in bounds.iter().enumerate() {
        if !ctx.mine(bi as u64) {
            continue;
        }
        let bits = bound.bits();
        let cap = &one << bits;
        let all_ones = &cap - &one;
        let mut vals: Vec<BigUint> = vec![zero.clone(), one.clone(), bound - &one, bound.clone(), all_ones.clone()];
        if bound > &one {
            vals.push(bound - 2u8);
        }
        if bound + &one < cap {
            vals.push(bound + &one);
        }
        for _ in 0..reps {
            vals.push(random_below(&mut fill, &cap));
        }
        for v in &vals {
            let low = if fill.chance(1, 3) { random_below(&mut fill, &(&one << 70u32)) } else { zero.clone() };
            let high = &low + bound;
            let mut tape = vec![];
            encode_draw(v, bits, &mut fill, &mut tape);
            if v >= bound {
                if fill.bool() {
                    encode_draw(&all_ones, bits, &mut fill, &mut tape);
                    if &all_ones < bound {
                        unreachable!();
                    }
                }
                let acc = random_below(&mut fill, bound);
                encode_draw(&acc, bits, &mut fill, &mut tape);
            }
            tape.extend_from_slice(&[0x5A; 16]);
            let mut p = 0usize;
            let want = tape_uniform_below(&tape, &mut p, bound).expect("tape long enough");
            let r = l0_real(&low, &high, &tape);
            multi += 1;
            if let Some(pi) = &r.panic {
                ctx.violation(format!("L0|panic|{}", pi.class()), "uniform draw panicked", json!({"bound": bound.to_string(), "tape": hex(&tape), "panic": pi.message}));
                continue;
            }
            let got = r.out.clone();
            if got.as_ref().map_or(true, |g| g < &low || g >= &high) {
                ctx.violation("L0|out-of-range", "uniform draw returned a value outside [low, high)", json!({"low": low.to_string(), "high": high.to_string(), "tape": hex(&tape), "got": format!("{got:?}")}));
            } else if got != Some(&low + &want) || r.consumed != p || r.over {
                ctx.violation(
                    "L0|draw-differs-from-rejection-sampling",
                    "uniform draw is not 'take bits(bound) tape bits; accept if below bound, else discard and redraw'",
                    json!({"low": low.to_string(), "bound": bound.to_string(), "tape": hex(&tape), "want": (&low + &want).to_string(), "got": format!("{got:?}"), "want_bytes": p, "got_bytes": r.consumed}),
                );
            }
            // same significant bits, fresh insignificant bits => same result
            let mut tape2 = vec![];
            encode_draw(v, bits, &mut fill, &mut tape2);
            if tape2 != tape[..tape2.len()] && v < bound {
                tape2.extend_from_slice(&[0x5A; 16]);
                let r2 = l0_real(&low, &high, &tape2);
                multi += 1;
                if r2.out != got {
                    ctx.violation("L0|insignificant-bits-matter", "bits beyond bits(bound) of the draw influence the result", json!({"bound": bound.to_string(), "tape_a": hex(&tape), "tape_b": hex(&tape2)}));
                }
                ctx.count("l0_insignificant_bits_varied");
            }
        }
        ctx.nontrivial(digest(&[b"L0m", bound.to_string().as_bytes()]));
    }
    ctx.evals(multi);
    ctx.count_n("l0_multiword_tapes", multi);
    // empty range is refused, not sampled
    if ctx.shard == 0 {
        let mut rng = TapeRng::new(&[0u8; 16]);
        let r = catch(|| hk::uniform(&BigUint::from(5u8), &BigUint::from(5u8), &mut rng));
        if !matches!(r, Ok(None)) {
            ctx.note("uniform(5,5) is not refused as an empty range");
        }
    }
}

// ---------------------------------------------------------------------------------------------
// Part 2: L1 Bernoulli(n/d)
// ---------------------------------------------------------------------------------------------

struct L1State {
    give: BigUint,
    bounds: Vec<BigUint>,
    other_calls: u64,
}

/// Run sample_bernoulli(gamma) with the uniform draw answered by `w`. Returns (result, bound asked).
fn l1_real(st: &Rc<RefCell<L1State>>, gamma: &Q, w: &BigUint) -> Result<(bool, Option<BigUint>, u64, u64), PanicInfo> {
    {
        let mut s = st.borrow_mut();
        s.give = w.clone();
        s.bounds.clear();
        s.other_calls = 0;
    }
    let mut trip = Tripwire::default();
    let r = catch(|| hk::sample_bernoulli(gamma, &mut trip))?;
    let s = st.borrow();
    Ok((r, s.bounds.first().cloned(), s.bounds.len() as u64, trip.reads))
}

fn part2_l1(ctx: &mut Ctx) {
    let st = Rc::new(RefCell::new(L1State { give: BigUint::zero(), bounds: vec![], other_calls: 0 }));
    let st2 = st.clone();
    hk::set_interceptor(Some(Box::new(move |layer, arg| {
        let mut s = st2.borrow_mut();
        match layer {
            Layer::UniformBelow => {
                s.bounds.push(arg.numer().clone());
                Some(Outcome::Unsigned(s.give.clone()))
            }
            _ => {
                s.other_calls += 1;
                None
            }
        }
    })));
    let mut rng = ctx.rng("l1");
    let full_d: u64 = ctx.budget(96, 256);
    let extra_n = ctx.budget(3, 24);
    let mut pairs = 0u64;
    let mut draws = 0u64;
    let mut undecided = 0u64;
    for d in 1..=4096u64 {
        if !ctx.mine(d) {
            continue;
        }
        let mut ns: Vec<u64> = if d <= full_d { (0..=d).collect() } else { vec![0, 1, 2, d / 2, d - 2, d - 1, d] };
        if d > full_d {
            for _ in 0..extra_n {
                ns.push(rng.below(d + 1));
            }
        }
        ns.sort();
        ns.dedup();
        for n in ns {
            if d > full_d && n.gcd(&d) != 1 && n != 0 && n != d {
                continue; // reduces to a smaller denominator, covered there
            }
            let gamma = q(n as u128, d as u128);
            // the law only depends on the reduced fraction
            let (rn, rd) = (gamma.numer().to_u64().unwrap(), gamma.denom().to_u64().unwrap());
            // how many uniform outcomes are there? learn the bound from the first call
            let mut trues = 0u64;
            let mut bound_seen: Option<u64> = None;
            let mut ok = true;
            let mut w = 0u64;
            loop {
                match l1_real(&st, &gamma, &BigUint::from(w)) {
                    Err(pi) => {
                        ctx.violation(format!("L1|panic|{}", pi.class()), "sample_bernoulli panicked for gamma in [0,1]", json!({"gamma": qs(&gamma), "uniform_outcome": w, "panic": pi.message}));
                        ok = false;
                        break;
                    }
                    Ok((res, b, ncalls, reads)) => {
                        draws += 1;
                        if reads > 0 {
                            ctx.violation("rng-direct-read|L1-bernoulli", "sample_bernoulli read the Rng directly although the uniform draw was answered by the interceptor", json!({"gamma": qs(&gamma)}));
                        }
                        let b = b.and_then(|x| x.to_u64());
                        if ncalls != 1 || b.is_none() || (bound_seen.is_some() && bound_seen != b) {
                            undecided += 1;
                            ok = false;
                            break;
                        }
                        bound_seen = b;
                        if res {
                            trues += 1;
                        }
                    }
                }
                w += 1;
                if w >= bound_seen.unwrap() {
                    break;
                }
            }
            if !ok {
                continue;
            }
            let bd = bound_seen.unwrap();
            pairs += 1;
            // exactly n/d: (#true) / (#outcomes) == rn / rd
            if (trues as u128) * (rd as u128) != (rn as u128) * (bd as u128) {
                ctx.violation(
                    "L1|success-count",
                    "over all outcomes of its uniform draw, sample_bernoulli(n/d) does not succeed on exactly the fraction n/d of them",
                    json!({"gamma": qs(&gamma), "uniform_bound": bd, "successes": trues}),
                );
            }
            if d <= 64 || n == 1 {
                ctx.nontrivial(digest(&[b"L1", &n.to_le_bytes(), &d.to_le_bytes()]));
            }
        }
    }
    ctx.evals(draws);
    ctx.count_n("l1_fractions_enumerated", pairs);
    ctx.count_n("l1_uniform_outcomes_enumerated", draws);
    if undecided > 0 {
        ctx.count_n("l1_undecided_not_single_draw", undecided);
        ctx.inconclusive("sample_bernoulli does not make exactly one uniform draw with a fixed bound: the enumeration oracle cannot decide");
    }

    // huge denominators: the success set must be a threshold set of size exactly n
    let huge: Vec<BigUint> = vec![
        (BigUint::one() << 64u32) + 13u8,
        BigUint::from(10u8).pow(30),
        (BigUint::one() << 128u32) + 1u8,
        (BigUint::one() << 127u32) - 1u8,
        BigUint::from(u64::MAX),
        (BigUint::one() << 521u32) - 1u8,
    ];
    let mut huge_cases = 0u64;
    let reps = ctx.budget(40, 1000);
    for (di, d) in huge.iter().enumerate() {
        for rep in 0..reps {
            if !ctx.mine(di as u64 * 7919 + rep) {
                continue;
            }
            let n = match rep {
                0 => BigUint::one(),
                1 => d - 1u8,
                2 => d >> 1u32,
                3 => BigUint::from(2u8),
                4 => d - 2u8,
                _ => random_below(&mut rng, d),
            };
            if n.is_zero() {
                continue;
            }
            let gamma = Q::new(n.clone(), d.clone());
            let (rn, rd) = (gamma.numer().clone(), gamma.denom().clone());
            if rn == rd {
                continue;
            }
            let ask = |w: &BigUint, ctx: &mut Ctx| -> Option<(bool, BigUint)> {
                match l1_real(&st, &gamma, w) {
                    Ok((res, Some(b), 1, _)) => Some((res, b)),
                    Ok(_) => None,
                    Err(pi) => {
                        ctx.violation(format!("L1|panic|{}", pi.class()), "sample_bernoulli panicked for gamma in [0,1]", json!({"gamma": qs(&gamma), "uniform_outcome": w.to_string(), "panic": pi.message}));
                        None
                    }
                }
            };
            let Some((r0, bd)) = ask(&BigUint::zero(), ctx) else { continue };
            // number of successes the bound implies: bd * rn / rd must be an integer
            let (cnt, r) = (&bd * &rn).div_rem(&rd);
            if !r.is_zero() {
                ctx.violation("L1|success-count", "the uniform range of sample_bernoulli(n/d) cannot be split in the ratio n/d", json!({"gamma": qs(&gamma), "uniform_bound": bd.to_string()}));
                continue;
            }
            let Some((rlast, _)) = ask(&(&bd - 1u8), ctx) else { continue };
            huge_cases += 1;
            if r0 == rlast {
                ctx.violation("L1|success-count", "sample_bernoulli(n/d) with 0 < n < d gives the same result for the smallest and the largest uniform outcome", json!({"gamma": qs(&gamma), "uniform_bound": bd.to_string(), "result": r0}));
                continue;
            }
            // threshold: successes are the `cnt` lowest outcomes (r0 = true) or the `cnt` highest
            let edge = if r0 { cnt.clone() } else { &bd - &cnt };
            // outcomes edge-2 .. edge+1
            let mut probes = vec![];
            for off in [-2i32, -1, 0, 1] {
                let w = if off < 0 {
                    if edge < BigUint::from((-off) as u32) {
                        continue;
                    }
                    &edge - BigUint::from((-off) as u32)
                } else {
                    &edge + BigUint::from(off as u32)
                };
                if w >= bd {
                    continue;
                }
                probes.push((off, w));
            }
            for (off, w) in probes {
                let Some((res, _)) = ask(&w, ctx) else { continue };
                let below = off < 0;
                let want = if r0 { below } else { !below };
                if res != want {
                    ctx.violation(
                        "L1|threshold-off",
                        "sample_bernoulli(n/d) with a huge denominator: the boundary between success and failure is not after exactly n of the d outcomes (off-by-one comparison)",
                        json!({"gamma": qs(&gamma), "uniform_bound": bd.to_string(), "uniform_outcome": w.to_string(), "offset_from_exact_boundary": off, "got": res}),
                    );
                }
                ctx.eval();
            }
            ctx.nontrivial(digest(&[b"L1h", qs(&gamma).as_bytes()]));
        }
    }
    ctx.count_n("l1_huge_denominator_cases", huge_cases);
    hk::set_interceptor(None);
}

// ---------------------------------------------------------------------------------------------

/// Which of the two law-equivalent orders does the code use inside one Laplace iteration?
fn probe_sign_order(ctx: &mut Ctx) -> bool {
    let script = vec![Outcome::Bool(false), Outcome::Unsigned(BigUint::one())];
    // try "sign first"
    let mask = Mask::of(&[Layer::Bernoulli, Layer::GeometricExp]);
    let a = run_scripted(Layer::DiscreteLaplace, &q(1, 1), false, mask, &script);
    if a.result.is_some() {
        ctx.count("laplace_iteration_order_sign_first");
        return true;
    }
    let script_b = vec![Outcome::Unsigned(BigUint::one()), Outcome::Bool(false)];
    let b = run_scripted(Layer::DiscreteLaplace, &q(1, 1), false, mask, &script_b);
    if b.result.is_some() {
        ctx.count("laplace_iteration_order_magnitude_first");
        return false;
    }
    // neither: let the conformance check report what is wrong
    true
}

pub fn run(ctx: &mut Ctx) {
    let mut t = std::time::Instant::now();
    let mut lap = |ctx: &mut Ctx, name: &str| {
        ctx.max(&format!("ms_{name}"), t.elapsed().as_millis() as u64);
        t = std::time::Instant::now();
    };
    part1_l0(ctx);
    lap(ctx, "part1_l0");
    part2_l1(ctx);
    lap(ctx, "part2_l1");
    let sign_first = probe_sign_order(ctx);
    let mut st = Stats::default();
    if ctx.shard == 0 {
        ex::reference_selfcheck(ctx);
    }
    ex::part3_taylor(ctx);
    lap(ctx, "part3_taylor");
    ex::part4_conformance(ctx, &mut st, sign_first);
    lap(ctx, "part4_conformance");
    ex::part4_mass(ctx);
    lap(ctx, "part4_mass");
    ex::part6_tapes(ctx, sign_first);
    lap(ctx, "part6_tapes");
    st.flush(ctx);
    c15_noise::run(ctx);
    lap(ctx, "part7_noise");
    ctx.exhaustive = Some(false);
}
