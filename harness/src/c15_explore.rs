//! C15 parts 3, 4 and 6: exact Taylor accounting of Bernoulli(exp(-gamma)), outcome-driven trace
//! conformance (exhaustive / long / random scripts), model-free best-first mass accounting against
//! the closed-form laws, and the end-to-end tape differential through the public API.

use crate::c15_model::*;
use crate::c15_real::*;
use crate::common::*;
use num_bigint::{BigInt, BigUint};
use num_traits::{One, Signed, ToPrimitive, Zero};
use serde_json::json;
use std::collections::{BTreeMap, BinaryHeap};

pub fn scales() -> Vec<Q> {
    vec![q(1, 3), q(1, 2), q(1, 1), q(3, 2), q(2, 1), q(5, 1), q(22, 7), q(100, 1), q(1_000_000_000, 7)]
}

fn recip(x: &Q) -> Q {
    Q::new(x.denom().clone(), x.numer().clone())
}

fn gammas() -> Vec<Q> {
    let mut v = scales();
    for s in scales() {
        let r = recip(&s);
        if !v.contains(&r) {
            v.push(r);
        }
    }
    v.push(q(2, 3));
    v.push(q(3, 4));
    v
}

// ---------------------------------------------------------------------------------------------
// Part 3: exact mass accounting of L2/L3 against Taylor partial sums (model-free)
// ---------------------------------------------------------------------------------------------

fn bool_script(js: &[usize]) -> Vec<Outcome> {
    // for each j: j times true, then false
    let mut s = vec![];
    for j in js {
        for _ in 0..*j {
            s.push(Outcome::Bool(true));
        }
        s.push(Outcome::Bool(false));
    }
    s
}

/// Sum_{i<terms} (-g)^i / i!  as (positive part, negative part)
fn taylor(g: &Q, terms: usize) -> (Q, Q) {
    let mut pos = Q::zero();
    let mut neg = Q::zero();
    let mut term = Q::one();
    for i in 0..terms {
        if i > 0 {
            term = term * g / Q::from_integer(BigUint::from(i));
        }
        if i % 2 == 0 {
            pos += &term;
        } else {
            neg += &term;
        }
    }
    (pos, neg)
}

/// Mass of a real path: product over its Bernoulli sub-calls of (arg if outcome true else 1-arg),
/// from the arguments the code actually passed.
fn bernoulli_path_mass(calls: &[Rec]) -> Option<Q> {
    let mut m = Q::one();
    for c in calls {
        if c.layer == Layer::Bernoulli {
            if c.arg > Q::one() {
                return None;
            }
            match c.out {
                Some(Outcome::Bool(true)) => m *= &c.arg,
                Some(Outcome::Bool(false)) => m *= Q::one() - &c.arg,
                _ => return None,
            }
        }
    }
    Some(m)
}

pub fn part3_taylor(ctx: &mut Ctx) {
    ELIDE_CERTAIN.with(|e| e.set(false));
    part3_taylor_inner(ctx);
    ELIDE_CERTAIN.with(|e| e.set(true));
}

fn part3_taylor_inner(ctx: &mut Ctx) {
    let mask = Mask::of(&[Layer::Bernoulli]);
    // L2: gamma in [0,1]; paths T^j F for j < K.
    let k2 = ctx.budget(14, 40) as usize;
    let l2: Vec<Q> = vec![q(0, 1), q(1, 7), q(1, 2), q(1, 1), q(999, 1000), q(1, 1_000_000_007)];
    let mut idx = 0u64;
    for g in &l2 {
        idx += 1;
        if !ctx.mine(idx) {
            continue;
        }
        let mut mass_true = Q::zero();
        let mut mass_all = Q::zero();
        let mut ok = true;
        for j in 0..k2 {
            let script = bool_script(&[j]);
            let r = run_scripted(Layer::BernoulliExp1, g, false, mask, &script);
            ctx.eval();
            let (Some(Outcome::Bool(res)), Some(m)) = (r.result.clone(), bernoulli_path_mass(&r.calls)) else {
                ok = false;
                break;
            };
            if r.script_used != script.len() {
                ok = false;
                break;
            }
            if res {
                mass_true += &m;
            }
            mass_all += m;
        }
        if !ok {
            // the path structure is not "T^j F"; the conformance part reports what differs
            ctx.count("taylor_l2_structure_mismatch");
            continue;
        }
        // true paths are the even j < K; their mass telescopes to the partial sum with E+2 terms
        let e = if (k2 - 1) % 2 == 0 { k2 - 1 } else { k2 - 2 };
        let (p, n) = taylor(g, e + 2);
        let want_true = p - n;
        let (pk, nk) = taylor(g, k2 + 1);
        let (pk1, nk1) = taylor(g, k2);
        // g^K/K! = |term K|
        let resid = if k2 % 2 == 0 { pk - pk1 } else { nk - nk1 };
        let got_resid = Q::one() - &mass_all;
        if mass_true != want_true || got_resid != resid {
            ctx.violation(
                "mass|L2-bernoulli-exp1|taylor-partial-sum",
                "summing the exact masses of all real paths of depth < K, P[true] is not the Taylor partial sum of exp(-gamma) (or the unexplored mass is not gamma^K/K!)",
                json!({"gamma": qs(g), "K": k2, "true_mass": qs(&mass_true), "want": qs(&want_true), "unexplored": qs(&got_resid), "want_unexplored": qs(&resid)}),
            );
        }
        ctx.count("taylor_l2_identities");
        ctx.nontrivial(digest(&[b"T2", qs(g).as_bytes()]));
    }
    // L3 (Bernoulli answered, Bexp1 bodies run): gamma > 1; each inner Bexp1 explored to depth K.
    let l3: Vec<(Q, usize, usize)> = vec![
        (q(3, 2), 10, 16),
        (q(2, 1), 6, 9),
        (q(22, 7), 5, 8),
        (q(1, 1), 10, 16),
        (q(7, 2), 4, 6),
        (q(1, 2), 12, 20),
    ];
    for (g, kq, kt) in &l3 {
        idx += 1;
        if !ctx.mine(idx) {
            continue;
        }
        let k = if ctx.quick() { *kq } else { *kt };
        let n = g.floor().to_integer().to_usize().unwrap();
        let frac = g - g.floor();
        let calls = n + 1;
        let mut mass_true = Q::zero();
        let mut mass_false = Q::zero();
        let mut ok = true;
        let mut paths = 0u64;
        // tuples (j_1..j_m): inner call i takes j_i trues then a false; an odd j_i ends the run with
        // `false`; all `calls` even ends with `true`.
        let mut js: Vec<usize> = vec![0];
        'outer: loop {
            // js is a complete path iff its last entry is odd (=> false) or it has `calls` entries
            let last_odd = js.last().unwrap() % 2 == 1;
            if last_odd || js.len() == calls {
                let script = bool_script(&js);
                let r = run_scripted(Layer::BernoulliExp, g, false, mask, &script);
                ctx.eval();
                paths += 1;
                let (Some(Outcome::Bool(res)), Some(m)) = (r.result.clone(), bernoulli_path_mass(&r.calls)) else {
                    ok = false;
                    break 'outer;
                };
                if r.script_used != script.len() {
                    ok = false;
                    break 'outer;
                }
                if res {
                    mass_true += m;
                } else {
                    mass_false += m;
                }
                // next tuple: increment last; carry
                loop {
                    let l = js.len() - 1;
                    js[l] += 1;
                    if js[l] < k {
                        break;
                    }
                    js.pop();
                    if js.is_empty() {
                        break 'outer;
                    }
                }
            } else {
                js.push(0);
            }
        }
        if !ok {
            ctx.count("taylor_l3_structure_mismatch");
            continue;
        }
        // P_K[true] = S(1)^n * S(frac), S(x) = sum over even j < K of (x^j/j! - x^{j+1}/(j+1)!)
        let s = |x: &Q| -> Q {
            let e = if (k - 1) % 2 == 0 { k - 1 } else { k - 2 };
            let (p, nn) = taylor(x, e + 2);
            p - nn
        };
        let mut want = s(&frac);
        for _ in 0..n {
            want *= s(&Q::one());
        }
        if mass_true != want {
            ctx.violation(
                "mass|L3-bernoulli-exp|taylor-partial-sum",
                "summing the exact masses of all real paths (each inner loop to depth < K), P[true] is not the product of Taylor partial sums exp(-1)^floor(gamma) * exp(-(gamma - floor(gamma)))",
                json!({"gamma": qs(g), "K": k, "true_mass": qs(&mass_true), "want": qs(&want), "false_mass": qs(&mass_false)}),
            );
        }
        ctx.count("taylor_l3_identities");
        ctx.count_n("taylor_l3_paths", paths);
        ctx.nontrivial(digest(&[b"T3", qs(g).as_bytes()]));
    }
}

// ---------------------------------------------------------------------------------------------
// Part 4a: trace conformance
// ---------------------------------------------------------------------------------------------

fn alphabet(layer: Layer, arg: &Q) -> Vec<Outcome> {
    match layer {
        Layer::Bernoulli | Layer::BernoulliExp1 | Layer::BernoulliExp => vec![Outcome::Bool(false), Outcome::Bool(true)],
        Layer::UniformBelow => {
            let b = arg.numer();
            if b <= &BigUint::from(4u8) {
                let n = b.to_u64().unwrap();
                (0..n).map(|i| Outcome::Unsigned(BigUint::from(i))).collect()
            } else {
                vec![
                    Outcome::Unsigned(BigUint::zero()),
                    Outcome::Unsigned(BigUint::one()),
                    Outcome::Unsigned(b / 2u8),
                    Outcome::Unsigned(b - 1u8),
                ]
            }
        }
        Layer::GeometricExp => [0u32, 1, 2, 7].iter().map(|k| Outcome::Unsigned(BigUint::from(*k))).collect(),
        Layer::DiscreteLaplace | Layer::DiscreteGaussian => [0i32, 1, -1, 2, -2, 5, -9].iter().map(|k| Outcome::Signed(BigInt::from(*k))).collect(),
    }
}

/// Distinct-case digests: all of them at quick tier; at thorough tier one in 16 (by digest value) so
/// that the evidence stays of manageable size -- the counters carry the full numbers.
fn nontrivial_sub(ctx: &mut Ctx, d: u64) {
    if ctx.quick() || d % 16 == 0 {
        ctx.nontrivial(d);
    }
}

enum ModelOut {
    Complete(Vec<Rec>, Outcome),
    NeedMore(Vec<Rec>, Layer, Q),
    Other,
}

fn model_replay(cfg: &Cfg, script: &[Outcome]) -> ModelOut {
    let mut src = Replay { mask: cfg.mask, outs: script, pos: 0 };
    let mut m = Model::new(&mut src, cfg.sign_first);
    m.sign_probe = Some(sign_first_for);
    m.gauss_t = cfg.gauss_t.clone();
    match m.run(cfg.top, &cfg.arg) {
        Ok(want) => {
            let trace = std::mem::take(&mut m.trace);
            drop(m);
            if src.pos != script.len() {
                ModelOut::Other
            } else {
                ModelOut::Complete(trace, want)
            }
        }
        Err(Stop::NeedMore { layer, arg }) => ModelOut::NeedMore(std::mem::take(&mut m.trace), layer, arg),
        Err(_) => ModelOut::Other,
    }
}

fn shallow_events(st: &mut Stats, cfg: &Cfg, trace: &[Rec]) {
    // loop rejections visible at the level directly below the top layer
    let ti = lidx(cfg.top);
    match cfg.top {
        Layer::GeometricExp if cfg.mask.has(Layer::BernoulliExp1) => {
            st.rejections[ti] += trace.iter().filter(|r| r.layer == Layer::BernoulliExp1 && !r.arg.is_one() && r.out == Some(Outcome::Bool(false))).count() as u64;
        }
        Layer::DiscreteLaplace if cfg.mask.has(Layer::GeometricExp) => {
            st.rejections[ti] += (trace.iter().filter(|r| r.layer == Layer::GeometricExp).count() as u64).saturating_sub(1);
        }
        Layer::DiscreteGaussian if cfg.mask.has(Layer::BernoulliExp) => {
            st.rejections[ti] += trace.iter().filter(|r| r.layer == Layer::BernoulliExp && r.out == Some(Outcome::Bool(false))).count() as u64;
        }
        Layer::BernoulliExp1 if cfg.mask.has(Layer::Bernoulli) => {
            st.rejections[ti] += trace.iter().filter(|r| r.layer == Layer::Bernoulli && r.out == Some(Outcome::Bool(true))).count() as u64;
        }
        Layer::BernoulliExp if cfg.mask.has(Layer::BernoulliExp1) => {
            st.rejections[ti] += trace.iter().filter(|r| r.layer == Layer::BernoulliExp1 && r.out == Some(Outcome::Bool(true))).count() as u64;
        }
        _ => {}
    }
}

const SPLIT: usize = 3;

struct Dfs<'a> {
    cfg: &'a Cfg,
    dmax: usize,
    ctr: &'a mut u64,
    complete: u64,
    truncated: u64,
}

fn dfs(ctx: &mut Ctx, st: &mut Stats, d: &mut Dfs, prefix: &mut Vec<Outcome>, owned: bool) {
    let mut owned = owned;
    if prefix.len() == SPLIT {
        *d.ctr += 1;
        owned = ctx.mine(*d.ctr);
        if !owned {
            return;
        }
    }
    let shallow = prefix.len() < SPLIT;
    match model_replay(d.cfg, prefix) {
        ModelOut::Complete(trace, want) => {
            let mine = if shallow {
                *d.ctr += 1;
                ctx.mine(*d.ctr)
            } else {
                owned
            };
            if mine {
                d.complete += 1;
                shallow_events(st, d.cfg, &trace);
                if compare_real(ctx, st, d.cfg, prefix, &trace, &want).is_some() && trace.len() > 1 {
                    nontrivial_sub(ctx, digest(&[b"dfs", d.cfg.describe().as_bytes(), script_str(prefix).as_bytes()]));
                }
            }
        }
        ModelOut::NeedMore(trace, layer, arg) => {
            if prefix.len() < d.dmax {
                for o in alphabet(layer, &arg) {
                    prefix.push(o);
                    dfs(ctx, st, d, prefix, owned);
                    prefix.pop();
                }
            } else {
                let mine = if shallow {
                    *d.ctr += 1;
                    ctx.mine(*d.ctr)
                } else {
                    owned
                };
                if mine {
                    d.truncated += 1;
                    compare_prefix(ctx, st, d.cfg, prefix, &trace, (layer, &arg));
                }
            }
        }
        ModelOut::Other => {
            ctx.count("conf_model_stopped");
        }
    }
}

fn l(ls: &[Layer]) -> Mask {
    Mask::of(ls)
}

pub fn configs(sign_first: bool) -> Vec<Cfg> {
    use Layer::*;
    let mut v = vec![];
    let mut add = |top: Layer, arg: &Q, mask: Mask, public: bool| v.push(Cfg { top, arg: arg.clone(), mask, public, sign_first, gauss_t: None });
    for g in [q(0, 1), q(1, 7), q(1, 2), q(1, 1), q(999, 1000)] {
        add(BernoulliExp1, &g, l(&[Bernoulli]), false);
        add(BernoulliExp1, &g, l(&[UniformBelow]), false);
    }
    for g in [q(0, 1), q(1, 7), q(1, 2), q(1, 1), q(3, 2), q(22, 7), q(3, 1), q(10, 1)] {
        add(BernoulliExp, &g, l(&[BernoulliExp1]), false);
        add(BernoulliExp, &g, l(&[Bernoulli]), false);
        add(BernoulliExp, &g, l(&[UniformBelow]), false);
    }
    for g in gammas() {
        add(GeometricExp, &g, l(&[UniformBelow, BernoulliExp1]), false);
        add(GeometricExp, &g, l(&[UniformBelow, Bernoulli]), false);
        add(GeometricExp, &g, l(&[UniformBelow]), false);
    }
    for s in scales() {
        add(DiscreteLaplace, &s, l(&[Bernoulli, GeometricExp]), false);
        add(DiscreteLaplace, &s, l(&[UniformBelow, Bernoulli, BernoulliExp1]), false);
        add(DiscreteLaplace, &s, l(&[UniformBelow, Bernoulli]), false);
        add(DiscreteLaplace, &s, l(&[UniformBelow]), false);
        add(DiscreteLaplace, &s, l(&[UniformBelow]), true);
        add(DiscreteLaplace, &s, l(&[Bernoulli, GeometricExp]), true);
    }
    for s in scales() {
        add(DiscreteGaussian, &s, l(&[DiscreteLaplace, BernoulliExp]), false);
        add(DiscreteGaussian, &s, l(&[Bernoulli, GeometricExp, BernoulliExp1]), false);
        add(DiscreteGaussian, &s, l(&[UniformBelow, Bernoulli, BernoulliExp1]), false);
        add(DiscreteGaussian, &s, l(&[UniformBelow]), false);
        add(DiscreteGaussian, &s, l(&[UniformBelow]), true);
        add(DiscreteGaussian, &s, l(&[DiscreteLaplace, BernoulliExp]), true);
    }
    v
}

fn run_generated(ctx: &mut Ctx, st: &mut Stats, cfg: &Cfg, rng: &mut Rng64, shape: Shape, tag: &str) -> bool {
    let mut src = Generate::new(cfg.mask, rng, shape);
    let mut m = Model::new(&mut src, cfg.sign_first);
    m.sign_probe = Some(sign_first_for);
    m.gauss_t = cfg.gauss_t.clone();
    m.cap = 60_000;
    let r = m.run(cfg.top, &cfg.arg);
    let trace = std::mem::take(&mut m.trace);
    drop(m);
    let script = std::mem::take(&mut src.produced);
    match r {
        Ok(want) => {
            shallow_events(st, cfg, &trace);
            if compare_real(ctx, st, cfg, &script, &trace, &want).is_some() {
                if trace.len() > 1 {
                    nontrivial_sub(ctx, digest(&[tag.as_bytes(), cfg.describe().as_bytes(), script_str(&script).as_bytes()]));
                }
                ctx.sample(|| json!({"case": cfg.describe(), "kind": tag, "given_outcomes": script_str(&script), "result": outs(&want), "calls": trace.len()}));
                return true;
            }
            false
        }
        Err(_) => {
            ctx.count("conf_generated_script_abandoned_step_cap");
            false
        }
    }
}

pub fn part4_conformance(ctx: &mut Ctx, st: &mut Stats, sign_first: bool) {
    let mut cfgs = configs(sign_first);
    // which proposal scale does the code use for each sigma? (any fixed t > 0 realises the law)
    for s in scales() {
        let t = probe_gauss_t(&s);
        let canonical = Q::from_integer(s.floor().to_integer() + 1u8);
        match &t {
            Some(t) if *t == canonical => ctx.count("gaussian_proposal_scale_is_floor_sigma_plus_1"),
            Some(t) => {
                ctx.count("gaussian_proposal_scale_other");
                ctx.note(format!("Gaussian({}) proposes from Laplace({}) instead of floor(sigma)+1; the law is unchanged if the acceptance exponent uses the same t (checked)", qs(&s), qs(t)));
            }
            None => {}
        }
        for c in cfgs.iter_mut().filter(|c| c.top == Layer::DiscreteGaussian && c.arg == s) {
            c.gauss_t = t.clone();
        }
    }
    // (a) every script up to depth D over the finite alphabets
    let dmax = ctx.budget(10, 13) as usize;
    let mut ctr = 0u64;
    let mut complete = 0u64;
    let mut truncated = 0u64;
    for cfg in &cfgs {
        if cfg.public && cfg.mask.has(Layer::UniformBelow) {
            continue; // same code path as the private entry; public entry gets random scripts below
        }
        let mut d = Dfs { cfg, dmax, ctr: &mut ctr, complete: 0, truncated: 0 };
        let mut prefix = vec![];
        dfs(ctx, st, &mut d, &mut prefix, false);
        complete += d.complete;
        truncated += d.truncated;
    }
    ctx.count_n("conf_exhaustive_complete_scripts", complete);
    ctx.count_n("conf_exhaustive_truncated_prefixes", truncated);
    ctx.max("conf_exhaustive_depth", dmax as u64);

    // (b) targeted long scripts: runs of k identical outcomes inside each loop
    let ks: Vec<usize> = if ctx.quick() { vec![3, 40, 600, 2000] } else { vec![1, 2, 3, 10, 40, 150, 600, 1200, 2000] };
    let mut rng = ctx.rng("conf-long");
    let mut long_cases = 0u64;
    let mut item = 0u64;
    for cfg in &cfgs {
        for k in &ks {
            let mut shapes: Vec<Shape> = vec![];
            for (layer, on_one, val) in [
                (Layer::BernoulliExp1, Some(true), true),   // v-loop: huge v
                (Layer::BernoulliExp1, Some(false), false), // u-loop: many rejections
                (Layer::BernoulliExp1, None, true),
                (Layer::Bernoulli, None, true), // long Bernoulli(gamma/k) chains / negative signs
                (Layer::BernoulliExp, None, false), // many Gaussian rejections
                (Layer::BernoulliExp, None, true),
            ] {
                if cfg.mask.has(layer) {
                    let mut s = Shape::plain(110);
                    s.run_layer = Some(layer);
                    s.run_on_one = on_one;
                    s.run_value = val;
                    s.run_len = *k;
                    if layer == Layer::Bernoulli && cfg.mask.has(Layer::GeometricExp) {
                        s.zero_run = *k; // (sign = -, magnitude = 0) rejections of the Laplace loop
                    }
                    shapes.push(s);
                }
            }
            for s in shapes {
                item += 1;
                if !ctx.mine(item) {
                    continue;
                }
                if run_generated(ctx, st, cfg, &mut rng, s, "long") {
                    long_cases += 1;
                }
            }
        }
    }
    ctx.count_n("conf_long_scripts", long_cases);

    // (c) random scripts
    let per_cfg = ctx.budget(700, 60_000) / ctx.nshards as u64 + 1;
    let mut rng = ctx.rng("conf-random");
    let mut random_cases = 0u64;
    for cfg in &cfgs {
        for i in 0..per_cfg {
            let p = [40u8, 90, 128, 170, 215][(i % 5) as usize];
            let mut s = Shape::plain(p);
            s.p_zero = [96u8, 200, 20][(i % 3) as usize];
            s.mag_bits = [2u32, 4, 9][((i / 3) % 3) as usize];
            if run_generated(ctx, st, cfg, &mut rng, s, "random") {
                random_cases += 1;
            }
        }
    }
    ctx.count_n("conf_random_scripts", random_cases);
}

// ---------------------------------------------------------------------------------------------
// Part 4b: model-free mass accounting against the closed-form laws
// ---------------------------------------------------------------------------------------------

type Kids = std::rc::Rc<Vec<(Outcome, Iv, f64)>>;

struct Node {
    mass: f64,
    iv: Iv,
    script: Vec<Outcome>,
    /// Lazy sibling enumeration: (children list of the parent, own index, parent's mass enclosure,
    /// parent's mass); the next sibling is pushed when this node is popped.
    sib: Option<(Kids, usize, Iv, f64)>,
}

impl PartialEq for Node {
    fn eq(&self, o: &Self) -> bool {
        self.mass == o.mass
    }
}
impl Eq for Node {}
impl PartialOrd for Node {
    fn partial_cmp(&self, o: &Self) -> Option<std::cmp::Ordering> {
        Some(self.cmp(o))
    }
}
impl Ord for Node {
    fn cmp(&self, o: &Self) -> std::cmp::Ordering {
        self.mass.partial_cmp(&o.mass).unwrap_or(std::cmp::Ordering::Equal)
    }
}

/// Children of a node whose next scripted call is `layer(arg)`: outcomes with their exact-law
/// probabilities, most likely first; unbounded alphabets are cut where the child mass gets below
/// `floor` (what is cut stays in the unexplored residual). Lists are memoised per (layer, arg).
#[derive(Default)]
struct Children {
    memo: std::collections::HashMap<(usize, BigUint, BigUint), std::rc::Rc<Vec<(Outcome, Iv, f64)>>>,
}

impl Children {
    fn get(&mut self, tab: &mut ExpTable, layer: Layer, arg: &Q) -> std::rc::Rc<Vec<(Outcome, Iv, f64)>> {
        let key = (lidx(layer), arg.numer().clone(), arg.denom().clone());
        if let Some(v) = self.memo.get(&key) {
            return v.clone();
        }
        let abs_floor = 1e-20;
        let mut v: Vec<(Outcome, Iv, f64)> = vec![];
        let mut push = |o: Outcome, p: Iv| {
            let f = p.f64_hi();
            v.push((o, p, f));
        };
        match layer {
            Layer::Bernoulli | Layer::BernoulliExp1 | Layer::BernoulliExp => {
                for b in [true, false] {
                    let o = Outcome::Bool(b);
                    let p = tab.pmf(layer, arg, &o);
                    push(o, p);
                }
            }
            Layer::UniformBelow => {
                let n = arg.numer().to_u64().unwrap_or(u64::MAX).min(64);
                for i in 0..n {
                    let o = Outcome::Unsigned(BigUint::from(i));
                    let p = tab.pmf(layer, arg, &o);
                    push(o, p);
                }
            }
            Layer::GeometricExp => {
                for k in 0..4000u32 {
                    let o = Outcome::Unsigned(BigUint::from(k));
                    let p = tab.pmf(layer, arg, &o);
                    if p.f64_hi() < abs_floor {
                        break;
                    }
                    push(o, p);
                }
            }
            Layer::DiscreteLaplace | Layer::DiscreteGaussian => {
                for k in 0..4000i32 {
                    let o = Outcome::Signed(BigInt::from(k));
                    let p = tab.pmf(layer, arg, &o);
                    if p.f64_hi() < abs_floor {
                        break;
                    }
                    push(o, p.clone());
                    if k > 0 {
                        push(Outcome::Signed(BigInt::from(-k)), p);
                    }
                }
            }
        }
        v.sort_by(|a, b| b.2.partial_cmp(&a.2).unwrap_or(std::cmp::Ordering::Equal));
        let v = std::rc::Rc::new(v);
        self.memo.insert(key, v.clone());
        v
    }
}

fn closed_form(tab: &mut ExpTable, top: Layer, arg: &Q, norm: &Option<Iv>, y: &Outcome) -> Iv {
    match (top, y) {
        (Layer::BernoulliExp1 | Layer::BernoulliExp, Outcome::Bool(b)) => tab.pmf_bexp(arg, *b),
        (Layer::GeometricExp, Outcome::Unsigned(k)) => tab.pmf_geometric(arg, k),
        (Layer::DiscreteLaplace, Outcome::Signed(y)) => tab.pmf_laplace(arg, y),
        (Layer::DiscreteGaussian, Outcome::Signed(y)) => tab.pmf_gaussian(arg, norm.as_ref().unwrap(), y),
        _ => panic!("harness: closed form of {y:?} at {top:?}"),
    }
}

fn okey(o: &Outcome) -> String {
    outs(o)
}

fn mass_account(ctx: &mut Ctx, tab: &mut ExpTable, ch: &mut Children, top: Layer, arg: &Q, mask: Mask, max_paths: u64) {
    let desc = format!("{}({}) given={}", lname(top), qs(arg), mask.name());
    let mut heap = BinaryHeap::new();
    heap.push(Node { mass: 1.0, iv: Iv::one(), script: vec![], sib: None });
    let mut buckets: BTreeMap<String, (Outcome, Iv)> = BTreeMap::new();
    let mut explored = Iv::zero();
    let mut paths = 0u64;
    let mut runs = 0u64;
    let floor = 1e-18;
    while let Some(node) = heap.pop() {
        if paths >= max_paths || heap.len() > 3_000_000 || node.mass < 1e-18 {
            break;
        }
        // lazily enumerate the next sibling (children lists are sorted by decreasing probability)
        if let Some((kids, idx, piv, pm)) = &node.sib {
            if let Some((o, p, pf)) = kids.get(idx + 1) {
                let mass = pm * pf;
                if mass >= floor {
                    let mut script = node.script.clone();
                    *script.last_mut().unwrap() = o.clone();
                    heap.push(Node { mass, iv: piv.mul(p), script, sib: Some((kids.clone(), idx + 1, piv.clone(), *pm)) });
                }
            }
        }
        let r = run_scripted(top, arg, false, mask, &node.script);
        runs += 1;
        if let Some(pi) = &r.panic {
            ctx.violation(format!("conf|{}|panic|{}", lname(top), pi.class()), "sampler panicked on an in-domain argument",
                json!({"case": desc, "given_outcomes": script_str(&node.script), "panic": pi.message, "at": pi.location}));
            return;
        }
        if r.rng_reads > 0 {
            ctx.violation(format!("rng-direct-read|{}", lname(top)), "the sampler read its Rng directly although every uniform-draw layer was answered by the interceptor",
                json!({"case": desc, "given_outcomes": script_str(&node.script)}));
        }
        match (&r.result, &r.stop) {
            (Some(res), _) => {
                if r.script_used != node.script.len() {
                    continue; // cannot happen: the parent run asked for this outcome
                }
                paths += 1;
                explored = explored.add(&node.iv);
                let e = buckets.entry(okey(res)).or_insert_with(|| (res.clone(), Iv::zero()));
                e.1 = e.1.add(&node.iv);
            }
            (None, Some(RealStop::Overrun { layer, arg: a })) => {
                let kids = ch.get(tab, *layer, a);
                if let Some((o, p, pf)) = kids.first() {
                    let mass = node.mass * pf;
                    if mass >= floor {
                        let mut script = node.script.clone();
                        script.push(o.clone());
                        heap.push(Node { mass, iv: node.iv.mul(p), script, sib: Some((kids.clone(), 0, node.iv.clone(), node.mass)) });
                    }
                }
            }
            _ => {
                ctx.count("mass_runs_stopped_otherwise");
            }
        }
    }
    ctx.evals(runs);
    // residual = 1 - (lower bound of the explored mass)
    let resid_hi = Iv::one().sub(&Iv { lo: explored.lo.clone(), hi: explored.lo.clone() }).hi;
    let resid = Iv { lo: BigUint::zero(), hi: resid_hi };
    let norm = if top == Layer::DiscreteGaussian { Some(tab.gauss_norm(arg)) } else { None };
    // window of outputs: everything observed plus a fixed window around 0
    let mut window: Vec<Outcome> = buckets.values().map(|(o, _)| o.clone()).collect();
    match top {
        Layer::BernoulliExp1 | Layer::BernoulliExp => {
            window.push(Outcome::Bool(true));
            window.push(Outcome::Bool(false));
        }
        Layer::GeometricExp => {
            for k in 0..16u32 {
                window.push(Outcome::Unsigned(BigUint::from(k)));
            }
        }
        _ => {
            for k in -10i32..=10 {
                window.push(Outcome::Signed(BigInt::from(k)));
            }
        }
    }
    let mut checked = 0u64;
    let mut done = std::collections::BTreeSet::new();
    for y in window {
        if !done.insert(okey(&y)) {
            continue;
        }
        let p = closed_form(tab, top, arg, &norm, &y);
        let got = buckets.get(&okey(&y)).map(|x| x.1.clone()).unwrap_or_else(Iv::zero);
        let upper = got.add(&resid);
        checked += 1;
        // law(y) must lie in [got.lo, got.hi + residual]
        if p.hi < got.lo || p.lo > upper.hi {
            ctx.violation(
                format!("mass|{}|closed-form-law", lname(top)),
                "the exact-law mass of the explored real paths ending in output y (plus all unexplored mass) cannot equal the closed-form probability of y",
                json!({"case": desc, "output": outs(&y), "closed_form_lo": p.f64_lo(), "closed_form_hi": p.f64_hi(),
                       "explored_mass_lo": got.f64_lo(), "explored_mass_hi": got.f64_hi(), "unexplored_residual": resid.f64_hi(), "paths": paths}),
            );
        }
    }
    let rf = resid.f64_hi();
    ctx.count_n("mass_paths_executed", paths);
    ctx.count_n("mass_outputs_checked", checked);
    ctx.count(&format!("mass_configs_{}", lname(top)));
    ctx.max("mass_worst_residual_ppm", (rf * 1e6).ceil() as u64);
    ctx.set_insert("mass_residuals", format!("{desc}: paths={paths} residual<={rf:.3e} outputs_checked={checked}"));
    ctx.nontrivial(digest(&[b"mass", desc.as_bytes()]));
}

pub fn part4_mass(ctx: &mut Ctx) {
    use Layer::*;
    let mut tab = ExpTable::default();
    let mut ch = Children::default();
    let budget = ctx.budget(30_000, 250_000);
    let mut items: Vec<(Layer, Q, Mask)> = vec![];
    for g in [q(1, 7), q(1, 2), q(1, 1)] {
        items.push((BernoulliExp1, g, l(&[Bernoulli])));
    }
    for g in [q(1, 2), q(1, 1), q(3, 2), q(22, 7), q(10, 1)] {
        items.push((BernoulliExp, g, l(&[BernoulliExp1])));
    }
    // denominators t <= 3
    for g in [q(1, 3), q(1, 2), q(2, 3), q(1, 1), q(3, 2), q(2, 1), q(3, 1)] {
        items.push((GeometricExp, g.clone(), l(&[UniformBelow, BernoulliExp1])));
    }
    for s in [q(1, 3), q(1, 2), q(1, 1), q(3, 2), q(2, 1), q(5, 1)] {
        items.push((DiscreteLaplace, s.clone(), l(&[Bernoulli, GeometricExp])));
    }
    for s in [q(1, 2), q(1, 1), q(3, 2)] {
        items.push((DiscreteLaplace, s, l(&[UniformBelow, Bernoulli, BernoulliExp1])));
    }
    for s in [q(1, 3), q(1, 2), q(1, 1), q(3, 2), q(2, 1)] {
        items.push((DiscreteGaussian, s, l(&[DiscreteLaplace, BernoulliExp])));
    }
    for (i, (top, arg, mask)) in items.iter().enumerate() {
        if !ctx.mine(i as u64) {
            continue;
        }
        mass_account(ctx, &mut tab, &mut ch, *top, arg, *mask, budget);
    }
}

// ---------------------------------------------------------------------------------------------
// Part 6: end-to-end differential on random tapes through the public API
// ---------------------------------------------------------------------------------------------

pub fn part6_tapes(ctx: &mut Ctx, sign_first: bool) {
    let mut rng = ctx.rng("tapes");
    let n = ctx.budget(40_000, 4_000_000) / ctx.nshards as u64;
    let sc = scales();
    let mut extra = sc.clone();
    extra.push(q(1, 100));
    extra.push(q(7, 1));
    extra.push(q(1u128 << 70, 3));
    let gauss_ts: Vec<Option<Q>> = extra.iter().map(probe_gauss_t).collect();
    let mut done = 0u64;
    let mut exhausted = 0u64;
    let mut consumption_mismatch = 0u64;
    let mut nonzero = 0u64;
    let mut max_draws = 0u64;
    let mut negative = 0u64;
    let mut runaways = 0u64;
    for i in 0..n {
        if runaways >= 3 {
            ctx.count("e2e_tape_abandoned_after_runaways");
            break;
        }
        let top = if i % 2 == 0 { Layer::DiscreteLaplace } else { Layer::DiscreteGaussian };
        let arg = extra[((i / 2) as usize) % extra.len()].clone();
        let len = 2048 + rng.usize_below(6000);
        let mut tape = rng.bytes(len);
        match rng.below(8) {
            0 => {
                // biased towards small draws
                let m = rng.bytes(len);
                for (a, b) in tape.iter_mut().zip(m) {
                    *a &= b;
                }
            }
            1 => {
                let m = rng.bytes(len);
                for (a, b) in tape.iter_mut().zip(m) {
                    *a |= b;
                }
            }
            _ => {}
        }
        // reference
        let mut src = TapeSrc { tape: &tape, pos: 0, draws: 0, skip_trivial: false };
        let mut m = Model::new(&mut src, sign_first);
        m.sign_probe = Some(sign_first_for);
        if top == Layer::DiscreteGaussian {
            m.gauss_t = gauss_ts[((i / 2) as usize) % extra.len()].clone();
        }
        m.record = false;
        m.cap = 100_000;
        // raw byte-tape mode: the reference consumes the tape exactly like the published algorithms
        m.elide_certain = false;
        let want = m.run(top, &arg);
        drop(m);
        let want = match want {
            Ok(w) => w,
            Err(_) => {
                exhausted += 1;
                continue;
            }
        };
        let mut trng = TapeRng::new(&tape);
        let (res, panic, capped, _entries) = run_capped(top, &arg, true, &mut trng, 1_000_000);
        ctx.eval();
        if capped {
            runaways += 1;
            ctx.violation(
                format!("e2e-tape|{}|does-not-terminate", lname(top)),
                "Distribution::sample made more than 10^6 sampler procedure entries on a random tape on which the CKS20 reference finishes within 10^5",
                json!({"sampler": lname(top), "parameter": qs(&arg), "tape_prefix_consumed_by_reference": hex(&tape[..src.pos]), "want": outs(&want)}),
            );
            continue;
        }
        let got: Result<Outcome, PanicInfo> = match (res, panic) {
            (Some(o), _) => Ok(o),
            (None, Some(pi)) => Err(pi),
            (None, None) => continue,
        };
        match got {
            Err(pi) => {
                ctx.violation(format!("e2e-tape|{}|panic|{}", lname(top), pi.class()), "public sampler panicked", json!({"sampler": lname(top), "parameter": qs(&arg), "tape": hex_trunc(&tape, 512), "panic": pi.message}));
            }
            Ok(got) => {
                if trng.over {
                    exhausted += 1;
                    continue;
                }
                done += 1;
                max_draws = max_draws.max(src.draws);
                // A different integer on the same RAW tape is a violation unless it is fully explained by
                // certain-outcome draws (a uniform draw below 1, made or omitted around Bernoulli(0/1) and
                // exp(-0) trials): those consume tape bytes without carrying any probability. Arbiter: run code
                // and reference again in NORMALISED mode (uniform draws decoded from the tape by the harness,
                // draws below 1 consume nothing, certain sub-calls skipped by the reference). Agreement there
                // means the two realise the same map from the informative draws to the output. (Defects inside
                // the uniform draw itself are part 1's subject, not this one's.)
                let mut explained = false;
                if got != want {
                    let mut src2 = TapeSrc { tape: &tape, pos: 0, draws: 0, skip_trivial: true };
                    let mut m2 = Model::new(&mut src2, sign_first);
                    m2.sign_probe = Some(sign_first_for);
                    if top == Layer::DiscreteGaussian {
                        m2.gauss_t = gauss_ts[((i / 2) as usize) % extra.len()].clone();
                    }
                    m2.record = false;
                    m2.cap = 100_000;
                    let want2 = m2.run(top, &arg).ok();
                    drop(m2);
                    let got2 = run_tape_normalised(top, &arg, true, &tape, 1_000_000);
                    if want2.is_some() && got2 == want2 {
                        explained = true;
                        ctx.count("e2e_tape_divergence_explained_by_certain_draws");
                    }
                }
                if got != want && !explained {
                    ctx.violation(
                        format!("e2e-tape|{}|result", lname(top)),
                        "Distribution::sample on a fixed random tape returns a different integer than the CKS20 reference algorithm run on the same tape",
                        json!({"sampler": lname(top), "parameter": qs(&arg), "tape_prefix_consumed_by_reference": hex(&tape[..src.pos]), "want": outs(&want), "got": outs(&got), "bytes_consumed_by_code": trng.pos}),
                    );
                } else if trng.pos != src.pos {
                    consumption_mismatch += 1;
                }
                if !matches!(&got, Outcome::Signed(x) if x.is_zero()) {
                    nonzero += 1;
                }
                if let Outcome::Signed(x) = &got {
                    if x.is_negative() {
                        negative += 1;
                    }
                }
                if i < 64 * ctx.nshards as u64 {
                    ctx.nontrivial(digest(&[b"tape", &tape[..src.pos.min(64)], qs(&arg).as_bytes()]));
                }
            }
        }
    }
    ctx.count_n("e2e_tape_samples", done);
    ctx.count_n("e2e_tape_nonzero_results", nonzero);
    ctx.count_n("e2e_tape_negative_results", negative);
    ctx.count_n("e2e_tape_exhausted_skipped", exhausted);
    ctx.max("e2e_tape_max_uniform_draws_per_sample", max_draws);
    if consumption_mismatch > 0 {
        ctx.count_n("e2e_tape_consumption_differs", consumption_mismatch);
        ctx.note("equal results but a different number of tape bytes consumed than the reference on some tapes");
    }
}

// ---------------------------------------------------------------------------------------------
// Oracle validation (no code under test involved): the composition of the reference algorithms'
// steps, with each step's exact law, must be the closed-form law. Enclosures ~1e-55 wide.
// ---------------------------------------------------------------------------------------------

pub fn reference_selfcheck(ctx: &mut Ctx) {
    let mut tab = ExpTable::default();
    let mut checks = 0u64;
    let mut widest = 0f64;
    let fail = |ctx: &mut Ctx, what: String| ctx.inconclusive(format!("reference self-check failed (harness oracle error, not a verdict on the code): {what}"));
    // geometric part of Algorithm 2
    for g in gammas() {
        let (s, t) = (g.numer().clone(), g.denom().clone());
        let Some(tt) = t.to_u64() else { continue };
        if tt > 40 || s.to_u64().map_or(true, |x| x > 40) {
            continue;
        }
        let ss = s.to_u64().unwrap();
        let mut a = Iv::zero();
        for u in 0..tt {
            a = a.add(&tab.exp_neg(&q(u as u128, tt as u128)));
        }
        let e1 = tab.exp_neg(&Q::one());
        for y in 0..6u64 {
            let mut sum = Iv::zero();
            // all (u, v) with floor((u + t v)/s) = y
            for x in (y * ss)..((y + 1) * ss) {
                let (v, u) = (x / tt, x % tt);
                let pu = tab.exp_neg(&q(u as u128, tt as u128)).div(&a);
                let pv = e1.one_minus().mul(&e1.powu(BigUint::from(v)));
                sum = sum.add(&pu.mul(&pv));
            }
            let cf = tab.pmf_geometric(&g, &BigUint::from(y));
            checks += 1;
            widest = widest.max(sum.width()).max(cf.width());
            if !sum.intersects(&cf) {
                fail(ctx, format!("geometric({}) at {y}", qs(&g)));
            }
        }
    }
    // Laplace from geometric + sign + rejection of -0
    for sc in scales() {
        let g = recip(&sc);
        let g0 = tab.pmf_geometric(&g, &BigUint::zero());
        let half = Iv::from_q(&q(1, 2));
        let acc = Iv::one().sub(&half.mul(&g0));
        for y in -5i32..=5 {
            let gy = tab.pmf_geometric(&g, &BigUint::from(y.unsigned_abs()));
            let composed = half.mul(&gy).div(&acc);
            let cf = tab.pmf_laplace(&sc, &BigInt::from(y));
            checks += 1;
            widest = widest.max(composed.width()).max(cf.width());
            if !composed.intersects(&cf) {
                fail(ctx, format!("laplace({}) at {y}", qs(&sc)));
            }
        }
    }
    // Gaussian from Laplace(t) proposals and acceptance exp(-(|y| - sigma^2/t)^2 / (2 sigma^2))
    for sg in [q(1, 3), q(1, 2), q(1, 1), q(3, 2), q(2, 1), q(22, 7), q(5, 1)] {
        let t = Q::from_integer(sg.floor().to_integer() + 1u8);
        let s2 = &sg * &sg;
        let centre = &s2 / &t;
        let acc = |tab: &mut ExpTable, y: i64| -> Iv {
            let ya = q(y.unsigned_abs() as u128, 1);
            let d = if ya >= centre { &ya - &centre } else { &centre - &ya };
            tab.exp_neg(&(&d * &d / (&s2 * q(2, 1))))
        };
        let zmax = 60 * (t.numer().to_i64().unwrap() + 1);
        let mut z_sum = Iv::zero();
        for z in -zmax..=zmax {
            let p = tab.pmf_laplace(&t, &BigInt::from(z)).mul(&acc(&mut tab, z));
            z_sum = z_sum.add(&p);
        }
        // tail of the proposal beyond zmax (acceptance <= 1): 2 * sum_{z>zmax} pmf <= 2 x^{zmax+1}/(1+x) <= 2 x^{zmax+1}
        let x = tab.exp_neg(&recip(&t));
        let tail = x.powu(BigUint::from((zmax + 1) as u64));
        let z_sum = Iv { lo: z_sum.lo.clone(), hi: &z_sum.hi + &tail.hi + &tail.hi };
        let norm = tab.gauss_norm(&sg);
        for y in -6i64..=6 {
            let composed = tab.pmf_laplace(&t, &BigInt::from(y)).mul(&acc(&mut tab, y)).div(&z_sum);
            let cf = tab.pmf_gaussian(&sg, &norm, &BigInt::from(y));
            checks += 1;
            widest = widest.max(composed.width()).max(cf.width());
            if !composed.intersects(&cf) {
                fail(ctx, format!("gaussian({}) at {y}", qs(&sg)));
            }
        }
    }
    ctx.count_n("reference_selfcheck_identities", checks);
    ctx.max("reference_selfcheck_widest_enclosure_1e-40", (widest * 1e40).ceil() as u64);
}
