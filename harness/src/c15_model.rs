//! C15 reference models, written from Canonne-Kamath-Steinke, "The Discrete Gaussian for
//! Differential Privacy" (CKS20, arXiv 2004.00010): Algorithm 1 (Bernoulli(exp(-gamma))),
//! Algorithm 2 (discrete Laplace, with its geometric sub-procedure), Algorithm 3 (discrete
//! Gaussian) and the Bernoulli(n/d) / uniform primitives of its section 5, over exact rationals.
//!
//! The model is layered exactly like the statement of the algorithms: every procedure first asks a
//! `Source` whether an outcome for that (layer, exact argument) is *given* (scripted, generated or
//! read from a tape); if not, its body runs and asks for the outcomes of the procedures it uses.
//! The sequence of (layer, argument, given outcome) triples is the *trace* that the code under test
//! has to reproduce under the same given outcomes.
//!
//! Also here: rigorous fixed-point interval enclosures of exp(-x) and the closed-form probability
//! mass functions used by the mass-accounting oracle.

use num_bigint::{BigInt, BigUint, Sign};
use num_integer::Integer;
use num_rational::{BigRational, Ratio};
use num_traits::{One, Signed, ToPrimitive, Zero};
pub use prio::verif_hooks::dp::{Layer, Outcome};
use std::collections::HashMap;

use crate::common::Rng64;

pub type Q = Ratio<BigUint>;

pub fn q(n: u128, d: u128) -> Q {
    Q::new(BigUint::from(n), BigUint::from(d))
}

pub fn qs(x: &Q) -> String {
    if x.denom().is_one() {
        format!("{}", x.numer())
    } else {
        format!("{}/{}", x.numer(), x.denom())
    }
}

pub fn outs(o: &Outcome) -> String {
    match o {
        Outcome::Bool(true) => "T".into(),
        Outcome::Bool(false) => "F".into(),
        Outcome::Unsigned(u) => format!("u{u}"),
        Outcome::Signed(i) => format!("s{i}"),
    }
}

pub fn script_str(s: &[Outcome]) -> String {
    let mut out = String::new();
    for (i, o) in s.iter().enumerate() {
        if i > 0 {
            out.push(' ');
        }
        if i >= 200 {
            out.push_str(&format!("..(+{} more)", s.len() - i));
            break;
        }
        out.push_str(&outs(o));
    }
    out
}

pub const LAYERS: [Layer; 7] = [
    Layer::UniformBelow,
    Layer::Bernoulli,
    Layer::BernoulliExp1,
    Layer::BernoulliExp,
    Layer::GeometricExp,
    Layer::DiscreteLaplace,
    Layer::DiscreteGaussian,
];

pub fn lidx(l: Layer) -> usize {
    match l {
        Layer::UniformBelow => 0,
        Layer::Bernoulli => 1,
        Layer::BernoulliExp1 => 2,
        Layer::BernoulliExp => 3,
        Layer::GeometricExp => 4,
        Layer::DiscreteLaplace => 5,
        Layer::DiscreteGaussian => 6,
    }
}

pub fn lname(l: Layer) -> &'static str {
    match l {
        Layer::UniformBelow => "L0-uniform",
        Layer::Bernoulli => "L1-bernoulli",
        Layer::BernoulliExp1 => "L2-bernoulli-exp1",
        Layer::BernoulliExp => "L3-bernoulli-exp",
        Layer::GeometricExp => "L4-geometric",
        Layer::DiscreteLaplace => "L5-laplace",
        Layer::DiscreteGaussian => "L6-gaussian",
    }
}

/// Set of layers whose outcomes are given (scripted) rather than computed.
#[derive(Clone, Copy, Debug, PartialEq, Eq, Hash)]
pub struct Mask(pub u8);

impl Mask {
    pub fn of(ls: &[Layer]) -> Mask {
        Mask(ls.iter().fold(0u8, |m, l| m | (1 << lidx(*l))))
    }
    pub fn has(self, l: Layer) -> bool {
        self.0 & (1 << lidx(l)) != 0
    }
    pub fn name(self) -> String {
        let mut v = vec![];
        for l in LAYERS {
            if self.has(l) {
                v.push(&lname(l)[..2]);
            }
        }
        v.join("+")
    }
}

/// One entry of a trace: a procedure was entered with this exact argument; `out` is the given
/// outcome, or None if its body ran.
#[derive(Clone, Debug, PartialEq, Eq)]
pub struct Rec {
    pub layer: Layer,
    pub arg: Q,
    pub out: Option<Outcome>,
}

#[allow(dead_code)]
#[derive(Clone, Debug)]
pub enum Stop {
    /// The script ended; the next given outcome would be for this call.
    NeedMore { layer: Layer, arg: Q },
    /// The tape ended.
    TapeEnd,
    /// More than `cap` procedure entries.
    StepCap,
    /// Argument outside the algorithm's domain (harness error if it happens).
    Domain(&'static str),
}

pub trait Source {
    fn ask(&mut self, layer: Layer, arg: &Q) -> Result<Option<Outcome>, Stop>;
}

/// Sub-calls whose outcome is CERTAIN (probability one) given their exact argument: a uniform draw below 1,
/// Bernoulli(0), Bernoulli(1), Bernoulli(exp(-0)). Making or omitting such a call (e.g. skipping the final
/// `exp(-(gamma - floor(gamma)))` trial when gamma is an integer) does not change any output probability, so
/// the conformance oracle must not distinguish code that makes them from code that does not: both the
/// reference trace and the observed trace leave them out (they are answered with the certain outcome without
/// consuming a scripted outcome). The TOP call of an exploration is never elided, so the bodies are still
/// exercised on these arguments directly.
pub fn certain_outcome(layer: Layer, arg: &Q) -> Option<Outcome> {
    match layer {
        Layer::UniformBelow if arg.denom().is_one() && arg.numer().is_one() => Some(Outcome::Unsigned(BigUint::zero())),
        Layer::Bernoulli if arg.is_zero() => Some(Outcome::Bool(false)),
        Layer::Bernoulli if arg.numer() == arg.denom() => Some(Outcome::Bool(true)),
        Layer::BernoulliExp1 | Layer::BernoulliExp if arg.is_zero() => Some(Outcome::Bool(true)),
        _ => None,
    }
}

/// The reference algorithms.
pub struct Model<'a, S: Source> {
    pub src: &'a mut S,
    pub trace: Vec<Rec>,
    pub record: bool,
    /// Algorithm 2 draws the sign B after the magnitude; the draws are independent, so drawing it
    /// first realises the same law. The harness probes which order the code uses and runs the model
    /// in that order (see c15.rs `probe_sign_order`).
    pub sign_first: bool,
    /// The order of the two independent draws may legitimately depend on the SCALE (e.g. sign first for
    /// integral scales, magnitude first otherwise). If set, the order is probed per scale on the real code
    /// (cached) instead of using the single global `sign_first`.
    pub sign_probe: Option<fn(&Q) -> bool>,
    /// Algorithm 3 proposes from Laplace(t) with t = floor(sigma)+1, but its output law is the
    /// discrete Gaussian for ANY fixed t > 0 as long as the acceptance exponent uses the same t
    /// (e^{-|y|/t} * e^{-(|y| - sigma^2/t)^2/(2 sigma^2)} is proportional to e^{-y^2/(2 sigma^2)}).
    /// If set, the reference uses this t (the one the code was observed to use) instead.
    pub gauss_t: Option<Q>,
    pub steps: usize,
    pub cap: usize,
    /// Leave certain-outcome sub-calls out of the trace (see `certain_outcome`). Off only for the raw
    /// byte-tape differential, where the reference has to consume the tape exactly like the code.
    pub elide_certain: bool,
}

impl<'a, S: Source> Model<'a, S> {
    pub fn new(src: &'a mut S, sign_first: bool) -> Self {
        Model { src, trace: Vec::new(), record: true, sign_first, sign_probe: None, gauss_t: None, steps: 0, cap: 2_000_000, elide_certain: true }
    }

    fn enter(&mut self, layer: Layer, arg: &Q) -> Result<Option<Outcome>, Stop> {
        self.steps += 1;
        if self.steps > self.cap {
            return Err(Stop::StepCap);
        }
        if self.elide_certain && self.steps > 1 {
            if let Some(o) = certain_outcome(layer, arg) {
                return Ok(Some(o));
            }
        }
        let out = self.src.ask(layer, arg)?;
        if self.record {
            self.trace.push(Rec { layer, arg: arg.clone(), out: out.clone() });
        }
        Ok(out)
    }

    /// Uniform draw from {0, .., bound-1}. No body: the source must give it (script or tape).
    pub fn uniform(&mut self, bound: &BigUint) -> Result<BigUint, Stop> {
        if bound.is_zero() {
            return Err(Stop::Domain("uniform bound 0"));
        }
        match self.enter(Layer::UniformBelow, &Q::from_integer(bound.clone()))? {
            Some(Outcome::Unsigned(u)) => Ok(u),
            Some(o) => panic!("harness: uniform given {o:?}"),
            None => Err(Stop::Domain("uniform draw must be given by the source")),
        }
    }

    /// Bernoulli(n/d) (CKS20 section 5): one uniform draw from a d-element set, n elements succeed.
    pub fn bernoulli(&mut self, g: &Q) -> Result<bool, Stop> {
        match self.enter(Layer::Bernoulli, g)? {
            Some(Outcome::Bool(b)) => return Ok(b),
            Some(o) => panic!("harness: bernoulli given {o:?}"),
            None => {}
        }
        if g.numer() > g.denom() {
            return Err(Stop::Domain("bernoulli parameter > 1"));
        }
        let w = self.uniform(g.denom())?;
        Ok(&w < g.numer())
    }

    /// Algorithm 1, case gamma in [0,1]:
    ///   K <- 1; loop { A <- Bernoulli(gamma/K); if A = 0 break; K <- K+1 }; return K mod 2 = 1.
    pub fn bexp1(&mut self, g: &Q) -> Result<bool, Stop> {
        match self.enter(Layer::BernoulliExp1, g)? {
            Some(Outcome::Bool(b)) => return Ok(b),
            Some(o) => panic!("harness: bexp1 given {o:?}"),
            None => {}
        }
        if g.numer() > g.denom() {
            return Err(Stop::Domain("bexp1 parameter > 1"));
        }
        let mut k = 1u64;
        loop {
            let p = g / Q::from_integer(BigUint::from(k));
            if !self.bernoulli(&p)? {
                return Ok(k % 2 == 1);
            }
            k += 1;
        }
    }

    /// Algorithm 1, general case, as exp(-gamma) = exp(-1)^floor(gamma) * exp(-(gamma-floor(gamma))):
    ///   for k = 1..floor(gamma): B <- Bernoulli(exp(-1)); if B = 0 return 0
    ///   return C <- Bernoulli(exp(-(gamma - floor(gamma))))
    /// (for gamma < 1 this is the first branch of the paper verbatim; for gamma = 1 the paper's first
    /// branch and this decomposition are the same law, exp(-1)*exp(0)).
    pub fn bexp(&mut self, g: &Q) -> Result<bool, Stop> {
        match self.enter(Layer::BernoulliExp, g)? {
            Some(Outcome::Bool(b)) => return Ok(b),
            Some(o) => panic!("harness: bexp given {o:?}"),
            None => {}
        }
        let n = g.numer().div_floor(g.denom());
        let one = Q::one();
        let mut k = BigUint::zero();
        while k < n {
            if !self.bexp1(&one)? {
                return Ok(false);
            }
            k += 1u8;
        }
        let frac = Q::new(g.numer() - &n * g.denom(), g.denom().clone());
        self.bexp1(&frac)
    }

    /// The first part of Algorithm 2 for Laplace scale t/s, i.e. gamma = s/t:
    ///   loop { U <- uniform{0..t-1}; D <- Bernoulli(exp(-U/t)); if D = 1 break }
    ///   V <- 0; loop { A <- Bernoulli(exp(-1)); if A = 0 break; V <- V+1 }
    ///   return floor((U + t*V) / s)           -- Geometric(1 - exp(-s/t))
    pub fn geometric(&mut self, g: &Q) -> Result<BigUint, Stop> {
        match self.enter(Layer::GeometricExp, g)? {
            Some(Outcome::Unsigned(u)) => return Ok(u),
            Some(o) => panic!("harness: geometric given {o:?}"),
            None => {}
        }
        if g.is_zero() {
            return Err(Stop::Domain("geometric parameter 0"));
        }
        let s = g.numer().clone();
        let t = g.denom().clone();
        let u = loop {
            let u = self.uniform(&t)?;
            let p = Q::new(u.clone(), t.clone());
            if self.bexp1(&p)? {
                break u;
            }
        };
        let one = Q::one();
        let mut v = BigUint::zero();
        while self.bexp1(&one)? {
            v += 1u8;
        }
        let x = u + &t * v;
        Ok(x.div_floor(&s))
    }

    /// Algorithm 2, discrete Laplace with scale `scale` = t/s:
    ///   loop { Y <- Geometric part with gamma = s/t; B <- Bernoulli(1/2);
    ///          if B = 1 and Y = 0 continue; return (1-2B)*Y }
    pub fn laplace(&mut self, scale: &Q) -> Result<BigInt, Stop> {
        match self.enter(Layer::DiscreteLaplace, scale)? {
            Some(Outcome::Signed(i)) => return Ok(i),
            Some(o) => panic!("harness: laplace given {o:?}"),
            None => {}
        }
        if scale.is_zero() {
            return Err(Stop::Domain("laplace scale 0"));
        }
        let gamma = Q::new(scale.denom().clone(), scale.numer().clone());
        let half = q(1, 2);
        loop {
            let sign_first = match self.sign_probe {
                Some(f) => f(scale),
                None => self.sign_first,
            };
            let (b, y) = if sign_first {
                let b = self.bernoulli(&half)?;
                let y = self.geometric(&gamma)?;
                (b, y)
            } else {
                let y = self.geometric(&gamma)?;
                let b = self.bernoulli(&half)?;
                (b, y)
            };
            if b && y.is_zero() {
                continue;
            }
            let y = BigInt::from_biguint(Sign::Plus, y);
            return Ok(if b { -y } else { y });
        }
    }

    /// Algorithm 3, discrete Gaussian with standard deviation sigma:
    ///   t <- floor(sigma) + 1
    ///   loop { Y <- Laplace(scale t); gamma <- (|Y| - sigma^2/t)^2 / (2 sigma^2);
    ///          C <- Bernoulli(exp(-gamma)); if C = 1 return Y }
    pub fn gaussian(&mut self, sigma: &Q) -> Result<BigInt, Stop> {
        match self.enter(Layer::DiscreteGaussian, sigma)? {
            Some(Outcome::Signed(i)) => return Ok(i),
            Some(o) => panic!("harness: gaussian given {o:?}"),
            None => {}
        }
        if sigma.is_zero() {
            return Err(Stop::Domain("gaussian sigma 0"));
        }
        let tq = match &self.gauss_t {
            Some(t) if !t.is_zero() => t.clone(),
            _ => Q::from_integer(sigma.numer().div_floor(sigma.denom()) + 1u8),
        };
        // signed rationals for the acceptance exponent
        let sig = BigRational::new(
            BigInt::from_biguint(Sign::Plus, sigma.numer().clone()),
            BigInt::from_biguint(Sign::Plus, sigma.denom().clone()),
        );
        let sig2 = &sig * &sig;
        let centre = &sig2
            / BigRational::new(
                BigInt::from_biguint(Sign::Plus, tq.numer().clone()),
                BigInt::from_biguint(Sign::Plus, tq.denom().clone()),
            );
        let two_sig2 = &sig2 * BigRational::from_integer(BigInt::from(2));
        loop {
            let y = self.laplace(&tq)?;
            let d = BigRational::from_integer(y.abs()) - &centre;
            let gamma = (&d * &d) / &two_sig2;
            let gq = Q::new(gamma.numer().magnitude().clone(), gamma.denom().magnitude().clone());
            if self.bexp(&gq)? {
                return Ok(y);
            }
        }
    }

    /// Run the procedure of `layer` on `arg`.
    pub fn run(&mut self, layer: Layer, arg: &Q) -> Result<Outcome, Stop> {
        Ok(match layer {
            Layer::UniformBelow => {
                if !arg.denom().is_one() {
                    return Err(Stop::Domain("uniform bound must be an integer"));
                }
                Outcome::Unsigned(self.uniform(arg.numer())?)
            }
            Layer::Bernoulli => Outcome::Bool(self.bernoulli(arg)?),
            Layer::BernoulliExp1 => Outcome::Bool(self.bexp1(arg)?),
            Layer::BernoulliExp => Outcome::Bool(self.bexp(arg)?),
            Layer::GeometricExp => Outcome::Unsigned(self.geometric(arg)?),
            Layer::DiscreteLaplace => Outcome::Signed(self.laplace(arg)?),
            Layer::DiscreteGaussian => Outcome::Signed(self.gaussian(arg)?),
        })
    }
}

// ---------------------------------------------------------------------------------------------
// Sources
// ---------------------------------------------------------------------------------------------

/// Replays a fixed list of outcomes for the layers in `mask`; the first entry of the top layer is
/// never given (its body is what is being explored).
pub struct Replay<'a> {
    pub mask: Mask,
    pub outs: &'a [Outcome],
    pub pos: usize,
}

pub fn kind_ok(layer: Layer, o: &Outcome) -> bool {
    matches!(
        (layer, o),
        (Layer::UniformBelow | Layer::GeometricExp, Outcome::Unsigned(_))
            | (Layer::Bernoulli | Layer::BernoulliExp1 | Layer::BernoulliExp, Outcome::Bool(_))
            | (Layer::DiscreteLaplace | Layer::DiscreteGaussian, Outcome::Signed(_))
    )
}

impl Source for Replay<'_> {
    fn ask(&mut self, layer: Layer, arg: &Q) -> Result<Option<Outcome>, Stop> {
        if !self.mask.has(layer) {
            return Ok(None);
        }
        if self.pos >= self.outs.len() {
            return Err(Stop::NeedMore { layer, arg: arg.clone() });
        }
        let o = self.outs[self.pos].clone();
        assert!(kind_ok(layer, &o), "harness: script outcome {o:?} for {layer:?}");
        self.pos += 1;
        Ok(Some(o))
    }
}

/// How a generated script is shaped. Booleans are true with probability `p_true`/256 except that
/// the first `run_len` boolean outcomes asked of `run_layer` with (`run_on_one` == (arg == 1)) are
/// `run_value` (long runs inside one particular loop).
#[derive(Clone, Debug)]
pub struct Shape {
    pub p_true: [u8; 7],
    pub run_layer: Option<Layer>,
    pub run_on_one: Option<bool>,
    pub run_value: bool,
    pub run_len: usize,
    /// geometric / Laplace outcomes: probability (of 256) of a zero outcome, and magnitude bits.
    pub p_zero: u8,
    pub mag_bits: u32,
    /// For Laplace-in-Gaussian / geometric-in-Laplace runs: force this many (sign=1, magnitude=0)
    /// style outcomes first (magnitude given as 0).
    pub zero_run: usize,
}

impl Shape {
    pub fn plain(p: u8) -> Shape {
        Shape { p_true: [p; 7], run_layer: None, run_on_one: None, run_value: false, run_len: 0, p_zero: 96, mag_bits: 3, zero_run: 0 }
    }
}

/// Generates outcomes on demand (and remembers them, so that the code under test can be replayed
/// with exactly the same list).
pub struct Generate<'a> {
    pub mask: Mask,
    pub rng: &'a mut Rng64,
    pub shape: Shape,
    pub produced: Vec<Outcome>,
    pub run_used: usize,
    pub zero_used: usize,
}

impl<'a> Generate<'a> {
    pub fn new(mask: Mask, rng: &'a mut Rng64, shape: Shape) -> Self {
        Generate { mask, rng, shape, produced: Vec::new(), run_used: 0, zero_used: 0 }
    }
}

pub fn random_below(rng: &mut Rng64, bound: &BigUint) -> BigUint {
    // harness-side choice of an outcome (not a sampler under test): edge-biased
    let one = BigUint::one();
    match rng.below(8) {
        0 => BigUint::zero(),
        1 => bound - &one,
        2 => (bound - &one) / 2u8,
        _ => {
            let nbytes = (bound.bits() as usize + 7) / 8 + 8;
            BigUint::from_bytes_le(&rng.bytes(nbytes)) % bound
        }
    }
}

impl Source for Generate<'_> {
    fn ask(&mut self, layer: Layer, arg: &Q) -> Result<Option<Outcome>, Stop> {
        if !self.mask.has(layer) {
            return Ok(None);
        }
        let o = match layer {
            Layer::UniformBelow => Outcome::Unsigned(random_below(self.rng, arg.numer())),
            Layer::Bernoulli | Layer::BernoulliExp1 | Layer::BernoulliExp => {
                let in_run = self.shape.run_layer == Some(layer)
                    && self.shape.run_on_one.map_or(true, |w| w == arg.is_one())
                    && self.run_used < self.shape.run_len;
                if in_run {
                    self.run_used += 1;
                    Outcome::Bool(self.shape.run_value)
                } else {
                    Outcome::Bool(self.rng.below(256) < self.shape.p_true[lidx(layer)] as u64)
                }
            }
            Layer::GeometricExp | Layer::DiscreteLaplace | Layer::DiscreteGaussian => {
                let mag = if self.zero_used < self.shape.zero_run {
                    self.zero_used += 1;
                    BigUint::zero()
                } else if self.rng.below(256) < self.shape.p_zero as u64 {
                    BigUint::zero()
                } else if self.rng.below(64) == 0 {
                    BigUint::from_bytes_le(&self.rng.bytes(12))
                } else {
                    BigUint::from(self.rng.below(1 << self.shape.mag_bits) + 1)
                };
                if layer == Layer::GeometricExp {
                    Outcome::Unsigned(mag)
                } else {
                    let neg = self.rng.bool();
                    let v = BigInt::from_biguint(Sign::Plus, mag);
                    Outcome::Signed(if neg { -v } else { v })
                }
            }
        };
        self.produced.push(o.clone());
        Ok(Some(o))
    }
}

/// The bit-consumption convention of the uniform draw, re-implemented: to draw below `bound`, take
/// `bits(bound)` random bits as ceil(bits/32) little-endian 32-bit words of the byte stream, the
/// last word contributing its top (bits mod 32) bits (shifted down) when bits is not a multiple of
/// 32; accept if the value is below `bound`, otherwise discard all of it and repeat.
pub fn tape_uniform_below(tape: &[u8], pos: &mut usize, bound: &BigUint) -> Option<BigUint> {
    let bits = bound.bits();
    let words = ((bits + 31) / 32) as usize;
    let rem = (bits % 32) as u32;
    loop {
        if *pos + 4 * words > tape.len() {
            return None;
        }
        let mut digits = Vec::with_capacity(words);
        for i in 0..words {
            let b = &tape[*pos + 4 * i..*pos + 4 * i + 4];
            digits.push(u32::from_le_bytes([b[0], b[1], b[2], b[3]]));
        }
        *pos += 4 * words;
        if rem > 0 {
            let last = words - 1;
            digits[last] >>= 32 - rem;
        }
        let n = BigUint::new(digits);
        if &n < bound {
            return Some(n);
        }
    }
}

/// Only the uniform draws are given: they are read from a byte tape.
pub struct TapeSrc<'a> {
    pub tape: &'a [u8],
    pub pos: usize,
    pub draws: u64,
    /// A draw below 1 is answered with 0 without touching the tape (normalised mode, see part 6).
    pub skip_trivial: bool,
}

impl Source for TapeSrc<'_> {
    fn ask(&mut self, layer: Layer, arg: &Q) -> Result<Option<Outcome>, Stop> {
        if layer != Layer::UniformBelow {
            return Ok(None);
        }
        if self.skip_trivial && arg.numer().is_one() {
            return Ok(Some(Outcome::Unsigned(BigUint::zero())));
        }
        self.draws += 1;
        match tape_uniform_below(self.tape, &mut self.pos, arg.numer()) {
            Some(v) => Ok(Some(Outcome::Unsigned(v))),
            None => Err(Stop::TapeEnd),
        }
    }
}

// ---------------------------------------------------------------------------------------------
// Rigorous enclosures: fixed-point intervals with directed rounding
// ---------------------------------------------------------------------------------------------

pub const PREC: u64 = 192;

/// The real number x with lo/2^PREC <= x <= hi/2^PREC (all quantities here are in [0, 2^64)).
#[derive(Clone, Debug)]
pub struct Iv {
    pub lo: BigUint,
    pub hi: BigUint,
}

fn ceil_div(a: &BigUint, b: &BigUint) -> BigUint {
    let (q, r) = a.div_rem(b);
    if r.is_zero() {
        q
    } else {
        q + 1u8
    }
}

impl Iv {
    pub fn zero() -> Iv {
        Iv { lo: BigUint::zero(), hi: BigUint::zero() }
    }
    pub fn one() -> Iv {
        let o = BigUint::one() << PREC;
        Iv { lo: o.clone(), hi: o }
    }
    pub fn from_q(x: &Q) -> Iv {
        let n = x.numer() << PREC;
        Iv { lo: &n / x.denom(), hi: ceil_div(&n, x.denom()) }
    }
    pub fn add(&self, o: &Iv) -> Iv {
        Iv { lo: &self.lo + &o.lo, hi: &self.hi + &o.hi }
    }
    /// self - o, clamped below at 0 (all true values here are non-negative).
    pub fn sub(&self, o: &Iv) -> Iv {
        let lo = if self.lo > o.hi { &self.lo - &o.hi } else { BigUint::zero() };
        let hi = if self.hi > o.lo { &self.hi - &o.lo } else { BigUint::zero() };
        Iv { lo, hi }
    }
    pub fn mul(&self, o: &Iv) -> Iv {
        let lo = (&self.lo * &o.lo) >> PREC;
        let h = &self.hi * &o.hi;
        let one = BigUint::one() << PREC;
        Iv { lo, hi: ceil_div(&h, &one) }
    }
    pub fn div(&self, o: &Iv) -> Iv {
        assert!(!o.lo.is_zero(), "harness: interval division by an interval containing 0");
        Iv { lo: (&self.lo << PREC) / &o.hi, hi: ceil_div(&(&self.hi << PREC), &o.lo) }
    }
    pub fn powu(&self, mut k: BigUint) -> Iv {
        let mut base = self.clone();
        let mut acc = Iv::one();
        while !k.is_zero() {
            if k.is_odd() {
                acc = acc.mul(&base);
            }
            k >>= 1;
            if !k.is_zero() {
                base = base.mul(&base);
            }
        }
        acc
    }
    pub fn one_minus(&self) -> Iv {
        Iv::one().sub(self)
    }
    pub fn f64_lo(&self) -> f64 {
        big_to_f64(&self.lo)
    }
    pub fn f64_hi(&self) -> f64 {
        big_to_f64(&self.hi)
    }
    pub fn width(&self) -> f64 {
        big_to_f64(&(&self.hi - &self.lo))
    }
    /// Do the two enclosures share a point?
    pub fn intersects(&self, o: &Iv) -> bool {
        self.lo <= o.hi && o.lo <= self.hi
    }
}

fn big_to_f64(x: &BigUint) -> f64 {
    // x / 2^PREC
    let bits = x.bits();
    if bits == 0 {
        return 0.0;
    }
    let shift = bits.saturating_sub(63);
    let top = (x >> shift).to_u64().unwrap() as f64;
    top * 2f64.powi(shift as i32 - PREC as i32)
}

/// Enclosures of exp(-x), memoised.
#[derive(Default)]
pub struct ExpTable {
    memo: HashMap<(BigUint, BigUint), Iv>,
}

impl ExpTable {
    /// exp(-f) for f in [0,1]: alternating Taylor series, truncation error below the first omitted
    /// term (terms are decreasing because f <= 1).
    fn exp_neg_frac(f: &Q) -> Iv {
        let fi = Iv::from_q(f);
        let mut pos = Iv::one();
        let mut neg = Iv::zero();
        let mut term = Iv::one();
        let mut k = 1u32;
        loop {
            term = term.mul(&fi).div(&Iv::from_q(&q(k as u128, 1)));
            if k > 70 || term.hi.is_zero() {
                break;
            }
            if k % 2 == 1 {
                neg = neg.add(&term);
            } else {
                pos = pos.add(&term);
            }
            k += 1;
        }
        // |remainder| <= term (the first omitted one)
        let lo_base = pos.sub(&neg);
        let slack = Iv { lo: BigUint::zero(), hi: term.hi.clone() + 1u8 };
        Iv { lo: lo_base.sub(&slack).lo, hi: lo_base.hi + &slack.hi }
    }

    pub fn exp_neg(&mut self, x: &Q) -> Iv {
        let key = (x.numer().clone(), x.denom().clone());
        if let Some(v) = self.memo.get(&key) {
            return v.clone();
        }
        let n = x.numer().div_floor(x.denom());
        let f = Q::new(x.numer() - &n * x.denom(), x.denom().clone());
        let mut r = Self::exp_neg_frac(&f);
        if !n.is_zero() {
            let e1 = Self::exp_neg_frac(&Q::one());
            r = r.mul(&e1.powu(n));
        }
        // clamp to [0,1]
        let one = BigUint::one() << PREC;
        if r.hi > one {
            r.hi = one;
        }
        self.memo.insert(key, r.clone());
        r
    }

    /// P[Bernoulli(exp(-g)) = b]
    pub fn pmf_bexp(&mut self, g: &Q, b: bool) -> Iv {
        let e = self.exp_neg(g);
        if b {
            e
        } else {
            e.one_minus()
        }
    }

    /// Geometric(1 - exp(-g)): P[k] = (1 - exp(-g)) exp(-g k)
    pub fn pmf_geometric(&mut self, g: &Q, k: &BigUint) -> Iv {
        let x = self.exp_neg(g);
        x.one_minus().mul(&x.powu(k.clone()))
    }

    /// Discrete Laplace with scale s: P[y] = (e^{1/s} - 1)/(e^{1/s} + 1) e^{-|y|/s}
    ///                                      = (1 - x)/(1 + x) x^{|y|},  x = e^{-1/s}
    pub fn pmf_laplace(&mut self, scale: &Q, y: &BigInt) -> Iv {
        let x = self.exp_neg(&Q::new(scale.denom().clone(), scale.numer().clone()));
        let c = x.one_minus().div(&Iv::one().add(&x));
        c.mul(&x.powu(y.magnitude().clone()))
    }

    /// Normaliser of the discrete Gaussian: sum over all integers z of exp(-z^2 / (2 sigma^2)).
    pub fn gauss_norm(&mut self, sigma: &Q) -> Iv {
        let two_s2 = sigma * sigma * q(2, 1);
        // M with M >= 8 sigma^2 + 8
        let m = (&two_s2 * q(4, 1)).ceil().to_integer().to_u64().expect("sigma too large for the enclosure") + 8;
        let mut sum = Iv::one();
        for z in 1..=m {
            let e = self.exp_neg(&(q((z as u128) * (z as u128), 1) / &two_s2));
            sum = sum.add(&e).add(&e);
        }
        // tail: for z > M, z^2 >= M z, so exp(-z^2/2s^2) <= r^z with r = exp(-M/2s^2);
        // 2 * sum_{z>M} r^z = 2 r^{M+1} / (1 - r)
        let r = self.exp_neg(&(q(m as u128, 1) / &two_s2));
        let tail_hi = r.powu(BigUint::from(m + 1)).div(&r.one_minus());
        let tail = Iv { lo: BigUint::zero(), hi: tail_hi.hi.clone() + &tail_hi.hi };
        sum.add(&tail)
    }

    /// Discrete Gaussian: P[y] = exp(-y^2/(2 sigma^2)) / sum_z exp(-z^2/(2 sigma^2))
    pub fn pmf_gaussian(&mut self, sigma: &Q, norm: &Iv, y: &BigInt) -> Iv {
        let two_s2 = sigma * sigma * q(2, 1);
        let y2 = Q::from_integer(y.magnitude() * y.magnitude());
        self.exp_neg(&(y2 / two_s2)).div(norm)
    }

    /// Probability of a given outcome of a sub-layer call under that sub-layer's exact law.
    pub fn pmf(&mut self, layer: Layer, arg: &Q, o: &Outcome) -> Iv {
        match (layer, o) {
            (Layer::UniformBelow, Outcome::Unsigned(u)) => {
                if u < arg.numer() {
                    Iv::from_q(&Q::new(BigUint::one(), arg.numer().clone()))
                } else {
                    Iv::zero()
                }
            }
            (Layer::Bernoulli, Outcome::Bool(b)) => {
                if *b {
                    Iv::from_q(arg)
                } else {
                    Iv::from_q(&(Q::one() - arg))
                }
            }
            (Layer::BernoulliExp1 | Layer::BernoulliExp, Outcome::Bool(b)) => self.pmf_bexp(arg, *b),
            (Layer::GeometricExp, Outcome::Unsigned(k)) => self.pmf_geometric(arg, k),
            (Layer::DiscreteLaplace, Outcome::Signed(y)) => self.pmf_laplace(arg, y),
            _ => panic!("harness: pmf of {o:?} at {layer:?}"),
        }
    }
}
