//! C15 part 7: `AggregatorWithNoise::add_noise_to_agg_share` on every noise-capable Prio3 type.
//!
//! With the discrete-Laplace layer answered by the interceptor: one draw per coordinate, in order,
//! every draw with scale = documented sensitivity / epsilon (exact rational), and
//! share_after - share_before = noise (mod p, floor-mod). Then, with real noise, two aggregators add
//! noise and the unsharded result differs from the true aggregate by a small signed integer.

use crate::c15_model::*;
use crate::common::*;
use crate::zoo::*;
use num_bigint::{BigInt, BigUint, Sign};
use num_traits::{One, Signed, ToPrimitive, Zero};
use prio::dp::distributions::PureDpDiscreteLaplace;
use prio::dp::{DifferentialPrivacyStrategy, PureDpBudget, Rational};
use prio::field::{Field128, Field64};
use prio::flp::gadgets::{Mul, ParallelSum, ParallelSumMultithreaded};
use prio::flp::types::{Histogram, L1BoundSum, SumVec};
use prio::flp::TypeWithNoise;
use prio::vdaf::prio3::Prio3;
use prio::vdaf::xof::XofTurboShake128;
use prio::vdaf::{AggregateShare, AggregatorWithNoise, Collector};
use prio::verif_hooks::dp as hk;
use serde_json::json;
use std::cell::RefCell;
use std::rc::Rc;

thread_local! {
    static RUNAWAYS: std::cell::Cell<u32> = const { std::cell::Cell::new(0) };
}

#[derive(Default)]
struct NoiseState {
    answer: bool,
    give: Vec<BigInt>,
    pos: usize,
    scales: Vec<Q>,
    beyond: u64,
    other_layers: u64,
    runaway: bool,
}

/// Sensitivity as documented in src/flp/types/dp.rs for each type.
fn documented_sensitivity(p: &Params) -> BigUint {
    match p.kind {
        // "(2^bits - 1) * length"
        Kind::SumVec => ((BigUint::one() << p.bits()) - 1u8) * BigUint::from(p.len),
        // "The global sensitivity of the aggregation function is two"
        Kind::Histogram => BigUint::from(2u8),
        // "2 * max_value"
        Kind::L1BoundSum => BigUint::from(p.max) * 2u8,
        _ => unreachable!(),
    }
}

fn floor_mod(x: &BigInt, p: u128) -> u128 {
    let pb = BigInt::from(p);
    let mut r = x % &pb; // truncated remainder, sign of x
    if r.is_negative() {
        r += &pb;
    }
    r.to_u128().unwrap()
}

fn centered(x: u128, p: u128) -> BigInt {
    if x > p / 2 {
        BigInt::from(x) - BigInt::from(p)
    } else {
        BigInt::from(x)
    }
}

fn noise_values(p: u128, rng: &mut Rng64) -> Vec<BigInt> {
    let pb = BigInt::from(p);
    let mut v: Vec<BigInt> = vec![BigInt::zero()];
    let big = BigInt::one() << 200u32;
    for m in [BigInt::one(), &pb - 1, pb.clone(), &pb + 5, big, BigInt::from(2), &pb * 3 + 7, (&pb - 1) / 2, (&pb + 1) / 2] {
        v.push(m.clone());
        v.push(-m);
    }
    for _ in 0..4 {
        let nb = 1 + rng.usize_below(30);
        let m = BigInt::from_biguint(Sign::Plus, BigUint::from_bytes_le(&rng.bytes(nb)));
        v.push(if rng.bool() { -m } else { m });
    }
    v
}

fn gen_share<F: ZField>(rng: &mut Rng64, len: usize) -> Vec<u128> {
    (0..len)
        .map(|_| match rng.below(6) {
            0 => 0,
            1 => F::P - 1,
            2 => 1,
            _ => rng.u128() % F::P,
        })
        .collect()
}

fn strategy(eps: (u128, u128)) -> PureDpDiscreteLaplace {
    PureDpDiscreteLaplace::from_budget(PureDpBudget::new(Rational::from_unsigned(eps.0, eps.1).unwrap()).unwrap())
}

const EPS: [(u128, u128); 5] = [(1, 100), (1, 3), (1, 1), (2, 1), (100, 1)];

fn noise_cases<T>(ctx: &mut Ctx, st: &Rc<RefCell<NoiseState>>, p: &Params, multithreaded: bool, rng: &mut Rng64)
where
    T: Kinded + TypeWithNoise<PureDpDiscreteLaplace>,
    T::Field: ZField,
{
    let kind = p.kind.name();
    let desc = format!("{}{}", p.describe(), if multithreaded { " multithreaded-gadget" } else { "" });
    let typ = match T::build(p) {
        Ok(t) => t,
        Err(e) => {
            ctx.set_insert("noise_constructor_refused", format!("{desc}: {e}"));
            return;
        }
    };
    let aggs = 2 + rng.below(3) as u8;
    let vdaf = match Prio3::<T, XofTurboShake128, 32>::new(aggs, 1, algorithm_id(p.kind), typ) {
        Ok(v) => v,
        Err(e) => {
            ctx.set_insert("noise_constructor_refused", format!("{desc}: {e}"));
            return;
        }
    };
    let fp = <T::Field as ZField>::P;
    let len = p.output_len();
    let sens = documented_sensitivity(p);
    let values = noise_values(fp, rng);
    for eps in EPS {
        let strat = strategy(eps);
        // scale = sensitivity / epsilon, exactly
        let want_scale = Q::from_integer(sens.clone()) / q(eps.0, eps.1);
        let rounds = values.len().div_ceil(len).min(24);
        for round in 0..rounds {
            let before = gen_share::<T::Field>(rng, len);
            let give: Vec<BigInt> = (0..len).map(|i| values[(round * len + i) % values.len()].clone()).collect();
            {
                let mut s = st.borrow_mut();
                *s = NoiseState { answer: true, give: give.clone(), ..Default::default() };
            }
            let mut share = AggregateShare::from(ints_to_field::<T::Field>(&before));
            let nm = rng.usize_below(1000);
            let r = catch(|| vdaf.add_noise_to_agg_share(&strat, &(), &mut share, nm));
            ctx.eval();
            let s = st.borrow();
            let wit = |extra: serde_json::Value| {
                json!({"type": desc, "epsilon": format!("{}/{}", eps.0, eps.1), "share_before": before.iter().map(|x| x.to_string()).collect::<Vec<_>>(),
                       "noise_given_per_coordinate": give.iter().map(|x| x.to_string()).collect::<Vec<_>>(), "detail": extra})
            };
            match r {
                Err(pi) => {
                    ctx.violation(format!("noise|{kind}|panic|{}", pi.class()), "add_noise_to_agg_share panicked", wit(json!({"panic": pi.message, "at": pi.location})));
                    continue;
                }
                Ok(Err(e)) => {
                    if s.pos == 0 && s.beyond == 0 {
                        // refused from the parameters alone, before any noise was drawn: nothing was added
                        ctx.count("noise_refused_before_any_draw");
                        ctx.set_insert("noise_refusals", format!("{desc}: {e}"));
                        break;
                    }
                    ctx.violation(
                        format!("noise|{kind}|error-after-draw"),
                        "add_noise_to_agg_share failed after drawing noise: a value from the sampler's support could not be reduced into the field",
                        wit(json!({"error": e.to_string(), "draws_made": s.pos})),
                    );
                    continue;
                }
                Ok(Ok(())) => {}
            }
            ctx.count("noise_intercepted_calls");
            let after = field_to_ints::<T::Field>(share.as_ref());
            if s.pos != len || s.beyond != 0 || s.other_layers != 0 || after.len() != len {
                ctx.violation(
                    format!("noise|{kind}|draw-count"),
                    "add_noise_to_agg_share does not make exactly one discrete-Laplace draw per coordinate",
                    wit(json!({"coordinates": len, "laplace_draws": s.pos as u64 + s.beyond, "other_sampler_layers_entered": s.other_layers})),
                );
                continue;
            }
            if let Some(bad) = s.scales.iter().position(|x| x != &want_scale) {
                ctx.violation(
                    format!("noise|{kind}|scale"),
                    "a coordinate's noise is drawn with a scale different from (documented sensitivity) / epsilon",
                    wit(json!({"coordinate": bad, "documented_sensitivity": sens.to_string(), "want_scale": qs(&want_scale), "got_scale": qs(&s.scales[bad])})),
                );
                continue;
            }
            ctx.count_n("noise_scale_identities", len as u64);
            let mut proj_bad = None;
            for i in 0..len {
                let want = addmod(before[i], floor_mod(&give[i], fp), fp);
                if after[i] != want {
                    proj_bad = Some((i, want));
                    break;
                }
                if give[i].is_negative() {
                    ctx.count("noise_negative_values_projected");
                }
                if give[i].magnitude() >= &BigUint::from(fp) {
                    ctx.count("noise_values_beyond_modulus_projected");
                }
            }
            if let Some((i, want)) = proj_bad {
                ctx.violation(
                    format!("noise|{kind}|projection"),
                    "share_after - share_before is not the drawn noise reduced modulo the field size (floor-mod), coordinate by coordinate in draw order",
                    wit(json!({"coordinate": i, "want_after": want.to_string(), "got_after": after[i].to_string()})),
                );
                continue;
            }
            ctx.count_n("noise_coordinates_checked", len as u64);
        }
        ctx.nontrivial(digest(&[b"noise", desc.as_bytes(), &eps.0.to_le_bytes(), &eps.1.to_le_bytes()]));
        ctx.sample(|| json!({"type": desc, "epsilon": format!("{}/{}", eps.0, eps.1), "scale": qs(&want_scale), "coordinates": len}));

        // un-intercepted: real noise from two aggregators
        if RUNAWAYS.with(|c| c.get()) >= 2 {
            ctx.count("noise_real_abandoned_after_runaways");
            continue;
        }
        let scale_ceil = want_scale.ceil().to_integer();
        let bound = (scale_ceil + 1u8) * 400u32;
        if bound >= BigUint::from(fp / 4) {
            ctx.count("noise_real_skipped_scale_too_large_for_field");
            continue;
        }
        {
            let mut s = st.borrow_mut();
            *s = NoiseState { answer: false, ..Default::default() };
        }
        let truth: Vec<u128> = (0..len).map(|_| rng.below(1 << 20) as u128).collect();
        let s1 = gen_share::<T::Field>(rng, len);
        let s2: Vec<u128> = truth.iter().zip(&s1).map(|(t, a)| submod(*t, *a, fp)).collect();
        let mut sh1 = AggregateShare::from(ints_to_field::<T::Field>(&s1));
        let mut sh2 = AggregateShare::from(ints_to_field::<T::Field>(&s2));
        let r = catch(|| -> Result<T::AggregateResult, String> {
            vdaf.add_noise_to_agg_share(&strat, &(), &mut sh1, 10).map_err(|e| e.to_string())?;
            vdaf.add_noise_to_agg_share(&strat, &(), &mut sh2, 10).map_err(|e| e.to_string())?;
            vdaf.unshard(&(), [sh1.clone(), sh2.clone()], 10).map_err(|e| e.to_string())
        });
        ctx.eval();
        let s = st.borrow();
        let wit = |extra: serde_json::Value| json!({"type": desc, "epsilon": format!("{}/{}", eps.0, eps.1), "true_aggregate": truth.iter().map(|x| x.to_string()).collect::<Vec<_>>(), "detail": extra});
        if s.runaway {
            ctx.violation(format!("noise|{kind}|does-not-terminate"), "adding real noise made more than 5*10^6 sampler procedure entries", wit(json!({})));
            drop(s);
            reinstall(st);
            RUNAWAYS.with(|c| c.set(c.get() + 1));
            continue;
        }
        match r {
            Err(pi) => ctx.violation(format!("noise|{kind}|panic|{}", pi.class()), "add_noise_to_agg_share / unshard panicked with real noise", wit(json!({"panic": pi.message, "at": pi.location}))),
            Ok(Err(e)) => {
                if s.scales.is_empty() {
                    ctx.count("noise_refused_before_any_draw");
                } else {
                    ctx.violation(format!("noise|{kind}|error-after-draw"), "add_noise_to_agg_share failed after drawing real noise", wit(json!({"error": e, "draws_made": s.scales.len()})));
                }
            }
            Ok(Ok(res)) => {
                let ResultVec::Ints(res) = T::result(&res) else { unreachable!() };
                if s.scales.len() != 2 * len {
                    ctx.violation(format!("noise|{kind}|draw-count"), "with real noise: not exactly one discrete-Laplace draw per coordinate per aggregator",
                        wit(json!({"coordinates": len, "laplace_draws": s.scales.len()})));
                } else if let Some(bad) = s.scales.iter().find(|x| *x != &want_scale) {
                    ctx.violation(format!("noise|{kind}|scale"), "a coordinate's noise is drawn with a scale different from (documented sensitivity) / epsilon",
                        wit(json!({"documented_sensitivity": sens.to_string(), "want_scale": qs(&want_scale), "got_scale": qs(bad)})));
                }
                let mut worst = BigInt::zero();
                let mut nonzero = 0u64;
                for i in 0..len {
                    let d = centered(submod(res[i], truth[i] % fp, fp), fp);
                    if !d.is_zero() {
                        nonzero += 1;
                    }
                    if d.abs() > worst {
                        worst = d.abs();
                    }
                }
                if worst.magnitude() > &bound {
                    ctx.violation(format!("noise|{kind}|e2e-not-small"), "unsharded noisy result minus true aggregate (mod p, centred) is not a small integer (> 400*(scale+1))",
                        wit(json!({"worst_abs_difference": worst.to_string(), "scale": qs(&want_scale)})));
                }
                ctx.count("noise_real_runs");
                ctx.count_n("noise_real_nonzero_coordinates", nonzero);
                // Independence across calls and across coordinates ("drawn independently per coordinate"):
                // two calls returning the SAME noise vector, or one call returning the same value in every
                // coordinate, is an event of probability <= p(0)^k <= (1/(2*scale))^k for k compared
                // coordinates. It is only asserted when that bound is below 2^-64, so an honest sampler
                // cannot trip it in any feasible number of runs.
                let n1: Vec<BigInt> = field_to_ints::<T::Field>(sh1.as_ref()).iter().zip(&s1).map(|(a, b)| centered(submod(*a, *b, fp), fp)).collect();
                let n2: Vec<BigInt> = field_to_ints::<T::Field>(sh2.as_ref()).iter().zip(&s2).map(|(a, b)| centered(submod(*a, *b, fp), fp)).collect();
                let s_floor = want_scale.floor().to_integer();
                let lb = if s_floor.is_zero() { 0 } else { (s_floor * 2u8).bits() - 1 };
                if lb * len as u64 >= 64 {
                    ctx.count("noise_independence_pairs_checked");
                    if n1 == n2 {
                        ctx.violation(format!("noise|{kind}|same-noise-across-calls"),
                            "two successive add_noise_to_agg_share calls (two aggregators' shares) added the identical noise vector: noise is not drawn independently",
                            wit(json!({"noise_vector": n1.iter().map(|x| x.to_string()).collect::<Vec<_>>(), "scale": qs(&want_scale), "probability_bound_log2": -((lb * len as u64) as i64)})));
                    }
                }
                if len >= 2 && lb * (len as u64 - 1) >= 64 {
                    ctx.count("noise_independence_vectors_checked");
                    for n in [&n1, &n2] {
                        if n.iter().all(|x| x == &n[0]) {
                            ctx.violation(format!("noise|{kind}|same-noise-across-coordinates"),
                                "every coordinate of one call received the same noise value: noise is not drawn independently per coordinate",
                                wit(json!({"noise_vector": n.iter().map(|x| x.to_string()).collect::<Vec<_>>(), "scale": qs(&want_scale)})));
                        }
                    }
                }
            }
        }
    }
}

fn reinstall(st: &Rc<RefCell<NoiseState>>) {
    let st2 = st.clone();
    hk::set_interceptor(Some(Box::new(move |layer, arg| {
        let mut s = st2.borrow_mut();
        if layer != Layer::DiscreteLaplace {
            s.other_layers += 1;
            if s.other_layers > 5_000_000 {
                // a sampler that does not terminate must become an event, not a hang
                s.runaway = true;
                drop(s);
                std::panic::resume_unwind(Box::new("c15: sampler runaway"));
            }
            return None;
        }
        s.scales.push(arg.clone());
        if !s.answer {
            return None;
        }
        if s.pos < s.give.len() {
            s.pos += 1;
            Some(Outcome::Signed(s.give[s.pos - 1].clone()))
        } else {
            s.beyond += 1;
            Some(Outcome::Signed(BigInt::zero()))
        }
    })));
}

pub fn run(ctx: &mut Ctx) {
    let st = Rc::new(RefCell::new(NoiseState::default()));
    reinstall(&st);

    let mut lattice: Vec<(Params, bool)> = vec![];
    for (fp, maxes) in [
        (P64, vec![1u128, 2, 3, 5, 255, 256, 65535, 1 << 31, (1 << 32) - 1, 1 << 63, P64 - 1]),
        (P128, vec![1u128, 2, 3, 6, 255, 1 << 16, (1 << 32) - 1, 1 << 64, (1 << 100) + 3, 1 << 126, (1 << 127) - 1, 1 << 127, P128 - 1]),
    ] {
        for &max in &maxes {
            for len in [1usize, 2, 3, 7, 20] {
                for kind in [Kind::SumVec, Kind::L1BoundSum] {
                    let bits = bits_of(max);
                    let n = if kind == Kind::SumVec { bits * len } else { bits * (len + 1) };
                    let chunk = [1usize, 3, n, prio::vdaf::prio3::optimal_chunk_length(n)][(len + bits) % 4].max(1);
                    lattice.push((Params { kind, max, len, chunk, p: fp }, false));
                }
            }
        }
        for len in [1usize, 2, 3, 10, 100, 257] {
            lattice.push((Params { kind: Kind::Histogram, max: 1, len, chunk: [1usize, 2, 16][len % 3], p: fp }, false));
        }
        // multithreaded gadget instantiations
        lattice.push((Params { kind: Kind::SumVec, max: 7, len: 5, chunk: 4, p: fp }, true));
        lattice.push((Params { kind: Kind::Histogram, max: 1, len: 12, chunk: 4, p: fp }, true));
        lattice.push((Params { kind: Kind::L1BoundSum, max: 9, len: 4, chunk: 3, p: fp }, true));
    }
    let mut done = 0u64;
    for (i, (p, mt)) in lattice.iter().enumerate() {
        if !ctx.mine(i as u64) {
            continue;
        }
        let mut rng = Rng64::derive(ctx.seed, &["c15-noise"], i as u64);
        macro_rules! go {
            ($t:ty) => {
                noise_cases::<$t>(ctx, &st, p, *mt, &mut rng)
            };
        }
        match (p.kind, p.p == P64, *mt) {
            (Kind::SumVec, true, false) => go!(SumVec<Field64, ParallelSum<Field64, Mul>>),
            (Kind::SumVec, false, false) => go!(SumVec<Field128, ParallelSum<Field128, Mul>>),
            (Kind::SumVec, true, true) => go!(SumVec<Field64, ParallelSumMultithreaded<Field64, Mul>>),
            (Kind::SumVec, false, true) => go!(SumVec<Field128, ParallelSumMultithreaded<Field128, Mul>>),
            (Kind::Histogram, true, false) => go!(Histogram<Field64, ParallelSum<Field64, Mul>>),
            (Kind::Histogram, false, false) => go!(Histogram<Field128, ParallelSum<Field128, Mul>>),
            (Kind::Histogram, true, true) => go!(Histogram<Field64, ParallelSumMultithreaded<Field64, Mul>>),
            (Kind::Histogram, false, true) => go!(Histogram<Field128, ParallelSumMultithreaded<Field128, Mul>>),
            (Kind::L1BoundSum, true, false) => go!(L1BoundSum<Field64, ParallelSum<Field64, Mul>>),
            (Kind::L1BoundSum, false, false) => go!(L1BoundSum<Field128, ParallelSum<Field128, Mul>>),
            (Kind::L1BoundSum, true, true) => go!(L1BoundSum<Field64, ParallelSumMultithreaded<Field64, Mul>>),
            (Kind::L1BoundSum, false, true) => go!(L1BoundSum<Field128, ParallelSumMultithreaded<Field128, Mul>>),
            _ => unreachable!(),
        }
        done += 1;
        ctx.count(&format!("noise_configs_{}_{}", p.kind.name(), if p.p == P64 { "F64" } else { "F128" }));
    }
    ctx.count_n("noise_configs", done);
    hk::set_interceptor(None);
}
