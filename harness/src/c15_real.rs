//! C15: how the code under test is executed — scripted `Rng`s, the scripted/recording
//! interceptor (hook H3) and the trace-conformance comparison against the reference model.

use crate::c15_model::*;
use crate::common::*;
use num_bigint::BigUint;
use num_traits::{One, Zero};
use prio::verif_hooks::dp as hk;
use serde_json::json;
use std::cell::RefCell;
use std::convert::Infallible;

// ---------------------------------------------------------------------------------------------
// Rngs handed to the code under test
// ---------------------------------------------------------------------------------------------

/// Byte tape. After the tape ends it keeps going with pseudo-random bytes (so that no loop in the
/// code under test can spin forever on constant data) and sets `over`; such runs are discarded.
pub struct TapeRng<'a> {
    pub tape: &'a [u8],
    pub pos: usize,
    pub over: bool,
    pub fallback: Rng64,
}

impl<'a> TapeRng<'a> {
    pub fn new(tape: &'a [u8]) -> Self {
        TapeRng { tape, pos: 0, over: false, fallback: Rng64::new(0x7a9e) }
    }
}

impl rand_core::TryRng for TapeRng<'_> {
    type Error = Infallible;
    fn try_next_u32(&mut self) -> Result<u32, Infallible> {
        let mut b = [0u8; 4];
        self.try_fill_bytes(&mut b)?;
        Ok(u32::from_le_bytes(b))
    }
    fn try_next_u64(&mut self) -> Result<u64, Infallible> {
        let mut b = [0u8; 8];
        self.try_fill_bytes(&mut b)?;
        Ok(u64::from_le_bytes(b))
    }
    fn try_fill_bytes(&mut self, dst: &mut [u8]) -> Result<(), Infallible> {
        let avail = self.tape.len() - self.pos;
        let n = avail.min(dst.len());
        dst[..n].copy_from_slice(&self.tape[self.pos..self.pos + n]);
        self.pos += n;
        if n < dst.len() {
            self.over = true;
            self.fallback.fill(&mut dst[n..]);
        }
        Ok(())
    }
}

/// Must never be read: every uniform draw is supposed to go through the (intercepted) uniform layer.
#[derive(Default)]
pub struct Tripwire {
    pub reads: u64,
    state: u64,
}

impl rand_core::TryRng for Tripwire {
    type Error = Infallible;
    fn try_next_u32(&mut self) -> Result<u32, Infallible> {
        Ok(self.try_next_u64()? as u32)
    }
    fn try_next_u64(&mut self) -> Result<u64, Infallible> {
        self.reads += 1;
        self.state = self.state.wrapping_mul(6364136223846793005).wrapping_add(1442695040888963407);
        Ok(self.state >> 7)
    }
    fn try_fill_bytes(&mut self, dst: &mut [u8]) -> Result<(), Infallible> {
        for b in dst.iter_mut() {
            *b = self.try_next_u64()? as u8;
        }
        Ok(())
    }
}

// ---------------------------------------------------------------------------------------------
// Scripted + recording interceptor
// ---------------------------------------------------------------------------------------------

#[derive(Clone, Debug)]
pub enum RealStop {
    /// The code asked for a scripted outcome after the script had ended.
    Overrun { layer: Layer, arg: Q },
    /// More procedure entries than `cap`.
    Cap,
    /// The code entered a layer whose outcome type does not fit the next scripted outcome
    /// (i.e. it is at a different place of the algorithm than the reference).
    Kind,
}

struct Scripted {
    mask: Mask,
    script: Vec<Outcome>,
    pos: usize,
    calls: Vec<Rec>,
    stop: Option<RealStop>,
    cap: usize,
    record: bool,
    entries: usize,
    /// Answer certain-outcome sub-calls at once, unrecorded (see `certain_outcome`).
    elide: bool,
    /// Normalised tape mode: uniform draws are decoded from this byte tape by the harness (a draw below 1
    /// consumes nothing); every other body runs.
    tape: Option<Vec<u8>>,
    tape_pos: usize,
    tape_end: bool,
}

thread_local! {
    static SCRIPTED: RefCell<Scripted> = RefCell::new(Scripted {
        mask: Mask(0), script: Vec::new(), pos: 0, calls: Vec::new(), stop: None, cap: 0, record: true, entries: 0,
        elide: false, tape: None, tape_pos: 0, tape_end: false,
    });
}

struct AbortRun;

thread_local! {
    /// Whether `run_scripted` leaves certain-outcome sub-calls out (default). The Taylor mass accounting of
    /// part 3 enumerates scripts of an explicit shape ("j successes then a failure", INCLUDING the trials whose
    /// outcome is certain) and switches it off for its own runs.
    pub static ELIDE_CERTAIN: std::cell::Cell<bool> = const { std::cell::Cell::new(true) };
}

fn scripted_interceptor() -> hk::Interceptor {
    Box::new(|layer, arg| {
        let r = SCRIPTED.with(|st| {
            let mut st = st.borrow_mut();
            st.entries += 1;
            if st.entries > st.cap {
                st.stop = Some(RealStop::Cap);
                return Err(());
            }
            if st.elide && st.entries > 1 {
                if let Some(o) = certain_outcome(layer, arg) {
                    return Ok(Some(o));
                }
            }
            if layer == Layer::UniformBelow && st.tape.is_some() {
                if arg.numer().is_one() {
                    return Ok(Some(Outcome::Unsigned(BigUint::zero())));
                }
                let mut pos = st.tape_pos;
                let v = tape_uniform_below(st.tape.as_ref().unwrap(), &mut pos, arg.numer());
                st.tape_pos = pos;
                return match v {
                    Some(v) => Ok(Some(Outcome::Unsigned(v))),
                    None => {
                        st.tape_end = true;
                        st.stop = Some(RealStop::Cap);
                        Err(())
                    }
                };
            }
            if !st.mask.has(layer) {
                if st.record {
                    st.calls.push(Rec { layer, arg: arg.clone(), out: None });
                }
                return Ok(None);
            }
            if st.pos >= st.script.len() {
                st.stop = Some(RealStop::Overrun { layer, arg: arg.clone() });
                return Err(());
            }
            let o = st.script[st.pos].clone();
            // an outcome that is not a possible outcome of this call (wrong type, or a uniform value
            // not below the bound) means the code is at a different place of the algorithm than the
            // reference: stop here instead of feeding it nonsense
            let in_range = match (&o, layer) {
                (Outcome::Unsigned(u), Layer::UniformBelow) => u < arg.numer(),
                _ => true,
            };
            if !kind_ok(layer, &o) || !in_range {
                st.calls.push(Rec { layer, arg: arg.clone(), out: None });
                st.stop = Some(RealStop::Kind);
                return Err(());
            }
            st.pos += 1;
            st.calls.push(Rec { layer, arg: arg.clone(), out: Some(o.clone()) });
            Ok(Some(o))
        });
        match r {
            Ok(o) => o,
            // Unwinds through the sampler under test back to `run_scripted` (no panic hook runs).
            Err(()) => std::panic::resume_unwind(Box::new(AbortRun)),
        }
    })
}

/// Entry points. `public` = through `DiscreteLaplace::new(..)/DiscreteGaussian::new(..)` +
/// `Distribution::sample` (needs numerator/denominator below 2^128).
pub fn call_layer<R: rand::Rng>(layer: Layer, arg: &Q, public: bool, rng: &mut R) -> Outcome {
    use num_traits::ToPrimitive;
    use prio::dp::distributions::{DiscreteGaussian, DiscreteLaplace};
    use prio::dp::Rational;
    use rand::distr::Distribution;
    if public {
        let r = Rational::from_unsigned(arg.numer().to_u128().unwrap(), arg.denom().to_u128().unwrap()).unwrap();
        return match layer {
            Layer::DiscreteLaplace => Outcome::Signed(DiscreteLaplace::new(r).unwrap().sample(rng)),
            Layer::DiscreteGaussian => Outcome::Signed(DiscreteGaussian::new(r).unwrap().sample(rng)),
            _ => panic!("harness: no public entry for {layer:?}"),
        };
    }
    match layer {
        Layer::UniformBelow => Outcome::Unsigned(hk::uniform(&BigUint::zero(), arg.numer(), rng).expect("non-empty range")),
        Layer::Bernoulli => Outcome::Bool(hk::sample_bernoulli(arg, rng)),
        Layer::BernoulliExp1 => Outcome::Bool(hk::sample_bernoulli_exp1(arg, rng)),
        Layer::BernoulliExp => Outcome::Bool(hk::sample_bernoulli_exp(arg, rng)),
        Layer::GeometricExp => Outcome::Unsigned(hk::sample_geometric_exp(arg, rng)),
        Layer::DiscreteLaplace => Outcome::Signed(hk::sample_discrete_laplace(arg, rng)),
        Layer::DiscreteGaussian => Outcome::Signed(hk::sample_discrete_gaussian(arg, rng)),
    }
}

pub struct RealRun {
    /// Every procedure entry the code made (incl. the top one), with the outcomes it was given.
    pub calls: Vec<Rec>,
    pub result: Option<Outcome>,
    pub stop: Option<RealStop>,
    pub panic: Option<PanicInfo>,
    pub script_used: usize,
    pub rng_reads: u64,
}

/// One real execution of `top(arg)`: the layers in `mask` are answered from `script`, everything
/// else runs; the `Rng` is a tripwire.
pub fn run_scripted(top: Layer, arg: &Q, public: bool, mask: Mask, script: &[Outcome]) -> RealRun {
    SCRIPTED.with(|st| {
        let mut st = st.borrow_mut();
        st.mask = mask;
        st.script.clear();
        st.script.extend_from_slice(script);
        st.pos = 0;
        st.calls.clear();
        st.stop = None;
        st.cap = 1_000_000;
        st.record = true;
        st.entries = 0;
        st.elide = ELIDE_CERTAIN.with(|e| e.get());
        st.tape = None;
    });
    hk::set_interceptor(Some(scripted_interceptor()));
    let mut trip = Tripwire::default();
    let r = catch(|| call_layer(top, arg, public, &mut trip));
    hk::set_interceptor(None);
    let (calls, stop, used) = SCRIPTED.with(|st| {
        let mut st = st.borrow_mut();
        (std::mem::take(&mut st.calls), st.stop.take(), st.pos)
    });
    let (result, panic) = match r {
        Ok(o) => (Some(o), None),
        Err(pi) => {
            if stop.is_some() {
                (None, None)
            } else {
                (None, Some(pi))
            }
        }
    };
    RealRun { calls, result, stop, panic, script_used: used, rng_reads: trip.reads }
}

// ---------------------------------------------------------------------------------------------
// Conformance of one real execution to the reference trace
// ---------------------------------------------------------------------------------------------

#[derive(Clone, Debug)]
pub struct Cfg {
    pub top: Layer,
    pub arg: Q,
    pub mask: Mask,
    pub public: bool,
    pub sign_first: bool,
    pub gauss_t: Option<Q>,
}

impl Cfg {
    pub fn describe(&self) -> String {
        format!("{}({}) given={}{}", lname(self.top), qs(&self.arg), self.mask.name(), if self.public { " via public API" } else { "" })
    }
}

/// Local (cheap) accumulators, flushed into the Ctx counters at the end of the run.
#[derive(Default)]
pub struct Stats {
    pub cases: [u64; 7],
    pub prefix_cases: [u64; 7],
    pub sub_args: [[u64; 7]; 7],
    pub rejections: [u64; 7],
    pub max_script: [u64; 7],
    pub max_abs_result_bits: [u64; 7],
    pub public_cases: u64,
}

impl Stats {
    pub fn flush(&self, ctx: &mut Ctx) {
        for t in LAYERS {
            let i = lidx(t);
            if self.cases[i] > 0 {
                ctx.count_n(&format!("conf_cases_{}", lname(t)), self.cases[i]);
                ctx.count_n(&format!("conf_prefix_cases_{}", lname(t)), self.prefix_cases[i]);
                ctx.count_n(&format!("conf_loop_rejections_{}", lname(t)), self.rejections[i]);
                ctx.max(&format!("conf_max_script_len_{}", lname(t)), self.max_script[i]);
                ctx.max(&format!("conf_max_result_bits_{}", lname(t)), self.max_abs_result_bits[i]);
            }
            for s in LAYERS {
                let n = self.sub_args[i][lidx(s)];
                if n > 0 {
                    ctx.count_n(&format!("arg_identities_{}>{}", lname(t), lname(s)), n);
                }
            }
        }
        ctx.count_n("conf_cases_via_public_api", self.public_cases);
    }
}

fn result_bits(o: &Outcome) -> u64 {
    match o {
        Outcome::Bool(_) => 1,
        Outcome::Unsigned(u) => u.bits(),
        Outcome::Signed(i) => i.bits(),
    }
}

fn witness(cfg: &Cfg, script: &[Outcome], extra: serde_json::Value) -> serde_json::Value {
    json!({
        "layer": lname(cfg.top), "argument": qs(&cfg.arg), "given_layers": cfg.mask.name(),
        "public_api": cfg.public, "given_outcomes_in_call_order": script_str(script), "detail": extra,
    })
}

/// Compare a finished reference run (`trace`, `want`) with the code under test under the same
/// given outcomes. Returns the real run if it conformed.
pub fn compare_real(ctx: &mut Ctx, st: &mut Stats, cfg: &Cfg, script: &[Outcome], trace: &[Rec], want: &Outcome) -> Option<RealRun> {
    let real = run_scripted(cfg.top, &cfg.arg, cfg.public, cfg.mask, script);
    ctx.eval();
    let top = lname(cfg.top);
    let ti = lidx(cfg.top);
    st.cases[ti] += 1;
    if cfg.public {
        st.public_cases += 1;
    }
    st.max_script[ti] = st.max_script[ti].max(script.len() as u64);
    if let Some(pi) = &real.panic {
        ctx.violation(
            format!("conf|{top}|panic|{}", pi.class()),
            "sampler panicked on an in-domain argument",
            witness(cfg, script, json!({"panic": pi.message, "at": pi.location})),
        );
        return None;
    }
    if real.rng_reads > 0 {
        ctx.violation(
            format!("rng-direct-read|{top}"),
            "the sampler read its Rng directly although every uniform-draw layer was answered by the interceptor (randomness used other than through the uniform draw)",
            witness(cfg, script, json!({"direct_reads": real.rng_reads})),
        );
    }
    // first difference of the call sequences
    let n = trace.len().min(real.calls.len());
    for i in 0..n {
        let (w, g) = (&trace[i], &real.calls[i]);
        if w.layer != g.layer {
            ctx.violation(
                format!("conf|{top}|call-sequence|want={}|got={}", lname(w.layer), lname(g.layer)),
                "under the same given outcomes the code makes a different sub-call than the CKS20 reference",
                witness(cfg, script, json!({"call_index": i, "want": format!("{}({})", lname(w.layer), qs(&w.arg)), "got": format!("{}({})", lname(g.layer), qs(&g.arg))})),
            );
            return None;
        }
        if w.arg != g.arg {
            ctx.violation(
                format!("conf|{top}|argument-of|{}", lname(w.layer)),
                "a sub-call is made with an argument that differs (as an exact rational) from the CKS20 reference",
                witness(cfg, script, json!({"call_index": i, "sub_layer": lname(w.layer), "want": qs(&w.arg), "got": qs(&g.arg)})),
            );
            return None;
        }
        st.sub_args[ti][lidx(w.layer)] += 1;
    }
    if let Some(RealStop::Overrun { layer, arg }) = &real.stop {
        ctx.violation(
            format!("conf|{top}|extra-call|{}", lname(*layer)),
            "the code asks for another sub-layer outcome where the CKS20 reference has already returned",
            witness(cfg, script, json!({"extra_call": format!("{}({})", lname(*layer), qs(arg)), "reference_result": outs(want)})),
        );
        return None;
    }
    if let Some(RealStop::Cap) = &real.stop {
        ctx.violation(
            format!("conf|{top}|call-cap"),
            "the code made more than 10^6 procedure entries on a finite script",
            witness(cfg, script, json!({})),
        );
        return None;
    }
    if real.calls.len() < trace.len() {
        let nx = &trace[real.calls.len()];
        ctx.violation(
            format!("conf|{top}|returned-early|missing={}", lname(nx.layer)),
            "the code returned although the CKS20 reference makes further sub-calls under these outcomes",
            witness(cfg, script, json!({"calls_made": real.calls.len(), "reference_calls": trace.len(), "next_reference_call": format!("{}({})", lname(nx.layer), qs(&nx.arg)), "got_result": real.result.as_ref().map(outs)})),
        );
        return None;
    }
    if real.calls.len() > trace.len() {
        let g = &real.calls[trace.len()];
        ctx.violation(
            format!("conf|{top}|extra-call|{}", lname(g.layer)),
            "the code makes another sub-call where the CKS20 reference has already returned",
            witness(cfg, script, json!({"extra_call": format!("{}({})", lname(g.layer), qs(&g.arg))})),
        );
        return None;
    }
    let got = real.result.as_ref().unwrap();
    if got != want {
        ctx.violation(
            format!("conf|{top}|result"),
            "same sub-calls, same outcomes, different return value than the CKS20 reference",
            witness(cfg, script, json!({"want": outs(want), "got": outs(got)})),
        );
        return None;
    }
    st.max_abs_result_bits[ti] = st.max_abs_result_bits[ti].max(result_bits(got));
    Some(real)
}

/// The reference needs more outcomes than `script` has (next: `layer(arg)`): the code, given the
/// same prefix, must make the same calls and then ask for exactly that outcome.
pub fn compare_prefix(ctx: &mut Ctx, st: &mut Stats, cfg: &Cfg, script: &[Outcome], trace: &[Rec], next: (Layer, &Q)) {
    let real = run_scripted(cfg.top, &cfg.arg, cfg.public, cfg.mask, script);
    ctx.eval();
    let top = lname(cfg.top);
    st.prefix_cases[lidx(cfg.top)] += 1;
    if let Some(pi) = &real.panic {
        ctx.violation(
            format!("conf|{top}|panic|{}", pi.class()),
            "sampler panicked on an in-domain argument",
            witness(cfg, script, json!({"panic": pi.message, "at": pi.location})),
        );
        return;
    }
    let n = trace.len().min(real.calls.len());
    for i in 0..n {
        let (w, g) = (&trace[i], &real.calls[i]);
        if w.layer != g.layer {
            ctx.violation(
                format!("conf|{top}|call-sequence|want={}|got={}", lname(w.layer), lname(g.layer)),
                "under the same given outcomes the code makes a different sub-call than the CKS20 reference",
                witness(cfg, script, json!({"call_index": i, "want": format!("{}({})", lname(w.layer), qs(&w.arg)), "got": format!("{}({})", lname(g.layer), qs(&g.arg))})),
            );
            return;
        }
        if w.arg != g.arg {
            ctx.violation(
                format!("conf|{top}|argument-of|{}", lname(w.layer)),
                "a sub-call is made with an argument that differs (as an exact rational) from the CKS20 reference",
                witness(cfg, script, json!({"call_index": i, "sub_layer": lname(w.layer), "want": qs(&w.arg), "got": qs(&g.arg)})),
            );
            return;
        }
    }
    match &real.stop {
        Some(RealStop::Overrun { layer, arg }) => {
            if *layer != next.0 {
                ctx.violation(
                    format!("conf|{top}|call-sequence|want={}|got={}", lname(next.0), lname(*layer)),
                    "under the same given outcomes the code makes a different sub-call than the CKS20 reference",
                    witness(cfg, script, json!({"want": format!("{}({})", lname(next.0), qs(next.1)), "got": format!("{}({})", lname(*layer), qs(arg))})),
                );
            } else if arg != next.1 {
                ctx.violation(
                    format!("conf|{top}|argument-of|{}", lname(*layer)),
                    "a sub-call is made with an argument that differs (as an exact rational) from the CKS20 reference",
                    witness(cfg, script, json!({"sub_layer": lname(*layer), "want": qs(next.1), "got": qs(arg)})),
                );
            }
        }
        Some(RealStop::Kind) => {
            if let Some(g) = real.calls.get(trace.len()) {
                ctx.violation(
                    format!("conf|{top}|call-sequence|want={}|got={}", lname(next.0), lname(g.layer)),
                    "under the same given outcomes the code makes a different sub-call than the CKS20 reference",
                    witness(cfg, script, json!({"want": format!("{}({})", lname(next.0), qs(next.1)), "got": format!("{}({})", lname(g.layer), qs(&g.arg))})),
                );
            }
        }
        Some(RealStop::Cap) => {}
        None => {
            ctx.violation(
                format!("conf|{top}|returned-early|missing={}", lname(next.0)),
                "the code returned although the CKS20 reference makes further sub-calls under these outcomes",
                witness(cfg, script, json!({"next_reference_call": format!("{}({})", lname(next.0), qs(next.1)), "got_result": real.result.as_ref().map(outs)})),
            );
        }
    }
}

/// The proposal scale t the code uses for Gaussian(sigma) (see `Model::gauss_t`).
pub fn probe_gauss_t(sigma: &Q) -> Option<Q> {
    use num_bigint::BigInt;
    let mask = Mask::of(&[Layer::DiscreteLaplace, Layer::BernoulliExp]);
    let r = run_scripted(Layer::DiscreteGaussian, sigma, false, mask, &[Outcome::Signed(BigInt::from(0)), Outcome::Bool(true)]);
    r.calls.iter().find(|c| c.layer == Layer::DiscreteLaplace).map(|c| c.arg.clone())
}

/// One un-scripted real execution on a caller-supplied Rng, with a cap on the number of sampler
/// procedure entries (so that a non-terminating sampler becomes an observable event instead of a
/// hang). Returns (result, panic, cap_hit, entries).
pub fn run_capped<R: rand::Rng>(top: Layer, arg: &Q, public: bool, rng: &mut R, cap: usize) -> (Option<Outcome>, Option<PanicInfo>, bool, usize) {
    SCRIPTED.with(|st| {
        let mut st = st.borrow_mut();
        st.mask = Mask(0);
        st.script.clear();
        st.pos = 0;
        st.calls.clear();
        st.stop = None;
        st.cap = cap;
        st.record = false;
        st.entries = 0;
        st.elide = false;
        st.tape = None;
    });
    hk::set_interceptor(Some(scripted_interceptor()));
    let r = catch(|| call_layer(top, arg, public, rng));
    hk::set_interceptor(None);
    let (stop, entries) = SCRIPTED.with(|st| {
        let mut st = st.borrow_mut();
        (st.stop.take(), st.entries)
    });
    match r {
        Ok(o) => (Some(o), None, false, entries),
        Err(pi) => {
            if stop.is_some() {
                (None, None, true, entries)
            } else {
                (None, Some(pi), false, entries)
            }
        }
    }
}

/// NORMALISED tape execution of the real code: every uniform draw is decoded from `tape` by the harness's own
/// `tape_uniform_below` (a draw below 1 consumes nothing), all other procedure bodies run, the `Rng` is a
/// tripwire. Returns the result, or None if the tape ended / the entry cap was hit / the code panicked.
pub fn run_tape_normalised(top: Layer, arg: &Q, public: bool, tape: &[u8], cap: usize) -> Option<Outcome> {
    SCRIPTED.with(|st| {
        let mut st = st.borrow_mut();
        st.mask = Mask(0);
        st.script.clear();
        st.pos = 0;
        st.calls.clear();
        st.stop = None;
        st.cap = cap;
        st.record = false;
        st.entries = 0;
        st.elide = false;
        st.tape = Some(tape.to_vec());
        st.tape_pos = 0;
        st.tape_end = false;
    });
    hk::set_interceptor(Some(scripted_interceptor()));
    let mut trip = Tripwire::default();
    let r = catch(|| call_layer(top, arg, public, &mut trip));
    hk::set_interceptor(None);
    SCRIPTED.with(|st| {
        let mut st = st.borrow_mut();
        st.tape = None;
        st.stop = None;
    });
    r.ok()
}


thread_local! {
    static SIGN_ORDER: RefCell<std::collections::HashMap<String, bool>> = RefCell::new(std::collections::HashMap::new());
}

/// Which of the two law-equivalent orders (sign then magnitude, or magnitude then sign) does the code use
/// inside one iteration of the discrete Laplace sampler AT THIS SCALE? Probed on the real code with both
/// draws answered by the interceptor; cached per scale. Defaults to "sign first" when neither order
/// completes (the conformance check then reports what is wrong).
pub fn sign_first_for(scale: &Q) -> bool {
    let key = qs(scale);
    if let Some(v) = SIGN_ORDER.with(|m| m.borrow().get(&key).copied()) {
        return v;
    }
    let mask = Mask::of(&[Layer::Bernoulli, Layer::GeometricExp]);
    let a = run_scripted(Layer::DiscreteLaplace, scale, false, mask, &[Outcome::Bool(false), Outcome::Unsigned(BigUint::one())]);
    let v = if a.result.is_some() {
        true
    } else {
        let b = run_scripted(Layer::DiscreteLaplace, scale, false, mask, &[Outcome::Unsigned(BigUint::one()), Outcome::Bool(false)]);
        b.result.is_none()
    };
    SIGN_ORDER.with(|m| m.borrow_mut().insert(key, v));
    v
}
