//! C16: fallible public operations reject bad arguments with errors, never panics; valid
//! extremes are accepted and work.

use crate::c01::random_size;
use crate::common::*;
use crate::proto::*;
use crate::zoo::*;
use prio::codec::{Decode, Encode, ParameterizedDecode};
use prio::dp::distributions::{DiscreteGaussian, DiscreteLaplace, PureDpDiscreteLaplace, ZCdpDiscreteGaussian};
use prio::dp::{DifferentialPrivacyStrategy, PureDpBudget, Rational, ZCdpBudget};
use prio::field::{Field128, Field64, FieldPrio2};
use prio::flp::Type;
use prio::idpf::IdpfInput;
use prio::vdaf::poplar1::{Poplar1, Poplar1AggregationParam};
use prio::vdaf::prio2::Prio2;
use prio::vdaf::prio3::{
    Prio3, Prio3Average, Prio3Count, Prio3Histogram, Prio3InputShare, Prio3L1BoundSum, Prio3MultihotCountVec, Prio3Sum, Prio3SumVec,
};
use prio::vdaf::test_utils::TestVectorClient;
use prio::vdaf::xof::{Seed, Xof, XofTurboShake128};
use prio::vdaf::{Aggregator, Client, Collector, Share, Vdaf, VerifyTransition};
use serde_json::{json, Value};

/// The numeric lattice for `usize`-typed parameters.
fn usize_lattice() -> Vec<usize> {
    let mut v = vec![0usize, 1, 2, 3, 8, 255, 256, 65535, 65536, (1 << 31) - 1, 1 << 31, (1 << 31) + 1, (1 << 32) - 1, 1 << 32, (1 << 32) + 1, 1 << 62, 1 << 63, usize::MAX / 2, usize::MAX - 1, usize::MAX];
    v.sort();
    v.dedup();
    v
}

/// The numeric lattice for field-integer parameters of a field with prime `p`.
fn int_lattice(p: u128) -> Vec<u128> {
    let mut v = vec![0u128, 1, 2, 3, 255, 256, (1 << 31) - 1, 1 << 31, (1 << 32) - 1, 1 << 32, (1 << 63) - 1, 1 << 63, u64::MAX as u128 - 1, u64::MAX as u128, p - 2, p - 1, p, p + 1];
    if p > u64::MAX as u128 {
        v.extend([1 << 64, (1 << 64) + 1, (1 << 127) - 1, 1 << 127, u128::MAX - 1, u128::MAX]);
    }
    v.retain(|x| p > u64::MAX as u128 || *x <= u64::MAX as u128);
    v.sort();
    v.dedup();
    v
}

fn cls_usize(x: usize) -> String {
    match x {
        0 => "0".into(),
        usize::MAX => "MAX".into(),
        x if x == usize::MAX - 1 => "MAX-1".into(),
        x if x >= 1 << 62 => ">=2^62".into(),
        x if x >= (1 << 31) - 1 => ">=2^31-1".into(),
        x if x >= 65535 => ">=2^16-1".into(),
        _ => "small".into(),
    }
}

fn cls_int(x: u128, p: u128) -> String {
    if x == 0 {
        "0".into()
    } else if x >= p {
        ">=p".into()
    } else if x == p - 1 {
        "p-1".into()
    } else if x >= 1 << 63 {
        ">=2^63".into()
    } else if x >= (1 << 31) - 1 {
        ">=2^31-1".into()
    } else {
        "small".into()
    }
}

/// Budget (in field elements) under which an `Ok` instance is also exercised end to end.
const RUN_BUDGET: usize = 3000;

struct TypeProbe {
    /// the documented domain says these parameters are admissible
    in_domain: bool,
}

impl TypeVisitor for TypeProbe {
    fn visit<T: Kinded>(&mut self, ctx: &mut Ctx, p: &Params, typ: T)
    where
        T::Field: ZField,
    {
        let site = format!("{}<{}>::new", p.kind.name(), T::Field::FNAME);
        let argcls = format!("max={},len={},chunk={}", cls_int(p.max, p.p), cls_usize(p.len), cls_usize(p.chunk));
        let wit = json!({"kind": p.kind.name(), "field": T::Field::FNAME, "max": p.max.to_string(), "len": p.len, "chunk": p.chunk});
        ctx.count("constructors_ok");
        // An Ok instance must be usable: its own accessors must not panic.
        let acc: [(&str, Box<dyn Fn(&T) -> usize>); 8] = [
            ("input_len", Box::new(|t: &T| t.input_len())),
            ("proof_len", Box::new(|t: &T| t.proof_len())),
            ("verifier_len", Box::new(|t: &T| t.verifier_len())),
            ("joint_rand_len", Box::new(|t: &T| t.joint_rand_len())),
            ("prove_rand_len", Box::new(|t: &T| t.prove_rand_len())),
            ("query_rand_len", Box::new(|t: &T| t.query_rand_len())),
            ("output_len", Box::new(|t: &T| t.output_len())),
            ("eval_output_len", Box::new(|t: &T| t.eval_output_len())),
        ];
        let mut usable = true;
        for (name, f) in acc.iter() {
            ctx.eval();
            if let Err(pi) = catch(|| f(&typ)) {
                usable = false;
                ctx.violation(format!("{site}|Ok-but-{name}-panics|{}", pi.class()),
                    format!("constructor returned Ok but {name}() of the instance panics (unusable instance)"),
                    json!({"args": wit, "panic": pi.message, "at": pi.location}));
            }
        }
        if !usable || !self.in_domain {
            return;
        }
        // Valid extremes must work: shard + verify the minimal and the maximal measurement.
        let il = match catch(|| (typ.input_len(), typ.proof_len())) {
            Ok((a, b)) => a.saturating_add(b),
            Err(_) => return,
        };
        if il > RUN_BUDGET {
            ctx.count("ok_instances_too_large_to_run");
            return;
        }
        let cfg = VdafCfg { aggs: 2, proofs: 1, alg_id: algorithm_id(p.kind), hmac_xof: false };
        let vdaf = match Prio3::<T, XofTurboShake128, 32>::new(2, 1, cfg.alg_id, typ) {
            Ok(v) => v,
            Err(_) => return,
        };
        let mut rng = Rng64::derive(ctx.seed, &["c16-run"], p.len as u64 ^ p.chunk as u64);
        let (lo, hi): (Vec<u128>, Vec<u128>) = match p.kind {
            Kind::Count => (vec![0], vec![1]),
            Kind::Sum | Kind::Average => (vec![0], vec![p.max]),
            Kind::SumVec => (vec![0; p.len], vec![p.max; p.len]),
            Kind::Histogram => (vec![0], vec![p.len as u128 - 1]),
            Kind::Multihot => {
                let mut h = vec![0u128; p.len];
                for x in h.iter_mut().take((p.max as usize).min(p.len)) {
                    *x = 1;
                }
                (vec![0; p.len], h)
            }
            Kind::L1BoundSum => {
                let mut h = vec![0u128; p.len];
                h[p.len - 1] = p.max;
                (vec![0; p.len], h)
            }
        };
        for (which, m) in [("min", lo), ("max", hi)] {
            let nonce: [u8; 16] = rng.array();
            let key: [u8; 32] = rng.array();
            let tape = rng.bytes(random_size(p, &cfg));
            ctx.eval();
            let sharded = catch(|| vdaf.shard_with_random(b"c16", &T::meas(p, &m), &nonce, &tape));
            let (ps, sh) = match sharded {
                Ok(Ok(x)) => x,
                Ok(Err(e)) => {
                    ctx.violation(format!("{site}|valid-extreme-refused|shard-{which}"), "the extreme valid measurement of an admissible instance was refused",
                        json!({"args": wit, "measurement": p.meas_json(&m), "err": e.to_string()}));
                    continue;
                }
                Err(pi) => {
                    ctx.violation(format!("{site}|valid-extreme-panics|shard-{which}|{}", pi.class()), "sharding the extreme valid measurement of an admissible instance panicked",
                        json!({"args": wit, "measurement": p.meas_json(&m), "panic": pi.message, "at": pi.location}));
                    continue;
                }
            };
            let psb = ps.get_encoded().unwrap();
            let isb: Vec<Vec<u8>> = sh.iter().map(|s| s.get_encoded().unwrap()).collect();
            let mut st = WireStats::default();
            let mut an = None;
            match verify_report_simple::<_, 32>(&vdaf, &key, b"c16", &(), &nonce, &psb, &isb, &mut no_tamper, &mut st, &mut an) {
                Outcome::Finished(outs) => {
                    ctx.count("valid_extremes_worked");
                    let mut an2 = None;
                    match aggregate_and_unshard::<_, 32>(&vdaf, &(), vec![outs], &mut an2) {
                        Ok(r) => {
                            let want: Vec<u128> = p.contribution(&m).iter().map(|x| x % p.p).collect();
                            let ok = match T::result(&r) {
                                ResultVec::Ints(v) => v == want,
                                ResultVec::Float(f) => want[0] <= u64::MAX as u128 && f == want[0] as u64 as f64,
                            };
                            if !ok {
                                ctx.violation(format!("{site}|valid-extreme-wrong-result|{which}"), "extreme valid measurement aggregated to the wrong value", json!({"args": wit, "measurement": p.meas_json(&m)}));
                            }
                        }
                        Err((e, None)) => {
                            if !(p.kind == Kind::Average && m[0] > u64::MAX as u128) {
                                ctx.violation(format!("{site}|valid-extreme-refused|unshard-{which}"), "unshard failed on an extreme valid measurement", json!({"args": wit, "err": e}));
                            }
                        }
                        Err((_, Some(pi))) => ctx.violation(format!("{site}|valid-extreme-panics|unshard-{which}|{}", pi.class()), "unshard panicked", json!({"args": wit, "panic": pi.message, "at": pi.location})),
                    }
                }
                Outcome::Panicked(stage, pi) => ctx.violation(format!("{site}|valid-extreme-panics|{stage}-{which}|{}", pi.class()), "verification of an extreme valid measurement panicked",
                    json!({"args": wit, "measurement": p.meas_json(&m), "panic": pi.message, "at": pi.location})),
                other => ctx.violation(format!("{site}|valid-extreme-refused|verify-{which}"), "an extreme valid measurement of an admissible instance was rejected",
                    json!({"args": wit, "measurement": p.meas_json(&m), "stage": other.stage()})),
            }
        }
    }
}

/// Documented domain of the type constructors (from their doc comments).
fn in_domain(p: &Params) -> bool {
    let max_ok = p.max >= 1 && p.max < p.p;
    match p.kind {
        Kind::Count => true,
        Kind::Sum | Kind::Average => max_ok,
        Kind::SumVec => max_ok && p.len >= 1 && p.chunk >= 1 && p.bits().checked_mul(p.len).is_some(),
        Kind::L1BoundSum => max_ok && p.len >= 1 && p.chunk >= 1 && p.len.checked_add(1).and_then(|l| l.checked_mul(p.bits())).is_some(),
        Kind::Histogram => p.len >= 1 && p.len < u32::MAX as usize && p.chunk >= 1,
        Kind::Multihot => p.len >= 1 && p.len < u32::MAX as usize && p.chunk >= 1 && p.max >= 1 && p.max < p.p && p.max <= usize::MAX as u128,
    }
}

fn part_a_types(ctx: &mut Ctx) {
    let ul = usize_lattice();
    let mut idx = 0u64;
    for kind in Kind::ALL {
        for pp in [P64, P128] {
            let il = int_lattice(pp);
            let maxes: Vec<u128> = match kind {
                Kind::Count | Kind::Histogram => vec![1],
                Kind::Multihot => ul.iter().map(|x| *x as u128).collect(),
                _ => il.clone(),
            };
            let lens: Vec<usize> = match kind {
                Kind::Count | Kind::Sum | Kind::Average => vec![1],
                _ => ul.clone(),
            };
            let chunks: Vec<usize> = if kind.has_joint_rand() { ul.clone() } else { vec![1] };
            for &max in &maxes {
                // The library's integer type cannot even represent values above its width.
                if pp == P64 && max > u64::MAX as u128 {
                    continue;
                }
                for &len in &lens {
                    for &chunk in &chunks {
                        idx += 1;
                        if !ctx.mine(idx) {
                            continue;
                        }
                        let p = Params { kind, max, len, chunk, p: pp };
                        let dom = in_domain(&p);
                        ctx.trace(|| format!("type-ctor {} dom={dom}", p.describe()));
                        let site = format!("{}<{}>::new", kind.name(), if pp == P64 { "Field64" } else { "Field128" });
                        let argcls = format!("max={},len={},chunk={}", cls_int(max, pp), cls_usize(len), cls_usize(chunk));
                        ctx.eval();
                        ctx.nontrivial(digest_str(&p.describe()));
                        let mut probe = TypeProbe { in_domain: dom };
                        let r = catch(|| with_type(ctx, &p, &mut probe));
                        match r {
                            Ok(Ok(())) => {
                                if !dom {
                                    // Ok for out-of-domain parameters is only a problem if the instance is unusable; that is checked by the probe.
                                    ctx.count("constructors_ok_outside_documented_domain");
                                }
                            }
                            Ok(Err(e)) => {
                                ctx.count("constructors_err");
                                // A valid, small instance must be accepted.
                                if dom && p.input_len() <= RUN_BUDGET && p.chunk <= RUN_BUDGET {
                                    ctx.violation(format!("{site}|valid-parameters-refused"), "admissible constructor parameters refused",
                                        json!({"max": max.to_string(), "len": len, "chunk": chunk, "err": e}));
                                }
                            }
                            Err(pi) => {
                                ctx.violation(format!("{site}|panic|{}", pi.class()), "constructor panicked instead of returning an error",
                                    json!({"max": max.to_string(), "len": len, "chunk": chunk, "panic": pi.message, "at": pi.location}));
                            }
                        }
                    }
                }
            }
        }
    }
}

fn part_a_vdaf_ctors(ctx: &mut Ctx) {
    if ctx.shard != 0 {
        return;
    }
    let aggs = [0u8, 1, 2, 3, 254, 255];
    for &a in &aggs {
        let rs: Vec<(&str, Result<bool, PanicInfo>)> = vec![
            ("Prio3Count::new_count", catch(|| Prio3Count::new_count(a).is_ok())),
            ("Prio3Sum::new_sum", catch(|| Prio3Sum::new_sum(a, 100).is_ok())),
            ("Prio3SumVec::new_sum_vec", catch(|| Prio3SumVec::new_sum_vec(a, 3, 4, 2).is_ok())),
            ("Prio3Histogram::new_histogram", catch(|| Prio3Histogram::new_histogram(a, 4, 2).is_ok())),
            ("Prio3MultihotCountVec::new_multihot_count_vec", catch(|| Prio3MultihotCountVec::new_multihot_count_vec(a, 4, 2, 2).is_ok())),
            ("Prio3Average::new_average", catch(|| Prio3Average::new_average(a, 100).is_ok())),
            ("Prio3L1BoundSum::new_l1_bound_sum", catch(|| Prio3L1BoundSum::new_l1_bound_sum(a, 7, 4, 3).is_ok())),
        ];
        for (site, r) in rs {
            ctx.eval();
            match r {
                Ok(ok) => {
                    let want = (1..=254).contains(&a);
                    if ok != want {
                        ctx.violation(format!("{site}|num_aggregators={a}|wrong-verdict"), "constructor verdict differs from the documented aggregator-count domain (1..=254)", json!({"num_aggregators": a, "got_ok": ok}));
                    }
                }
                Err(pi) => ctx.violation(format!("{site}|num_aggregators={a}|panic|{}", pi.class()), "constructor panicked", json!({"num_aggregators": a, "panic": pi.message, "at": pi.location})),
            }
        }
        for proofs in [0u8, 1, 255] {
            ctx.eval();
            match catch(|| Prio3::<prio::flp::types::Count<Field64>, XofTurboShake128, 32>::new(a, proofs, 1, prio::flp::types::Count::new()).is_ok()) {
                Ok(ok) => {
                    if ok != ((1..=254).contains(&a) && proofs >= 1) {
                        ctx.violation(format!("Prio3::new|aggs={a},proofs={proofs}|wrong-verdict"), "Prio3::new verdict differs from the documented domain", json!({"aggs": a, "proofs": proofs}));
                    }
                }
                Err(pi) => ctx.violation(format!("Prio3::new|aggs={a},proofs={proofs}|panic|{}", pi.class()), "Prio3::new panicked", json!({"panic": pi.message})),
            }
        }
    }
    // Prio2::new over the usize lattice.
    for len in usize_lattice().into_iter().chain([6usize, 1023, 1024, (1 << 19) - 1, 1 << 19, (1 << 19) + 1, (1 << 20) - 1]) {
        ctx.eval();
        ctx.trace(|| format!("Prio2::new({len})"));
        match catch(|| Prio2::new(len)) {
            Ok(Ok(v)) => {
                ctx.count("prio2_new_ok");
                // capacity: 2 * next_pow2(len + 1) <= 2^20
                if 2 * (len + 1).next_power_of_two() > (1 << 20) {
                    ctx.violation(format!("Prio2::new|input_len={}|accepted-above-capacity", cls_usize(len)), "Prio2::new accepted a length above the field's capacity", json!({"input_len": len}));
                } else if len <= 2048 {
                    // usable at the extremes: all-zero and all-one vectors
                    for bit in [0u32, 1] {
                        let m = vec![bit; len];
                        let r = catch(|| prio::vdaf::test_utils::run_vdaf(b"c16", &v, &(), [m.clone()]));
                        ctx.eval();
                        match r {
                            Ok(Ok(res)) if res == m => ctx.count("valid_extremes_worked"),
                            Ok(Ok(_)) => ctx.violation(format!("Prio2|len={}|wrong-result", cls_usize(len)), "Prio2 aggregated a valid vector wrongly", json!({"input_len": len, "bit": bit})),
                            Ok(Err(e)) => ctx.violation(format!("Prio2|len={}|valid-refused", cls_usize(len)), "Prio2 refused a valid 0/1 vector", json!({"input_len": len, "bit": bit, "err": e.to_string()})),
                            Err(pi) => ctx.violation(format!("Prio2|len={}|valid-panics|{}", cls_usize(len), pi.class()), "Prio2 panicked on a valid 0/1 vector", json!({"input_len": len, "bit": bit, "panic": pi.message, "at": pi.location})),
                        }
                    }
                }
            }
            Ok(Err(_)) => {
                ctx.count("prio2_new_err");
                if len < (1 << 19) {
                    ctx.violation(format!("Prio2::new|input_len={}|valid-refused", cls_usize(len)), "Prio2::new refused a length within the field's capacity", json!({"input_len": len}));
                }
            }
            Err(pi) => ctx.violation(format!("Prio2::new|input_len={}|panic|{}", cls_usize(len), pi.class()), "Prio2::new panicked instead of returning an error", json!({"input_len": len, "panic": pi.message, "at": pi.location})),
        }
    }
    // DP constructors.
    let u = [0u128, 1, 2, 3, 1 << 64, u128::MAX - 1, u128::MAX];
    for &n in &u {
        for &d in &u {
            ctx.eval();
            match catch(|| Rational::from_unsigned(n, d)) {
                Ok(Ok(r)) => {
                    if d == 0 {
                        ctx.violation("Rational::from_unsigned|d=0|accepted", "zero denominator accepted", json!({"n": n.to_string()}));
                    }
                    let r2 = r.clone();
                    for (site, res) in [
                        ("ZCdpBudget::new", catch(|| ZCdpBudget::new(r.clone()).map(|b| { let s = ZCdpDiscreteGaussian::from_budget(b); s.create_distribution(Rational::from_unsigned(7u8, 2u8).unwrap()).is_ok() }).is_ok())),
                        ("PureDpBudget::new", catch(|| PureDpBudget::new(r2.clone()).map(|b| { let s = PureDpDiscreteLaplace::from_budget(b); s.create_distribution(Rational::from_unsigned(7u8, 2u8).unwrap()).is_ok() }).is_ok())),
                        ("DiscreteGaussian::new", catch(|| DiscreteGaussian::new(r.clone()).is_ok())),
                        ("DiscreteLaplace::new", catch(|| DiscreteLaplace::new(r.clone()).is_ok())),
                    ] {
                        ctx.eval();
                        match res {
                            Ok(ok) => {
                                let want = match site {
                                    "DiscreteGaussian::new" => true,
                                    _ => n != 0,
                                };
                                if ok != want {
                                    ctx.violation(format!("{site}|n={}|wrong-verdict", if n == 0 { "0" } else { "nonzero" }), "DP constructor verdict differs from the documented domain", json!({"n": n.to_string(), "d": d.to_string(), "ok": ok}));
                                }
                            }
                            Err(pi) => ctx.violation(format!("{site}|panic|{}", pi.class()), "DP constructor panicked", json!({"n": n.to_string(), "d": d.to_string(), "panic": pi.message, "at": pi.location})),
                        }
                    }
                }
                Ok(Err(_)) => {
                    if d != 0 {
                        ctx.violation("Rational::from_unsigned|d!=0|refused", "valid rational refused", json!({"n": n.to_string(), "d": d.to_string()}));
                    }
                }
                Err(pi) => ctx.violation(format!("Rational::from_unsigned|panic|{}", pi.class()), "panicked", json!({"n": n.to_string(), "d": d.to_string(), "panic": pi.message})),
            }
        }
    }
    for f in [0.0f32, -0.0, 1.0, -1.0, 0.1, f32::MIN_POSITIVE, f32::MAX, f32::MIN, f32::EPSILON, f32::NAN, f32::INFINITY, f32::NEG_INFINITY, 1e-45] {
        ctx.eval();
        match catch(|| Rational::try_from(f)) {
            Ok(r) => {
                let want_ok = f.is_finite() && (f >= 0.0);
                if r.is_ok() != want_ok {
                    ctx.violation("Rational::try_from<f32>|wrong-verdict", "float conversion verdict differs from the documented domain (non-negative finite)", json!({"f": format!("{f:?}"), "ok": r.is_ok()}));
                }
            }
            Err(pi) => ctx.violation(format!("Rational::try_from<f32>|panic|{}", pi.class()), "panicked", json!({"f": format!("{f:?}"), "panic": pi.message})),
        }
    }
}

// ---------------------------------------------------------------------------------------------
// Part A3: add_noise_to_agg_share on instances at the extremes of the constructor domain
// ---------------------------------------------------------------------------------------------

/// `AggregatorWithNoise::add_noise_to_agg_share` returns a Result: on every instance the constructors
/// accept (incl. bounds that need as many bits as the field has, length 1, huge budgets, tiny budgets) it
/// must return Ok or Err, never panic / overflow.
fn part_a_noise(ctx: &mut Ctx) {
    use prio::vdaf::prio3::{Prio3Histogram, Prio3L1BoundSum, Prio3SumVec};
    use prio::vdaf::{AggregateShare, AggregatorWithNoise};
    use prio::field::Field128;
    if ctx.shard != 3 % ctx.nshards {
        return;
    }
    let p = P128;
    let eps_list: Vec<(u128, u128)> = vec![(1, 1), (1, 1_000_000), (1_000_000, 1), (u64::MAX as u128, 1), (1, u64::MAX as u128), (u128::MAX, 1), (1, u128::MAX)];
    let bounds: Vec<u128> = vec![1, 2, 3, 255, 256, (1 << 63) - 1, 1 << 63, u64::MAX as u128, 1 << 64, (1 << 126) + 5, (1 << 127) - 1, 1 << 127, (1 << 127) + 1, p - 2, p - 1];
    for &eps in &eps_list {
        let Ok(r) = Rational::from_unsigned(eps.0, eps.1) else { continue };
        let Ok(b) = PureDpBudget::new(r) else { continue };
        let strat = PureDpDiscreteLaplace::from_budget(b);
        for &max in &bounds {
            for len in [1usize, 2, 5] {
                let wit = json!({"max": max.to_string(), "len": len, "epsilon": format!("{}/{}", eps.0, eps.1)});
                if let Ok(Ok(v)) = catch(|| Prio3SumVec::new_sum_vec(2, max, len, 1.max(len / 2))) {
                    let mut share = AggregateShare::<Field128>::from(vec![Field128::from(7u128); len]);
                    let _ = misuse(ctx, "Prio3SumVec::add_noise_to_agg_share", "instance-at-domain-extreme", wit.clone(), catch(|| v.add_noise_to_agg_share(&strat, &(), &mut share, 3).map_err(|e| prio::vdaf::VdafError::Uncategorized(e.to_string()))));
                    ctx.count("noise_calls_at_domain_extremes");
                }
                if let Ok(Ok(v)) = catch(|| Prio3L1BoundSum::new_l1_bound_sum(2, max, len, 1.max(len / 2))) {
                    let mut share = AggregateShare::<Field128>::from(vec![Field128::from(7u128); len]);
                    let _ = misuse(ctx, "Prio3L1BoundSum::add_noise_to_agg_share", "instance-at-domain-extreme", wit.clone(), catch(|| v.add_noise_to_agg_share(&strat, &(), &mut share, 3).map_err(|e| prio::vdaf::VdafError::Uncategorized(e.to_string()))));
                    ctx.count("noise_calls_at_domain_extremes");
                }
            }
        }
        for len in [1usize, 2, 17] {
            if let Ok(Ok(v)) = catch(|| Prio3Histogram::new_histogram(2, len, 1.max(len / 2))) {
                let mut share = AggregateShare::<Field128>::from(vec![Field128::from(7u128); len]);
                let _ = misuse(ctx, "Prio3Histogram::add_noise_to_agg_share", "instance-at-domain-extreme", json!({"len": len, "epsilon": format!("{}/{}", eps.0, eps.1)}), catch(|| v.add_noise_to_agg_share(&strat, &(), &mut share, 3).map_err(|e| prio::vdaf::VdafError::Uncategorized(e.to_string()))));
                ctx.count("noise_calls_at_domain_extremes");
            }
        }
    }
}

// ---------------------------------------------------------------------------------------------
// Part B: measurements outside the configured range
// ---------------------------------------------------------------------------------------------

fn shard_case<V: Client<16>>(ctx: &mut Ctx, site: &str, argcls: &str, vdaf: &V, m: &V::Measurement, want_ok: bool, wit: Value) {
    ctx.eval();
    match catch(|| vdaf.shard(b"c16", m, &[1u8; 16])) {
        Ok(Ok(_)) => {
            if !want_ok {
                ctx.violation(format!("{site}|{argcls}|accepted"), "an out-of-domain measurement was sharded without error", wit);
            } else {
                ctx.count("in_domain_measurements_ok");
            }
        }
        Ok(Err(_)) => {
            if want_ok {
                ctx.violation(format!("{site}|{argcls}|refused"), "a valid measurement was refused", wit);
            } else {
                ctx.count("bad_measurements_refused");
            }
        }
        Err(pi) => ctx.violation(format!("{site}|{argcls}|panic|{}", pi.class()), "shard panicked on an out-of-domain measurement instead of returning an error",
            json!({"case": wit, "panic": pi.message, "at": pi.location})),
    }
}

fn part_b(ctx: &mut Ctx) {
    if ctx.shard != 1 % ctx.nshards {
        return;
    }
    let sum = Prio3Sum::new_sum(2, 100).unwrap();
    for (m, ok) in [(0u64, true), (100, true), (101, false), (u64::MAX, false), (1 << 63, false)] {
        shard_case(ctx, "Prio3Sum::shard", if ok { "in-range" } else { "measurement>max" }, &sum, &m, ok, json!({"max": 100, "m": m.to_string()}));
    }
    let avg = Prio3Average::new_average(2, 100).unwrap();
    for (m, ok) in [(100u128, true), (101, false), (u128::MAX, false)] {
        shard_case(ctx, "Prio3Average::shard", if ok { "in-range" } else { "measurement>max" }, &avg, &m, ok, json!({"max": 100, "m": m.to_string()}));
    }
    let sv = Prio3SumVec::new_sum_vec(2, 5, 3, 2).unwrap();
    for (m, ok, c) in [
        (vec![0u128, 5, 3], true, "in-range"),
        (vec![], false, "len=0"),
        (vec![1, 2], false, "len-1"),
        (vec![1, 2, 3, 4], false, "len+1"),
        (vec![6, 0, 0], false, "element>max"),
        (vec![0, 0, u128::MAX], false, "element=MAX"),
    ] {
        shard_case(ctx, "Prio3SumVec::shard", c, &sv, &m, ok, json!({"max": 5, "len": 3, "m": format!("{m:?}")}));
    }
    // Lattice of bounds (incl. the one-bit range) x out-of-range elements.
    for max in [1u128, 2, 3, 4, 255, 256, (1 << 64) - 1, 1 << 64] {
        let Ok(v) = Prio3SumVec::new_sum_vec(2, max, 3, 2) else { continue };
        for bad in [max + 1, max + 2, 2 * max + 1, u128::MAX, u128::MAX - 1, 1 << 127] {
            for pos in 0..3 {
                let mut m = vec![0u128, max, max / 2];
                m[pos] = bad;
                shard_case(ctx, "Prio3SumVec::shard", "element>max", &v, &m, false, json!({"max": max.to_string(), "len": 3, "m": format!("{m:?}")}));
            }
        }
        shard_case(ctx, "Prio3SumVec::shard", "in-range", &v, &vec![max, 0, max], true, json!({"max": max.to_string()}));
        let Ok(l) = Prio3L1BoundSum::new_l1_bound_sum(2, max, 3, 2) else { continue };
        for bad in [max + 1, 2 * max + 1, u128::MAX] {
            for pos in 0..3 {
                let mut m = vec![0u128; 3];
                m[pos] = bad;
                shard_case(ctx, "Prio3L1BoundSum::shard", "element>max", &l, &m, false, json!({"max": max.to_string(), "m": format!("{m:?}")}));
            }
        }
        if max >= 1 {
            // norm max + 1 spread over two coordinates
            let m = vec![max, 1, 0];
            shard_case(ctx, "Prio3L1BoundSum::shard", "norm>max", &l, &m, false, json!({"max": max.to_string(), "m": format!("{m:?}")}));
            shard_case(ctx, "Prio3L1BoundSum::shard", "in-range", &l, &vec![0, max, 0], true, json!({"max": max.to_string()}));
        }
        if max <= u64::MAX as u128 {
            let Ok(sm) = Prio3Sum::new_sum(2, max as u64) else { continue };
            for bad in [max as u64 + 1, (max as u64).saturating_mul(2).saturating_add(1), u64::MAX] {
                if bad as u128 > max {
                    shard_case(ctx, "Prio3Sum::shard", "measurement>max", &sm, &bad, false, json!({"max": max.to_string(), "m": bad.to_string()}));
                }
            }
        }
    }
    for (len, w) in [(1usize, 1usize), (4, 1), (4, 4), (9, 3)] {
        let Ok(v) = Prio3MultihotCountVec::new_multihot_count_vec(2, len, w, 2) else { continue };
        if w < len {
            let mut m = vec![false; len];
            for x in m.iter_mut().take(w + 1) {
                *x = true;
            }
            shard_case(ctx, "Prio3MultihotCountVec::shard", "overweight", &v, &m, false, json!({"len": len, "max_weight": w}));
        }
        let mut m = vec![false; len];
        for x in m.iter_mut().take(w.min(len)) {
            *x = true;
        }
        shard_case(ctx, "Prio3MultihotCountVec::shard", "in-range", &v, &m, true, json!({"len": len, "max_weight": w}));
    }
    let h = Prio3Histogram::new_histogram(2, 4, 2).unwrap();
    for (m, ok, c) in [(0usize, true, "in-range"), (3, true, "in-range"), (4, false, "bucket=length"), (5, false, "bucket=length+1"), (usize::MAX, false, "bucket=MAX")] {
        shard_case(ctx, "Prio3Histogram::shard", c, &h, &m, ok, json!({"length": 4, "bucket": m}));
    }
    let mh = Prio3MultihotCountVec::new_multihot_count_vec(2, 4, 2, 2).unwrap();
    for (m, ok, c) in [
        (vec![true, true, false, false], true, "in-range"),
        (vec![false; 4], true, "in-range"),
        (vec![true, true, true, false], false, "overweight"),
        (vec![true; 3], false, "len-1"),
        (vec![false; 5], false, "len+1"),
        (vec![], false, "len=0"),
    ] {
        shard_case(ctx, "Prio3MultihotCountVec::shard", c, &mh, &m, ok, json!({"length": 4, "max_weight": 2, "m": format!("{m:?}")}));
    }
    let l1 = Prio3L1BoundSum::new_l1_bound_sum(2, 7, 3, 2).unwrap();
    for (m, ok, c) in [
        (vec![7u128, 0, 0], true, "in-range"),
        (vec![3, 2, 2], true, "in-range"),
        (vec![3, 3, 2], false, "norm>max"),
        (vec![8, 0, 0], false, "element>max"),
        (vec![u128::MAX, u128::MAX, 2], false, "norm-overflows-integer"),
        (vec![1, 2], false, "len-1"),
        (vec![], false, "len=0"),
    ] {
        shard_case(ctx, "Prio3L1BoundSum::shard", c, &l1, &m, ok, json!({"max": 7, "len": 3, "m": format!("{m:?}")}));
    }
    // L1 norm overflow at the top of the integer range.
    if let Ok(big) = Prio3L1BoundSum::new_l1_bound_sum(2, (1u128 << 127) + 5, 2, 3) {
        shard_case(ctx, "Prio3L1BoundSum::shard", "norm-overflows-u128", &big, &vec![1u128 << 127, 1u128 << 127], false, json!({"max": "2^127+5"}));
    }
    // Prio2 measurements
    let p2 = Prio2::new(4).unwrap();
    for (m, ok, c) in [(vec![0u32, 1, 1, 0], true, "in-range"), (vec![0, 1, 1], false, "len-1"), (vec![0; 5], false, "len+1"), (vec![], false, "len=0")] {
        shard_case(ctx, "Prio2::shard", c, &p2, &m, ok, json!({"input_len": 4, "m": format!("{m:?}")}));
    }
    // Poplar1: bit lengths 0 and 1, inputs of the wrong length
    for bits in [0usize, 1, 2, 8] {
        let v = Poplar1::new_turboshake128(bits);
        for ilen in [0usize, 1, 2, bits.saturating_sub(1), bits, bits + 1, 9] {
            let inp = IdpfInput::from_bools(&vec![true; ilen]);
            let ok = ilen == bits && bits >= 1;
            let c = if ok { "in-range".to_string() } else { format!("bits={},input_len={}", if bits == 0 { "0" } else { "n" }, if ilen == bits { "bits" } else if ilen < bits { "<bits" } else { ">bits" }) };
            // bits = 0 is not a meaningful instance: anything but a panic is fine there.
            ctx.eval();
            match catch(|| v.shard(b"c16", &inp, &[2u8; 16])) {
                Ok(Ok(_)) => {
                    if !ok && bits != 0 {
                        ctx.violation(format!("Poplar1::shard|{c}|accepted"), "wrong-length input sharded without error", json!({"bits": bits, "input_len": ilen}));
                    }
                }
                Ok(Err(_)) => {
                    if ok {
                        ctx.violation(format!("Poplar1::shard|{c}|refused"), "valid input refused", json!({"bits": bits, "input_len": ilen}));
                    } else {
                        ctx.count("bad_measurements_refused");
                    }
                }
                Err(pi) => ctx.violation(format!("Poplar1::shard|{c}|panic|{}", pi.class()), "Poplar1 shard panicked instead of returning an error", json!({"bits": bits, "input_len": ilen, "panic": pi.message, "at": pi.location})),
            }
        }
    }
}

// ---------------------------------------------------------------------------------------------
// Part C: protocol operations with out-of-domain arguments
// ---------------------------------------------------------------------------------------------

struct ProtoProbe<'a> {
    rng: &'a mut Rng64,
}

/// Outcome classes of a misuse: Err is fine, panic is a violation, Ok must not release outputs
/// (checked by the caller where it applies).
fn misuse<T>(ctx: &mut Ctx, site: &str, argcls: &str, wit: Value, r: Result<Result<T, prio::vdaf::VdafError>, PanicInfo>) -> Option<T> {
    ctx.eval();
    match r {
        Ok(Ok(v)) => {
            ctx.count("misuse_returned_ok");
            Some(v)
        }
        Ok(Err(_)) => {
            ctx.count("misuse_refused_with_error");
            None
        }
        Err(pi) => {
            ctx.violation(format!("{site}|{argcls}|panic|{}", pi.class()), format!("{site} panicked on {argcls} instead of returning an error"),
                json!({"case": wit, "panic": pi.message, "at": pi.location}));
            None
        }
    }
}

impl Prio3Visitor for ProtoProbe<'_> {
    fn visit<T: Kinded, P: Xof<32>>(&mut self, ctx: &mut Ctx, p: &Params, cfg: &VdafCfg, vdaf: Prio3<T, P, 32>)
    where
        T::Field: ZField,
    {
        let rng = &mut *self.rng;
        let k = p.kind.name();
        let n = cfg.aggs as usize;
        let desc = format!("{} aggs={} proofs={}", p.describe(), cfg.aggs, cfg.proofs);
        let typ = T::build(p).unwrap();
        let key: [u8; 32] = rng.array();
        let nonce: [u8; 16] = rng.array();
        let m = p.gen_measurement(rng);
        let tape = rng.bytes(random_size(p, cfg));
        let Ok(Ok((ps, shares))) = catch(|| vdaf.shard_with_random(b"c16", &T::meas(p, &m), &nonce, &tape)) else { return };
        ctx.nontrivial(digest_str(&desc));
        let jr = typ.joint_rand_len() > 0;
        let wit = json!({"config": desc});

        // (1) aggregator ids out of range
        // An identifier >= the number of aggregators is out of the domain whatever it is congruent to modulo
        // 2^8 / 2^16 / 2^32: the call must return an error (an Ok means the identifier was truncated).
        for id in [n, 255, 256, 257, 256 + n - 1, 512, 65536, 65537, (1usize << 32) + 1, usize::MAX - 255, usize::MAX] {
            let share = &shares[if id % 256 < n { id % 256 } else { 0 }];
            if misuse(ctx, &format!("Prio3<{k}>::verify_init"), "agg_id-out-of-range", wit.clone(), catch(|| vdaf.verify_init(&key, b"c16", id, &(), &nonce, &ps, share))).is_some() {
                ctx.violation(format!("Prio3<{k}>::verify_init|agg_id-out-of-range|accepted"), "verify_init accepted an aggregator identifier that is not below the number of aggregators",
                    json!({"config": desc, "id": id.to_string()}));
            }
            ctx.eval();
            let b = shares[0].get_encoded().unwrap();
            if let Err(pi) = catch(|| <Prio3<T, P, 32> as Vdaf>::InputShare::get_decoded_with_param(&(&vdaf, id), &b).is_ok()) {
                ctx.violation(format!("Prio3<{k}>::InputShare::decode|agg_id-out-of-range|panic|{}", pi.class()), "input share decoding panicked on an out-of-range aggregator id", json!({"config": desc, "id": id.to_string(), "panic": pi.message}));
            }
        }
        // (2) wrong role: leader share under a helper id and vice versa. Ok is conforming only if
        //     no output shares are released in the end.
        let swapped_roles: Vec<(usize, usize)> = vec![(0, 1), (1, 0)];
        for (share_idx, as_id) in swapped_roles {
            if let Some((st, vs)) = misuse(ctx, &format!("Prio3<{k}>::verify_init"), "wrong-role-share", wit.clone(), catch(|| vdaf.verify_init(&key, b"c16", as_id, &(), &nonce, &ps, &shares[share_idx]))) {
                // complete the protocol with the other aggregators honest: must not finish everywhere
                let mut vss = vec![];
                let mut states = vec![];
                let mut ok = true;
                for i in 0..n {
                    if i == as_id {
                        vss.push(vs.clone());
                        states.push(st.clone());
                    } else {
                        match catch(|| vdaf.verify_init(&key, b"c16", i, &(), &nonce, &ps, &shares[i])) {
                            Ok(Ok((s, v))) => {
                                vss.push(v);
                                states.push(s);
                            }
                            _ => ok = false,
                        }
                    }
                }
                if ok {
                    if let Some(msg) = misuse(ctx, &format!("Prio3<{k}>::verifier_shares_to_message"), "after-wrong-role-share", wit.clone(), catch(|| vdaf.verifier_shares_to_message(b"c16", &(), vss))) {
                        let mut finished = 0;
                        for s in states {
                            if let Some(VerifyTransition::Finish(_)) = misuse(ctx, &format!("Prio3<{k}>::verify_next"), "after-wrong-role-share", wit.clone(), catch(|| vdaf.verify_next(b"c16", s, msg.clone()))) {
                                finished += 1;
                            }
                        }
                        if finished == n {
                            ctx.count("wrong_role_accepted_once");
                        }
                    }
                }
            }
        }
        // (3) shares built through the public enum with wrong lengths / missing or spurious blind
        if let Prio3InputShare::Leader { measurement_share, proofs_share, joint_rand_blind } = shares[0].clone() {
            let mut variants: Vec<(&str, Prio3InputShare<T::Field, 32>)> = vec![];
            let mut ms = measurement_share.clone();
            ms.pop();
            variants.push(("leader-measurement-share-short", Prio3InputShare::Leader { measurement_share: ms, proofs_share: proofs_share.clone(), joint_rand_blind: joint_rand_blind.clone() }));
            let mut ms = measurement_share.clone();
            ms.push(ms[0]);
            variants.push(("leader-measurement-share-long", Prio3InputShare::Leader { measurement_share: ms, proofs_share: proofs_share.clone(), joint_rand_blind: joint_rand_blind.clone() }));
            variants.push(("leader-measurement-share-empty", Prio3InputShare::Leader { measurement_share: vec![], proofs_share: proofs_share.clone(), joint_rand_blind: joint_rand_blind.clone() }));
            let mut pf = proofs_share.clone();
            pf.pop();
            variants.push(("leader-proofs-share-short", Prio3InputShare::Leader { measurement_share: measurement_share.clone(), proofs_share: pf, joint_rand_blind: joint_rand_blind.clone() }));
            variants.push(("leader-proofs-share-empty", Prio3InputShare::Leader { measurement_share: measurement_share.clone(), proofs_share: vec![], joint_rand_blind: joint_rand_blind.clone() }));
            let mut pf = proofs_share.clone();
            pf.push(pf[0]);
            variants.push(("leader-proofs-share-long", Prio3InputShare::Leader { measurement_share: measurement_share.clone(), proofs_share: pf, joint_rand_blind: joint_rand_blind.clone() }));
            let mut pf = proofs_share.clone();
            let extra = (proofs_share.len() / cfg.proofs as usize).max(2) - 1;
            for i in 0..extra {
                pf.push(proofs_share[i % proofs_share.len()]);
            }
            variants.push(("leader-proofs-share-long-by-almost-a-proof", Prio3InputShare::Leader { measurement_share: measurement_share.clone(), proofs_share: pf, joint_rand_blind: joint_rand_blind.clone() }));
            let mut pf = proofs_share.clone();
            pf.extend_from_slice(&proofs_share[..proofs_share.len() / cfg.proofs as usize]);
            variants.push(("leader-proofs-share-long-by-a-proof", Prio3InputShare::Leader { measurement_share: measurement_share.clone(), proofs_share: pf, joint_rand_blind: joint_rand_blind.clone() }));
            if jr {
                variants.push(("leader-blind-missing", Prio3InputShare::Leader { measurement_share: measurement_share.clone(), proofs_share: proofs_share.clone(), joint_rand_blind: None }));
            } else {
                variants.push(("leader-blind-spurious", Prio3InputShare::Leader { measurement_share: measurement_share.clone(), proofs_share: proofs_share.clone(), joint_rand_blind: Some(Seed::get_decoded(&[7u8; 32]).unwrap()) }));
            }
            for (name, sh) in variants {
                if let Some((st, vs)) = misuse(ctx, &format!("Prio3<{k}>::verify_init"), name, wit.clone(), catch(|| vdaf.verify_init(&key, b"c16", 0, &(), &nonce, &ps, &sh))) {
                    // Whatever was accepted, the protocol must not panic later either.
                    let mut vss = vec![vs];
                    let mut states = vec![st];
                    for i in 1..n {
                        if let Ok(Ok((s, v))) = catch(|| vdaf.verify_init(&key, b"c16", i, &(), &nonce, &ps, &shares[i])) {
                            vss.push(v);
                            states.push(s);
                        }
                    }
                    let n_states = states.len();
                    if let Some(msg) = misuse(ctx, &format!("Prio3<{k}>::verifier_shares_to_message"), &format!("after-{name}"), wit.clone(), catch(|| vdaf.verifier_shares_to_message(b"c16", &(), vss))) {
                        let mut finished = 0;
                        for s in states {
                            if let Some(VerifyTransition::Finish(_)) = misuse(ctx, &format!("Prio3<{k}>::verify_next"), &format!("after-{name}"), wit.clone(), catch(|| vdaf.verify_next(b"c16", s, msg.clone()))) {
                                finished += 1;
                            }
                        }
                        // A share of the wrong LENGTH must be refused by some operation.
                        if finished == n_states && n_states == n && name.contains("share-") {
                            ctx.violation(format!("Prio3<{k}>::verify_init|{name}|accepted-and-verified"),
                                "a leader input share of the wrong length was accepted and the report completed verification at every aggregator",
                                json!({"config": desc, "variant": name}));
                        }
                    }
                }
            }
        }
        if jr && n >= 2 {
            if let Prio3InputShare::Helper { meas_and_proofs_share, .. } = shares[1].clone() {
                let sh = Prio3InputShare::Helper { meas_and_proofs_share, joint_rand_blind: None };
                let _ = misuse(ctx, &format!("Prio3<{k}>::verify_init"), "helper-blind-missing", wit.clone(), catch(|| vdaf.verify_init(&key, b"c16", 1, &(), &nonce, &ps, &sh)));
            }
        }
        // (4) messages decoded under / taken from ANOTHER instance (joint-rand vs not): a
        //     verifier message without the joint-rand seed given to a joint-rand state and v.v.
        {
            let other_p = Params { kind: if jr { Kind::Count } else { Kind::Histogram }, max: 1, len: 3, chunk: 2, p: p.p };
            struct Cross<'b, V: Aggregator<32, 16>> {
                vdaf: &'b V,
                state: Option<V::VerifyState>,
                k: &'static str,
                wit: Value,
            }
            impl<V: Aggregator<32, 16>> Prio3Visitor for Cross<'_, V> {
                fn visit<T2: Kinded, P2: Xof<32>>(&mut self, ctx: &mut Ctx, p2: &Params, cfg2: &VdafCfg, other: Prio3<T2, P2, 32>)
                where
                    T2::Field: ZField,
                {
                    // produce the OTHER instance's verifier message and feed its bytes to OUR state
                    let mut r2 = Rng64::new(99);
                    let m2 = p2.gen_measurement(&mut r2);
                    let tape2 = r2.bytes(random_size(p2, cfg2));
                    let Ok(Ok((ps2, sh2))) = catch(|| other.shard_with_random(b"c16", &T2::meas(p2, &m2), &[3u8; 16], &tape2)) else { return };
                    let mut vss = vec![];
                    for (i, s) in sh2.iter().enumerate() {
                        if let Ok(Ok((_, v))) = catch(|| other.verify_init(&[5u8; 32], b"c16", i, &(), &[3u8; 16], &ps2, s)) {
                            vss.push(v);
                        }
                    }
                    let Ok(Ok(msg2)) = catch(|| other.verifier_shares_to_message(b"c16", &(), vss)) else { return };
                    let bytes = msg2.get_encoded().unwrap();
                    let st = self.state.take().unwrap();
                    ctx.eval();
                    match catch(|| V::VerifierMessage::get_decoded_with_param(&st, &bytes)) {
                        Ok(Ok(msg)) => {
                            let _ = misuse(ctx, &format!("Prio3<{}>::verify_next", self.k), "message-from-other-instance", self.wit.clone(), catch(|| self.vdaf.verify_next(b"c16", st, msg)));
                        }
                        Ok(Err(_)) => ctx.count("misuse_refused_with_error"),
                        Err(pi) => ctx.violation(format!("Prio3<{}>::VerifierMessage::decode|other-instance|panic|{}", self.k, pi.class()), "decoding panicked", json!({"panic": pi.message})),
                    }
                }
            }
            if let Ok(Ok((st, _))) = catch(|| vdaf.verify_init(&key, b"c16", 0, &(), &nonce, &ps, &shares[0])) {
                let mut cross = Cross { vdaf: &vdaf, state: Some(st), k, wit: wit.clone() };
                let cfg2 = VdafCfg { aggs: cfg.aggs, proofs: 1, alg_id: algorithm_id(other_p.kind), hmac_xof: false };
                let _ = with_prio3(ctx, &other_p, &cfg2, &mut cross);
            }
        }
        // (5) wrong number of verifier shares (no panic; C02 checks they are refused)
        {
            let mut vss = vec![];
            for (i, s) in shares.iter().enumerate() {
                if let Ok(Ok((_, v))) = catch(|| vdaf.verify_init(&key, b"c16", i, &(), &nonce, &ps, s)) {
                    vss.push(v);
                }
            }
            if vss.len() == n {
                let _ = misuse(ctx, &format!("Prio3<{k}>::verifier_shares_to_message"), "zero-shares", wit.clone(), catch(|| vdaf.verifier_shares_to_message(b"c16", &(), Vec::new())));
                let _ = misuse(ctx, &format!("Prio3<{k}>::verifier_shares_to_message"), "n-1-shares", wit.clone(), catch(|| vdaf.verifier_shares_to_message(b"c16", &(), vss[..n - 1].to_vec())));
                let mut more = vss.clone();
                more.push(vss[0].clone());
                let _ = misuse(ctx, &format!("Prio3<{k}>::verifier_shares_to_message"), "n+1-shares", wit.clone(), catch(|| vdaf.verifier_shares_to_message(b"c16", &(), more)));
            }
        }
        // (7) verifier shares of the wrong LENGTH: produced by an instance of the same type that differs only
        //     in the number of proofs (verifier_len * proofs differs), handed to THIS instance's combiner,
        //     all of them or a single one among correct shares. verifier_shares_to_message is the only
        //     operation that ever receives them, so it is the one that has to return the error.
        for proofs2 in [cfg.proofs + 1, cfg.proofs.saturating_sub(1), cfg.proofs.saturating_mul(2)] {
            if proofs2 == 0 || proofs2 == cfg.proofs {
                continue;
            }
            let Ok(Ok(other)) = catch(|| Prio3::<T, P, 32>::new(cfg.aggs, proofs2, cfg.alg_id, typ.clone())) else { continue };
            let tape2 = rng.bytes(random_size(p, &VdafCfg { proofs: proofs2, ..cfg.clone() }));
            let Ok(Ok((ps2, sh2))) = catch(|| other.shard_with_random(b"c16", &T::meas(p, &m), &nonce, &tape2)) else { continue };
            let mut foreign = vec![];
            for (i, s) in sh2.iter().enumerate() {
                if let Ok(Ok((_, v))) = catch(|| other.verify_init(&key, b"c16", i, &(), &nonce, &ps2, s)) {
                    foreign.push(v);
                }
            }
            let mut own = vec![];
            for (i, s) in shares.iter().enumerate() {
                if let Ok(Ok((_, v))) = catch(|| vdaf.verify_init(&key, b"c16", i, &(), &nonce, &ps, s)) {
                    own.push(v);
                }
            }
            if foreign.len() != n || own.len() != n {
                continue;
            }
            let mut cases: Vec<(String, Vec<_>)> = vec![(format!("all-shares-from-{}-proof-instance", if proofs2 > cfg.proofs { "more" } else { "fewer" }), foreign.clone())];
            for pos in [0, n - 1] {
                let mut mixed = own.clone();
                mixed[pos] = foreign[pos].clone();
                cases.push((format!("one-share-from-{}-proof-instance", if proofs2 > cfg.proofs { "more" } else { "fewer" }), mixed));
            }
            for (name, vss) in cases {
                ctx.count("wrong_length_verifier_shares_offered");
                if misuse(ctx, &format!("Prio3<{k}>::verifier_shares_to_message"), &name, wit.clone(), catch(|| vdaf.verifier_shares_to_message(b"c16", &(), vss))).is_some() {
                    ctx.violation(format!("Prio3<{k}>::verifier_shares_to_message|{name}|accepted"),
                        "verifier shares of the wrong length (computed for another number of proofs) were combined without an error",
                        json!({"config": desc, "other_num_proofs": proofs2}));
                }
            }
        }
        // (6) aggregate / unshard with shares of another length
        {
            let short = prio::vdaf::OutputShare::<T::Field>::from(vec![<T::Field as prio::field::FieldElement>::zero(); p.output_len() + 1]);
            let _ = misuse(ctx, &format!("Prio3<{k}>::aggregate"), "output-share-wrong-length", wit.clone(), catch(|| vdaf.aggregate(&(), [short])));
            let bad = prio::vdaf::AggregateShare::<T::Field>::from(vec![<T::Field as prio::field::FieldElement>::zero(); p.output_len() + 1]);
            let _ = misuse(ctx, &format!("Prio3<{k}>::unshard"), "aggregate-share-wrong-length", wit.clone(), catch(|| vdaf.unshard(&(), [bad], 1)));
            let _ = misuse(ctx, &format!("Prio3<{k}>::unshard"), "no-aggregate-shares", wit.clone(), catch(|| vdaf.unshard(&(), Vec::new(), 0)));
        }
    }
}

fn part_c_prio3(ctx: &mut Ctx) {
    let mut rng = ctx.rng("c16-c");
    let n = ctx.budget(2_400, 12_000) / ctx.nshards as u64;
    for i in 0..n {
        let kind = Kind::ALL[(i as usize + ctx.shard) % Kind::ALL.len()];
        let p = gen_params(&mut rng, kind, 40);
        let mut cfg = gen_cfg(&mut rng, kind, false);
        cfg.aggs = 2 + rng.below(3) as u8;
        cfg.proofs = 1 + rng.below(2) as u8;
        cfg.hmac_xof = false;
        let mut rng2 = Rng64::derive(ctx.seed, &["c16-c"], i * 31 + ctx.shard as u64);
        let mut v = ProtoProbe { rng: &mut rng2 };
        let _ = with_prio3(ctx, &p, &cfg, &mut v);
    }
}

fn part_c_poplar_prio2(ctx: &mut Ctx) {
    if ctx.shard != 2 % ctx.nshards {
        return;
    }
    // Poplar1: levels >= bits, reports of another bit length, aggregator ids out of range
    let key = [9u8; 32];
    let nonce = [4u8; 16];
    for bits in [1usize, 2, 4, 8] {
        let v = Poplar1::new_turboshake128(bits);
        let inp = IdpfInput::from_bools(&vec![true; bits]);
        let Ok(Ok((ps, shares))) = catch(|| v.shard(b"c16", &inp, &nonce)) else {
            ctx.note(format!("Poplar1 honest shard failed for bits={bits}"));
            continue;
        };
        for level in [0usize, bits - 1, bits, bits + 1, 2 * bits + 5, 65535] {
            let pref = IdpfInput::from_bools(&vec![true; level + 1]);
            let Ok(ap) = Poplar1AggregationParam::try_from_prefixes(vec![pref]) else { continue };
            let argcls = if level < bits { "level<bits" } else { "level>=bits" };
            for id in [0usize, 1, 2, 256, 257, 65537, usize::MAX] {
                let a = if id > 1 { "agg_id-out-of-range" } else { argcls };
                let r = misuse(ctx, "Poplar1::verify_init", a, json!({"bits": bits, "level": level, "id": id.to_string()}), catch(|| v.verify_init(&key, b"c16", id, &ap, &nonce, &ps, &shares[id % 2])));
                if r.is_some() && id > 1 {
                    ctx.violation("Poplar1::verify_init|agg_id-out-of-range|accepted", "Poplar1 verify_init accepted an aggregator identifier other than 0 and 1",
                        json!({"bits": bits, "level": level, "id": id.to_string()}));
                }
                if r.is_some() && level >= bits {
                    ctx.count("poplar1_level_ge_bits_accepted_by_verify_init");
                }
            }
            let _ = misuse(ctx, "Poplar1::unshard", argcls, json!({"bits": bits, "level": level}), catch(|| v.unshard(&ap, Vec::new(), 0)));
            ctx.eval();
            if let Err(pi) = catch(|| v.aggregate_init(&ap)) {
                // aggregate_init is not Result-returning; only note.
                ctx.note(format!("Poplar1::aggregate_init panics for level>=bits: {}", pi.class()));
            }
        }
        // a report of ANOTHER bit length given to this instance
        for other_bits in [1usize, 2, 4, 8, 16] {
            if other_bits == bits {
                continue;
            }
            let o = Poplar1::new_turboshake128(other_bits);
            let oinp = IdpfInput::from_bools(&vec![false; other_bits]);
            let Ok(Ok((ops, oshares))) = catch(|| o.shard(b"c16", &oinp, &nonce)) else { continue };
            for level in [0usize, bits.min(other_bits) - 1, bits - 1, other_bits - 1] {
                let pref = IdpfInput::from_bools(&vec![false; level + 1]);
                let Ok(ap) = Poplar1AggregationParam::try_from_prefixes(vec![pref]) else { continue };
                let cls = format!("report-of-other-bit-length|{}", if other_bits < bits { "shorter" } else { "longer" });
                for id in 0..2 {
                    let _ = misuse(ctx, "Poplar1::verify_init", &cls, json!({"bits": bits, "report_bits": other_bits, "level": level, "id": id}), catch(|| v.verify_init(&key, b"c16", id, &ap, &nonce, &ops, &oshares[id])));
                }
            }
            // MIXED report: this instance's own (right-length) public share with an input share made for the
            // other bit length, and the other way round, at EVERY level of this instance. The input share
            // (resp. public share) has the wrong length for the instance, so the call must return an error:
            // neither Ok nor an index panic at the level where the foreign share runs out.
            for level in 0..bits {
                let pref = IdpfInput::from_bools(&vec![true; level + 1]);
                let Ok(ap) = Poplar1AggregationParam::try_from_prefixes(vec![pref]) else { continue };
                for id in 0..2 {
                    for (what, pubs, ish) in [("input-share-of-other-bit-length", &ps, &oshares[id]), ("public-share-of-other-bit-length", &ops, &shares[id])] {
                        let cls = format!("{what}|{}", if other_bits < bits { "shorter" } else { "longer" });
                        ctx.count("poplar1_mixed_length_reports_offered");
                        let r = misuse(ctx, "Poplar1::verify_init", &cls, json!({"bits": bits, "other_bits": other_bits, "level": level, "id": id}),
                            catch(|| v.verify_init(&key, b"c16", id, &ap, &nonce, pubs, ish)));
                        if r.is_some() {
                            ctx.violation(format!("Poplar1::verify_init|{cls}|accepted"),
                                "verify_init accepted a report whose input share / public share was made for another bit length (wrong length for this instance)",
                                json!({"bits": bits, "other_bits": other_bits, "level": level, "id": id, "which": what}));
                        }
                    }
                }
            }
        }
        // wrong number of verifier shares
        let pref = IdpfInput::from_bools(&[true]);
        if let Ok(ap) = Poplar1AggregationParam::try_from_prefixes(vec![pref]) {
            if let (Ok(Ok((_, v0))), Ok(Ok((_, v1)))) = (catch(|| v.verify_init(&key, b"c16", 0, &ap, &nonce, &ps, &shares[0])), catch(|| v.verify_init(&key, b"c16", 1, &ap, &nonce, &ps, &shares[1]))) {
                let _ = misuse(ctx, "Poplar1::verifier_shares_to_message", "zero-shares", json!({}), catch(|| v.verifier_shares_to_message(b"c16", &ap, Vec::new())));
                let _ = misuse(ctx, "Poplar1::verifier_shares_to_message", "one-share", json!({}), catch(|| v.verifier_shares_to_message(b"c16", &ap, vec![v0.clone()])));
                let _ = misuse(ctx, "Poplar1::verifier_shares_to_message", "three-shares", json!({}), catch(|| v.verifier_shares_to_message(b"c16", &ap, vec![v0.clone(), v1.clone(), v0.clone()])));
            }
        }
    }
    // try_from_prefixes with out-of-domain lists
    let cases: Vec<(&str, Vec<IdpfInput>)> = vec![
        ("empty-list", vec![]),
        ("empty-prefix", vec![IdpfInput::from_bools(&[])]),
        ("ragged", vec![IdpfInput::from_bools(&[true]), IdpfInput::from_bools(&[true, false])]),
        ("unsorted", vec![IdpfInput::from_bools(&[true]), IdpfInput::from_bools(&[false])]),
        ("duplicate", vec![IdpfInput::from_bools(&[true]), IdpfInput::from_bools(&[true])]),
        ("too-long-prefix", vec![IdpfInput::from_bools(&vec![true; 65537])]),
    ];
    for (name, l) in cases {
        ctx.eval();
        match catch(|| Poplar1AggregationParam::try_from_prefixes(l).is_ok()) {
            Ok(true) => ctx.violation(format!("Poplar1AggregationParam::try_from_prefixes|{name}|accepted"), "an out-of-domain prefix list was accepted", json!({"case": name})),
            Ok(false) => ctx.count("misuse_refused_with_error"),
            Err(pi) => ctx.violation(format!("Poplar1AggregationParam::try_from_prefixes|{name}|panic|{}", pi.class()), "try_from_prefixes panicked", json!({"case": name, "panic": pi.message, "at": pi.location})),
        }
    }
    // Prio2: wrong-length / wrong-role shares, ids, verifier share counts
    for len in [0usize, 1, 3, 8] {
        let Ok(v) = Prio2::new(len) else { continue };
        let m = vec![1u32; len];
        let Ok(Ok((_, shares))) = catch(|| v.shard(b"c16", &m, &nonce)) else { continue };
        let wit = json!({"input_len": len});
        for id in [2usize, 255, usize::MAX] {
            let _ = misuse(ctx, "Prio2::verify_init", "agg_id-out-of-range", wit.clone(), catch(|| v.verify_init(&key, b"c16", id, &(), &nonce, &(), &shares[0])));
        }
        if let Share::Leader(data) = shares[0].clone() {
            let mut variants: Vec<(&str, Share<FieldPrio2, 32>)> = vec![];
            let mut d = data.clone();
            d.pop();
            variants.push(("leader-share-short", Share::Leader(d)));
            let mut d = data.clone();
            d.push(FieldPrio2::from(1));
            variants.push(("leader-share-long", Share::Leader(d)));
            variants.push(("leader-share-empty", Share::Leader(vec![])));
            variants.push(("leader-share-only-data", Share::Leader(data[..len].to_vec())));
            for (name, sh) in variants {
                let _ = misuse(ctx, "Prio2::verify_init", name, wit.clone(), catch(|| v.verify_init(&key, b"c16", 0, &(), &nonce, &(), &sh)));
                let _ = misuse(ctx, "Prio2::verify_init_with_query_rand", name, wit.clone(), catch(|| v.verify_init_with_query_rand(FieldPrio2::from(12345), &sh, true)));
            }
        }
        // leader share under the helper id and vice versa (Ok is conforming if it fails later)
        let _ = misuse(ctx, "Prio2::verify_init", "wrong-role-share", wit.clone(), catch(|| v.verify_init(&key, b"c16", 1, &(), &nonce, &(), &shares[0])));
        let _ = misuse(ctx, "Prio2::verify_init", "wrong-role-share", wit.clone(), catch(|| v.verify_init(&key, b"c16", 0, &(), &nonce, &(), &shares[1])));
        if let (Ok(Ok((_, a))), Ok(Ok((_, b)))) = (catch(|| v.verify_init(&key, b"c16", 0, &(), &nonce, &(), &shares[0])), catch(|| v.verify_init(&key, b"c16", 1, &(), &nonce, &(), &shares[1]))) {
            let _ = misuse(ctx, "Prio2::verifier_shares_to_message", "zero-shares", wit.clone(), catch(|| v.verifier_shares_to_message(b"c16", &(), Vec::new())));
            let _ = misuse(ctx, "Prio2::verifier_shares_to_message", "one-share", wit.clone(), catch(|| v.verifier_shares_to_message(b"c16", &(), vec![a.clone()])));
            let _ = misuse(ctx, "Prio2::verifier_shares_to_message", "three-shares", wit.clone(), catch(|| v.verifier_shares_to_message(b"c16", &(), vec![a.clone(), b.clone(), a.clone()])));
        }
        let bad = prio::vdaf::AggregateShare::<FieldPrio2>::from(vec![FieldPrio2::from(0); len + 1]);
        let _ = misuse(ctx, "Prio2::unshard", "aggregate-share-wrong-length", wit.clone(), catch(|| v.unshard(&(), [bad], 1)));
    }
    let _ = (Field64::from(0u64), Field128::from(0u128));
}

pub fn run(ctx: &mut Ctx) {
    part_a_types(ctx);
    part_a_vdaf_ctors(ctx);
    part_a_noise(ctx);
    part_b(ctx);
    part_c_prio3(ctx);
    part_c_poplar_prio2(ctx);
}
