//! C17: helper shares are independent of the measurement; the leader share is masked.

use crate::c01::{gen_ctx, gen_random_tape, random_size};
use crate::common::*;
use crate::zoo::*;
use prio::codec::Encode;
use prio::flp::Type;
use prio::idpf::IdpfInput;
use prio::vdaf::poplar1::Poplar1;
use prio::vdaf::prio3::Prio3;
use prio::vdaf::test_utils::TestVectorClient;
use prio::vdaf::xof::Xof;
use serde_json::json;

struct V17<'a> {
    rng: &'a mut Rng64,
    pairs: usize,
}

fn elems(b: &[u8], esz: usize, n: usize, p: u128) -> Vec<u128> {
    (0..n)
        .map(|i| {
            let mut v = 0u128;
            for (k, byte) in b[i * esz..(i + 1) * esz].iter().enumerate() {
                v |= (*byte as u128) << (8 * k);
            }
            v % p
        })
        .collect()
}

impl Prio3Visitor for V17<'_> {
    fn visit<T: Kinded, P: Xof<32>>(&mut self, ctx: &mut Ctx, p: &Params, cfg: &VdafCfg, vdaf: Prio3<T, P, 32>)
    where
        T::Field: ZField,
    {
        let rng = &mut *self.rng;
        let k = p.kind.name();
        let desc = format!("{} aggs={} proofs={} xof={}", p.describe(), cfg.aggs, cfg.proofs, if cfg.hmac_xof { "hmac" } else { "turboshake" });
        let typ = T::build(p).unwrap();
        let esz = <T::Field as prio::field::FieldElement>::ENCODED_SIZE;
        let il = typ.input_len();
        let vctx = gen_ctx(rng, cfg.hmac_xof);
        let nonce: [u8; 16] = rng.array_edge();
        let tape = gen_random_tape(rng, random_size(p, cfg));
        // measurement set incl. extremes
        let mut ms: Vec<Vec<u128>> = (0..self.pairs + 1).map(|_| p.gen_measurement(rng)).collect();
        ms.dedup();
        let mut sharded = vec![];
        for m in &ms {
            match catch(|| vdaf.shard_with_random(&vctx, &T::meas(p, m), &nonce, &tape)) {
                Ok(Ok((ps, sh))) => {
                    let psb = ps.get_encoded().unwrap();
                    let shb: Vec<Vec<u8>> = sh.iter().map(|s| s.get_encoded().unwrap()).collect();
                    sharded.push((m.clone(), psb, shb));
                }
                _ => {
                    ctx.inconclusive(format!("honest shard failed for {desc} (C01's domain)"));
                    return;
                }
            }
        }
        ctx.nontrivial(digest_str(&desc));
        ctx.count(&format!("configs_{k}"));
        for i in 0..sharded.len() {
            for j in 0..sharded.len() {
                if i == j || sharded[i].0 == sharded[j].0 {
                    continue;
                }
                let (m1, ps1, sh1) = &sharded[i];
                let (m2, ps2, sh2) = &sharded[j];
                ctx.eval();
                let wit = || json!({"config": desc, "m1": p.meas_json(m1), "m2": p.meas_json(m2), "nonce": hex(&nonce), "tape": hex_trunc(&tape, 96), "ctx": hex_trunc(&vctx, 32)});
                // (1) every helper input share is byte-identical
                for h in 1..sh1.len() {
                    ctx.count_n("helper_share_bytes_compared", sh1[h].len() as u64);
                    if sh1[h] != sh2[h] {
                        ctx.violation(format!("{k}|helper-input-share-depends-on-measurement"), "a helper's Prio3 input share changed when only the measurement changed", wit());
                    }
                }
                // (2) helper joint-randomness parts in the public share are identical
                if p.kind.has_joint_rand() {
                    if ps1.len() != 32 * cfg.aggs as usize || ps2.len() != ps1.len() {
                        ctx.violation(format!("{k}|public-share-length"), "public share is not one seed per aggregator", wit());
                    } else {
                        ctx.count_n("public_share_helper_part_bytes_compared", (ps1.len() - 32) as u64);
                        if ps1[32..] != ps2[32..] {
                            ctx.violation(format!("{k}|helper-joint-rand-part-depends-on-measurement"), "a helper joint-randomness part changed when only the measurement changed", wit());
                        }
                    }
                } else if !ps1.is_empty() || !ps2.is_empty() {
                    ctx.violation(format!("{k}|public-share-nonempty"), "public share not empty for a type without joint randomness", wit());
                }
                // (3) leader measurement-share difference == difference of the encodings
                let l1 = elems(&sh1[0], esz, il, p.p);
                let l2 = elems(&sh2[0], esz, il, p.p);
                let e1 = p.encode_ref(m1);
                let e2 = p.encode_ref(m2);
                let ok = (0..il).all(|t| submod(l1[t], l2[t], p.p) == submod(e1[t] % p.p, e2[t] % p.p, p.p));
                ctx.count_n("leader_elements_checked", il as u64);
                if !ok {
                    ctx.violation(format!("{k}|leader-mask-depends-on-measurement"), "difference of leader measurement shares != difference of the encodings (the mask depends on the measurement)", wit());
                }
                // (4) the leader's joint-rand blind (verbatim randomness) is unchanged
                if p.kind.has_joint_rand() {
                    let a = &sh1[0][sh1[0].len() - 32..];
                    let b = &sh2[0][sh2[0].len() - 32..];
                    if a != b {
                        ctx.violation(format!("{k}|leader-blind-depends-on-measurement"), "the leader's joint-randomness blind changed with the measurement", wit());
                    }
                }
                ctx.sample(|| wit());
            }
        }
    }
}

fn poplar(ctx: &mut Ctx) {
    let mut rng = ctx.rng("c17-poplar");
    let n = ctx.budget(3_200, 20_000) / ctx.nshards as u64;
    for i in 0..n {
        let bits = *rng.choose(&[1usize, 2, 3, 8, 16, 64, 256, 1024]);
        let bits = if ctx.quick() && bits > 256 && i % 8 != 0 { 64 } else { bits };
        let vdaf = Poplar1::new_turboshake128(bits);
        let vctx = gen_ctx(&mut rng, false);
        let nonce: [u8; 16] = rng.array_edge();
        let tape = gen_random_tape(&mut rng, 32 + 3 * 32);
        let base: Vec<bool> = (0..bits).map(|_| rng.bool()).collect();
        let mut variants: Vec<Vec<bool>> = vec![base.clone()];
        let mut v = base.clone();
        v[0] = !v[0];
        variants.push(v);
        let mut v = base.clone();
        v[bits - 1] = !v[bits - 1];
        variants.push(v);
        variants.push(base.iter().map(|b| !b).collect());
        variants.push(vec![false; bits]);
        variants.push(vec![true; bits]);
        variants.sort();
        variants.dedup();
        let mut sharded = vec![];
        for inp in &variants {
            match catch(|| vdaf.shard_with_random(&vctx, &IdpfInput::from_bools(inp), &nonce, &tape)) {
                Ok(Ok((ps, sh))) => sharded.push((inp.clone(), ps.get_encoded().unwrap(), sh.iter().map(|s| s.get_encoded().unwrap()).collect::<Vec<_>>())),
                Ok(Err(e)) => {
                    ctx.inconclusive(format!("Poplar1 honest shard failed bits={bits}: {e} (C03's domain)"));
                    return;
                }
                Err(pi) => {
                    ctx.inconclusive(format!("Poplar1 honest shard panicked bits={bits}: {} (C03/C16's domain)", pi.class()));
                    return;
                }
            }
        }
        ctx.nontrivial(digest(&[b"poplar", &bits.to_le_bytes(), &tape]));
        ctx.count("poplar1_configs");
        let mut public_differs = 0;
        for a in 0..sharded.len() {
            for b in a + 1..sharded.len() {
                ctx.eval();
                for s in 0..2 {
                    ctx.count_n("poplar1_share_bytes_compared", sharded[a].2[s].len() as u64);
                    if sharded[a].2[s] != sharded[b].2[s] {
                        let tohex = |v: &Vec<bool>| v.iter().take(64).map(|x| if *x { '1' } else { '0' }).collect::<String>();
                        ctx.violation(format!("Poplar1|input-share-{s}-depends-on-measurement"), "a Poplar1 input share changed when only the measurement changed",
                            json!({"bits": bits, "input1": tohex(&sharded[a].0), "input2": tohex(&sharded[b].0), "nonce": hex(&nonce), "tape": hex(&tape), "ctx": hex_trunc(&vctx, 32)}));
                    }
                }
                if sharded[a].1 != sharded[b].1 {
                    public_differs += 1;
                }
            }
        }
        ctx.count_n("poplar1_pairs_with_differing_public_share", public_differs);
    }
}

pub fn run(ctx: &mut Ctx) {
    let mut rng = ctx.rng("c17");
    let n_cfg = ctx.budget(32_000, 300_000) / ctx.nshards as u64;
    for i in 0..n_cfg {
        let kind = Kind::ALL[(i as usize + ctx.shard) % Kind::ALL.len()];
        let p = gen_params(&mut rng, kind, 200);
        let heavy = rng.chance(1, 40);
        let mut cfg = gen_cfg(&mut rng, kind, heavy);
        cfg.proofs = cfg.proofs.min(2);
        let mut rng2 = Rng64::derive(ctx.seed, &["c17-case"], i * 3571 + ctx.shard as u64);
        let mut v = V17 { rng: &mut rng2, pairs: 3 };
        if let Err(e) = with_prio3(ctx, &p, &cfg, &mut v) {
            ctx.inconclusive(format!("constructor refused {}: {e}", p.describe()));
        }
    }
    poplar(ctx);
}
