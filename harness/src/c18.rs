//! C18: reports are bound to context, nonce, role and key — mismatches are rejected.

use crate::c01::{gen_ctx, random_size};
use crate::common::*;
use crate::proto::*;
use crate::zoo::*;
use prio::codec::Encode;
use prio::idpf::IdpfInput;
use prio::vdaf::poplar1::{Poplar1, Poplar1AggregationParam};
use prio::vdaf::prio3::Prio3;
use prio::vdaf::test_utils::TestVectorClient;
use prio::vdaf::xof::Xof;
use prio::vdaf::{Aggregator, Client};
use serde_json::json;

fn mutate_ctx(rng: &mut Rng64, c: &[u8], hmac: bool) -> Vec<u8> {
    let mut v = c.to_vec();
    let max = if hmac { 247 } else { 400 };
    match rng.below(5) {
        0 if !v.is_empty() => {
            let i = rng.usize_below(v.len());
            v[i] ^= 1 << rng.below(8);
        }
        1 if !v.is_empty() => {
            v.pop();
        }
        2 if !v.is_empty() => v.clear(),
        3 if !v.is_empty() => {
            v.remove(0);
        }
        _ => {
            if v.len() < max {
                v.push(rng.u64() as u8)
            } else {
                v[0] ^= 0x80
            }
        }
    }
    v
}

/// An identifier different from `id` that a truncating conversion would map back to `id`.
fn alias_id(rng: &mut Rng64, id: usize) -> usize {
    match rng.below(5) {
        0 => id + 256,
        1 => id + 256 * (2 + rng.usize_below(200)),
        2 => id + (1 << 16),
        3 => id.wrapping_add(1usize << 32),
        _ => id.wrapping_add(usize::MAX - 255), // == id - 256 mod 2^64, i.e. id + k*256
    }
}

fn mutate_arr<const N: usize>(rng: &mut Rng64, a: &[u8; N]) -> [u8; N] {
    let mut b = *a;
    match rng.below(3) {
        0 => {
            let i = rng.usize_below(N);
            b[i] ^= 1 << rng.below(8);
        }
        1 => {
            b[N - 1] = b[N - 1].wrapping_add(1);
        }
        _ => {
            b = rng.array();
            if b == *a {
                b[0] ^= 1;
            }
        }
    }
    b
}

#[derive(Clone, Copy, Debug, PartialEq, Eq)]
enum Mis {
    /// all aggregators use a context different from the client's
    CtxAll,
    /// one aggregator uses a different context
    CtxOne,
    /// all aggregators use a nonce different from the sharding nonce (consistently)
    NonceAll,
    NonceOne,
    /// one aggregator uses a different verification key
    KeyOne,
    /// two helper shares are processed under each other's identifier (>= 3 aggregators)
    HelperIdsSwapped,
    /// one aggregator processes its own share under an identifier that is NOT its own but is congruent to
    /// it modulo 256 (or modulo 2^16 / 2^32): identifiers are not bytes
    IdAlias,
    /// aggregators run an instance with another algorithm identifier
    AlgId,
    /// aggregators run an instance with another number of proofs
    NumProofs,
    /// aggregators run an instance with another number of aggregators
    NumAggs,
}

struct V18<'a> {
    rng: &'a mut Rng64,
}

/// A visitor that receives a second instance (the aggregators' view) for instance-level mismatches.
struct Second<'b, V> {
    client: &'b V,
    key: [u8; 32],
    vctx: Vec<u8>,
    nonce: [u8; 16],
    psb: Vec<u8>,
    isb: Vec<Vec<u8>>,
    label: &'static str,
    desc: String,
    kname: &'static str,
    rng: Rng64,
}

impl<V> Prio3Visitor for Second<'_, V> {
    fn visit<T: Kinded, P: Xof<32>>(&mut self, ctx: &mut Ctx, _p: &Params, cfg2: &VdafCfg, vdaf2: Prio3<T, P, 32>)
    where
        T::Field: ZField,
    {
        let _ = self.client;
        let n = self.isb.len();
        // The aggregators process as many shares as their own instance expects when possible.
        let m = (cfg2.aggs as usize).min(n);
        let mut accepted = 0;
        for t in 0..4 {
            let key = if t == 0 { self.key } else { self.rng.array() };
            let mut st = WireStats::default();
            let mut an = None;
            let o = verify_report_simple::<_, 32>(&vdaf2, &key, &self.vctx, &(), &self.nonce, &self.psb, &self.isb[..m], &mut no_tamper, &mut st, &mut an);
            ctx.eval();
            if o.finished() {
                accepted += 1;
            } else {
                ctx.count(&format!("mismatch_rejected_{}", self.label));
                ctx.count(&format!("rejected_{}", o.stage()));
                break;
            }
        }
        if accepted == 4 {
            ctx.violation(format!("{}|accepted-under-mismatch|{}", self.kname, self.label),
                "verification completed although the aggregators run a different instance than the client",
                json!({"config": self.desc, "aggregator_cfg": format!("{cfg2:?}"), "mismatch": self.label}));
        } else if accepted > 0 {
            ctx.sporadic(64, format!("{}|accepted-under-mismatch|{}", self.kname, self.label), json!({"config": self.desc, "aggregator_cfg": format!("{cfg2:?}"), "mismatch": self.label, "accepted_of_4": accepted}));
        }
    }
}

impl Prio3Visitor for V18<'_> {
    fn visit<T: Kinded, P: Xof<32>>(&mut self, ctx: &mut Ctx, p: &Params, cfg: &VdafCfg, vdaf: Prio3<T, P, 32>)
    where
        T::Field: ZField,
    {
        let rng = &mut *self.rng;
        let k = p.kind.name();
        let desc = format!("{} aggs={} proofs={} xof={}", p.describe(), cfg.aggs, cfg.proofs, if cfg.hmac_xof { "hmac" } else { "turboshake" });
        let n = cfg.aggs as usize;
        let vctx = gen_ctx(rng, cfg.hmac_xof);
        let key: [u8; 32] = rng.array();
        let nonce: [u8; 16] = rng.array_edge();
        let m = p.gen_measurement(rng);
        let tape = rng.bytes(random_size(p, cfg));
        let (ps, shares) = match catch(|| vdaf.shard_with_random(&vctx, &T::meas(p, &m), &nonce, &tape)) {
            Ok(Ok(x)) => x,
            _ => {
                ctx.inconclusive(format!("honest shard failed for {desc}"));
                return;
            }
        };
        let psb = ps.get_encoded().unwrap();
        let isb: Vec<Vec<u8>> = shares.iter().map(|s| s.get_encoded().unwrap()).collect();
        let mut st = WireStats::default();
        let mut an = None;
        // positive control
        let honest = verify_report_simple::<_, 32>(&vdaf, &key, &vctx, &(), &nonce, &psb, &isb, &mut no_tamper, &mut st, &mut an);
        ctx.eval();
        let honest_out: Vec<Vec<u8>> = match honest {
            Outcome::Finished(o) => o.iter().map(|x| x.get_encoded().unwrap()).collect(),
            other => {
                ctx.inconclusive(format!("positive control failed ({}) for {desc}", other.stage()));
                return;
            }
        };
        ctx.count("positive_controls_accepted");
        ctx.nontrivial(digest_str(&desc));
        ctx.count(&format!("configs_{k}"));

        let mut kinds = vec![Mis::CtxAll, Mis::CtxOne, Mis::NonceAll, Mis::NonceOne, Mis::KeyOne];
        if n >= 3 {
            kinds.push(Mis::HelperIdsSwapped);
        }
        kinds.push(Mis::IdAlias);
        // single mismatches and pairs
        let mut combos: Vec<Vec<Mis>> = kinds.iter().map(|k| vec![*k]).collect();
        for _ in 0..3 {
            let a = *rng.choose(&kinds);
            let b = *rng.choose(&kinds);
            if a != b {
                combos.push(vec![a, b]);
            }
        }
        for combo in combos {
            let mut ctxs: Vec<Vec<u8>> = vec![vctx.clone(); n];
            let mut nonces: Vec<[u8; 16]> = vec![nonce; n];
            let mut keys: Vec<[u8; 32]> = vec![key; n];
            let mut ids: Vec<usize> = (0..n).collect();
            for mis in &combo {
                match mis {
                    Mis::CtxAll => {
                        let c = mutate_ctx(rng, &vctx, cfg.hmac_xof);
                        ctxs = vec![c; n];
                    }
                    Mis::CtxOne => {
                        let i = rng.usize_below(n);
                        ctxs[i] = mutate_ctx(rng, &ctxs[i].clone(), cfg.hmac_xof);
                    }
                    Mis::NonceAll => {
                        let nn = mutate_arr(rng, &nonce);
                        nonces = vec![nn; n];
                    }
                    Mis::NonceOne => {
                        let i = rng.usize_below(n);
                        nonces[i] = mutate_arr(rng, &nonces[i].clone());
                    }
                    Mis::KeyOne => {
                        let i = rng.usize_below(n);
                        keys[i] = mutate_arr(rng, &keys[i].clone());
                    }
                    Mis::HelperIdsSwapped => {
                        let a = 1 + rng.usize_below(n - 1);
                        let mut b = 1 + rng.usize_below(n - 1);
                        if a == b {
                            b = if a == 1 { 2 } else { 1 };
                        }
                        ids.swap(a, b);
                    }
                    Mis::IdAlias => {
                        let i = rng.usize_below(n);
                        ids[i] = alias_id(rng, ids[i]);
                    }
                    _ => {}
                }
            }
            // Is anything actually different from the honest execution?
            let effective = ctxs.iter().any(|c| *c != vctx) || nonces.iter().any(|x| *x != nonce) || keys.iter().any(|x| *x != keys[0]) || ids.iter().enumerate().any(|(i, x)| i != *x);
            if !effective {
                continue;
            }
            // Classify by the EFFECTIVE state (a later mismatch in a pair can override an earlier one).
            let nonce_all_only = ctxs.iter().all(|c| *c == vctx)
                && keys.iter().all(|x| *x == keys[0])
                && ids.iter().enumerate().all(|(i, x)| i == *x)
                && nonces.iter().all(|x| *x == nonces[0]);
            let label = combo.iter().map(|m| format!("{m:?}")).collect::<Vec<_>>().join("+");
            let run = |keys: &Vec<[u8; 32]>| {
                let kr: Vec<&[u8; 32]> = keys.iter().collect();
                let cr: Vec<&[u8]> = ctxs.iter().map(|c| c.as_slice()).collect();
                let nr: Vec<&[u8; 16]> = nonces.iter().collect();
                let mut st = WireStats::default();
                let mut an = None;
                verify_report::<_, 32>(&vdaf, &kr, &cr, &(), &nr, &ids, &psb, &isb, &mut no_tamper, &mut st, &mut an)
            };
            let o = run(&keys);
            ctx.eval();
            // The stated exception: a nonce substituted consistently at ALL aggregators, for a type
            // without joint randomness: honest output shares unchanged.
            if nonce_all_only && !p.kind.has_joint_rand() {
                match o {
                    Outcome::Finished(outs) => {
                        let ob: Vec<Vec<u8>> = outs.iter().map(|x| x.get_encoded().unwrap()).collect();
                        if ob != honest_out {
                            ctx.violation(format!("{k}|nonce-exception-output-changed"), "consistent nonce substitution (no joint randomness) changed the output shares",
                                json!({"config": desc, "measurement": p.meas_json(&m)}));
                        } else {
                            ctx.count("nonce_exception_unchanged_outputs");
                        }
                    }
                    other => ctx.violation(format!("{k}|nonce-exception-rejected"), "consistent nonce substitution for a type without joint randomness did not produce the honest output shares",
                        json!({"config": desc, "stage": other.stage()})),
                }
                continue;
            }
            match o {
                Outcome::Finished(_) => {
                    // confirm under three fresh keys, keeping the mismatch structure
                    let mut acc = 1;
                    for _ in 0..3 {
                        let base: [u8; 32] = rng.array();
                        let ks: Vec<[u8; 32]> = keys.iter().map(|kk| if *kk == key { base } else { mutate_arr(rng, &base) }).collect();
                        ctx.eval();
                        if run(&ks).finished() {
                            acc += 1;
                        } else {
                            break;
                        }
                    }
                    if acc == 4 {
                        ctx.violation(format!("{k}|accepted-under-mismatch|{label}"), "verification completed at all aggregators under a binding mismatch (4 independent keys)",
                            json!({"config": desc, "mismatch": label, "measurement": p.meas_json(&m), "ctx": hex_trunc(&vctx, 48), "agg_ctxs": ctxs.iter().map(|c| hex_trunc(c, 48)).collect::<Vec<_>>(),
                                   "nonce": hex(&nonce), "agg_nonces": nonces.iter().map(|x| hex(x)).collect::<Vec<_>>(), "ids": ids}));
                    } else {
                        ctx.sporadic(64, format!("{k}|accepted-under-mismatch|{label}"), json!({"config": desc, "mismatch": label, "accepted_of_4": acc, "nonce": hex(&nonce), "ctx": hex_trunc(&vctx, 48)}));
                    }
                }
                other => {
                    ctx.count(&format!("mismatch_rejected_{label}"));
                    ctx.count(&format!("rejected_{}", other.stage()));
                }
            }
        }
        // Instance-level mismatches: the aggregators run a different instance than the client.
        for mis in [Mis::AlgId, Mis::NumProofs, Mis::NumAggs] {
            let mut cfg2 = cfg.clone();
            let label = match mis {
                Mis::AlgId => {
                    cfg2.alg_id = match rng.below(3) {
                        0 => cfg.alg_id ^ 1,
                        1 => cfg.alg_id.wrapping_add(0x100),
                        _ => rng.u64() as u32 | 0x8000_0000,
                    };
                    if cfg2.alg_id == cfg.alg_id {
                        cfg2.alg_id ^= 2;
                    }
                    "AlgId"
                }
                Mis::NumProofs => {
                    cfg2.proofs = if cfg.proofs == 1 { 2 } else { cfg.proofs - 1 };
                    "NumProofs"
                }
                _ => {
                    cfg2.aggs = if cfg.aggs == 2 || rng.bool() { cfg.aggs + 1 } else { cfg.aggs - 1 };
                    "NumAggs"
                }
            };
            let mut second = Second { client: &vdaf, key, vctx: vctx.clone(), nonce, psb: psb.clone(), isb: isb.clone(), label, desc: desc.clone(), kname: k,
                rng: Rng64::derive(ctx.seed, &["c18-second"], rng.u64()) };
            let _ = with_prio3(ctx, p, &cfg2, &mut second);
        }
        ctx.sample(|| json!({"config": desc, "measurement": p.meas_json(&m)}));
    }
}

fn poplar(ctx: &mut Ctx) {
    let mut rng = ctx.rng("c18-poplar");
    let n = ctx.budget(8_000, 80_000) / ctx.nshards as u64;
    for _ in 0..n {
        let bits = *rng.choose(&[2usize, 16, 64]);
        let vdaf = Poplar1::new_turboshake128(bits);
        let vctx = gen_ctx(&mut rng, false);
        let key: [u8; 32] = rng.array();
        let nonce: [u8; 16] = rng.array_edge();
        let input: Vec<bool> = (0..bits).map(|_| rng.bool()).collect();
        let level = match rng.below(4) {
            0 => 0,
            1 => bits - 1,
            _ => rng.usize_below(bits),
        };
        let mut prefixes: Vec<Vec<bool>> = vec![input[..=level].to_vec()];
        for _ in 0..rng.usize_below(4) {
            prefixes.push((0..=level).map(|_| rng.bool()).collect());
        }
        prefixes.sort();
        prefixes.dedup();
        let ap = match Poplar1AggregationParam::try_from_prefixes(prefixes.iter().map(|p| IdpfInput::from_bools(p)).collect()) {
            Ok(a) => a,
            Err(_) => continue,
        };
        let (ps, shares) = match catch(|| vdaf.shard(&vctx, &IdpfInput::from_bools(&input), &nonce)) {
            Ok(Ok(x)) => x,
            _ => {
                ctx.inconclusive("Poplar1 honest shard failed (C03's domain)");
                return;
            }
        };
        let psb = ps.get_encoded().unwrap();
        let isb: Vec<Vec<u8>> = shares.iter().map(|s| s.get_encoded().unwrap()).collect();
        let mut st = WireStats::default();
        let mut an = None;
        let honest = verify_report_simple::<_, 32>(&vdaf, &key, &vctx, &ap, &nonce, &psb, &isb, &mut no_tamper, &mut st, &mut an);
        ctx.eval();
        if !honest.finished() {
            ctx.inconclusive(format!("Poplar1 positive control failed ({}) bits={bits} level={level} (C03's domain)", honest.stage()));
            continue;
        }
        ctx.count("poplar1_positive_controls");
        ctx.nontrivial(digest(&[b"poplar", &bits.to_le_bytes(), &level.to_le_bytes(), &nonce]));
        for mis in ["CtxAll", "CtxOne", "NonceAll", "NonceOne", "KeyOne", "SharesSwapped"] {
            let mut ctxs = vec![vctx.clone(); 2];
            let mut nonces = vec![nonce; 2];
            let mut keys = vec![key; 2];
            let mut shares_order = isb.clone();
            match mis {
                "CtxAll" => {
                    let c = mutate_ctx(&mut rng, &vctx, false);
                    ctxs = vec![c; 2];
                }
                "CtxOne" => {
                    let i = rng.usize_below(2);
                    ctxs[i] = mutate_ctx(&mut rng, &vctx, false);
                }
                "NonceAll" => {
                    let nn = mutate_arr(&mut rng, &nonce);
                    nonces = vec![nn; 2];
                }
                "NonceOne" => {
                    let i = rng.usize_below(2);
                    nonces[i] = mutate_arr(&mut rng, &nonce);
                }
                "KeyOne" => {
                    let i = rng.usize_below(2);
                    keys[i] = mutate_arr(&mut rng, &key);
                }
                _ => shares_order.swap(0, 1),
            }
            let run = |keys: &Vec<[u8; 32]>| {
                let kr: Vec<&[u8; 32]> = keys.iter().collect();
                let cr: Vec<&[u8]> = ctxs.iter().map(|c| c.as_slice()).collect();
                let nr: Vec<&[u8; 16]> = nonces.iter().collect();
                let mut st = WireStats::default();
                let mut an = None;
                verify_report::<_, 32>(&vdaf, &kr, &cr, &ap, &nr, &[0, 1], &psb, &shares_order, &mut no_tamper, &mut st, &mut an)
            };
            ctx.eval();
            match run(&keys) {
                Outcome::Finished(_) => {
                    let mut acc = 1;
                    for _ in 0..3 {
                        let base: [u8; 32] = rng.array();
                        let ks: Vec<[u8; 32]> = keys.iter().map(|kk| if *kk == key { base } else { mutate_arr(&mut rng, &base) }).collect();
                        ctx.eval();
                        if run(&ks).finished() {
                            acc += 1;
                        } else {
                            break;
                        }
                    }
                    if acc == 4 {
                        ctx.violation(format!("Poplar1|accepted-under-mismatch|{mis}"), "Poplar1 verification completed under a binding mismatch (4 independent keys)",
                            json!({"bits": bits, "level": level, "mismatch": mis, "nonce": hex(&nonce), "ctx": hex_trunc(&vctx, 48), "prefixes": prefixes.len()}));
                    } else {
                        ctx.sporadic(64, format!("Poplar1|accepted-under-mismatch|{mis}"), json!({"bits": bits, "level": level, "mismatch": mis, "accepted_of_4": acc, "nonce": hex(&nonce)}));
                    }
                }
                other => {
                    ctx.count(&format!("poplar1_mismatch_rejected_{mis}"));
                    ctx.count(&format!("rejected_{}", other.stage()));
                }
            }
        }
    }
}


// ---------------------------------------------------------------------------------------------
// Other XOF instantiation: Prio3 over XofFixedKeyAes128 with 16-byte seeds
// ---------------------------------------------------------------------------------------------

/// The binding matrix for an arbitrary Prio3 instantiation (any XOF / seed size), driven through the public
/// `Client` / `Aggregator` traits only. `jr` = the type uses joint randomness.
fn binding_matrix<V, const S: usize>(ctx: &mut Ctx, rng: &mut Rng64, name: &str, vdaf: &V, meas: &V::Measurement, jr: bool, n: usize)
where
    V: Aggregator<S, 16, AggregationParam = ()> + Client<16>,
    V::OutputShare: Encode,
{
    let vctx: Vec<u8> = match rng.below(3) {
        0 => vec![],
        1 => b"c18 task".to_vec(),
        _ => {
            let l = 1 + rng.usize_below(40);
            rng.bytes(l)
        }
    };
    let key: [u8; S] = rng.array();
    let nonce: [u8; 16] = rng.array_edge();
    let Ok(Ok((ps, shares))) = catch(|| vdaf.shard(&vctx, meas, &nonce)) else {
        ctx.inconclusive(format!("honest shard failed for {name}"));
        return;
    };
    let psb = ps.get_encoded().unwrap();
    let isb: Vec<Vec<u8>> = shares.iter().map(|s| s.get_encoded().unwrap()).collect();
    let mut st = WireStats::default();
    let mut an = None;
    let honest = verify_report_simple::<V, S>(vdaf, &key, &vctx, &(), &nonce, &psb, &isb, &mut no_tamper, &mut st, &mut an);
    ctx.eval();
    let honest_out: Vec<Vec<u8>> = match honest {
        Outcome::Finished(o) => o.iter().map(|x| x.get_encoded().unwrap()).collect(),
        other => {
            ctx.inconclusive(format!("positive control failed ({}) for {name}", other.stage()));
            return;
        }
    };
    ctx.count("other_xof_positive_controls");
    ctx.nontrivial(digest_str(&format!("other-xof|{name}|{n}")));
    let mut kinds = vec!["CtxAll", "CtxOne", "NonceAll", "NonceOne", "KeyOne", "IdAlias"];
    if n >= 3 {
        kinds.push("HelperIdsSwapped");
    }
    for mis in kinds {
        let mut ctxs: Vec<Vec<u8>> = vec![vctx.clone(); n];
        let mut nonces: Vec<[u8; 16]> = vec![nonce; n];
        let mut keys: Vec<[u8; S]> = vec![key; n];
        let mut ids: Vec<usize> = (0..n).collect();
        match mis {
            "CtxAll" => {
                let c = mutate_ctx(rng, &vctx, false);
                ctxs = vec![c; n];
            }
            "CtxOne" => {
                let i = rng.usize_below(n);
                ctxs[i] = mutate_ctx(rng, &vctx, false);
            }
            "NonceAll" => {
                let nn = mutate_arr(rng, &nonce);
                nonces = vec![nn; n];
            }
            "NonceOne" => {
                let i = rng.usize_below(n);
                nonces[i] = mutate_arr(rng, &nonce);
            }
            "KeyOne" => {
                let i = rng.usize_below(n);
                keys[i] = mutate_arr(rng, &key);
            }
            "IdAlias" => {
                let i = rng.usize_below(n);
                ids[i] = alias_id(rng, i);
            }
            _ => ids.swap(1, 2),
        }
        let run = |keys: &Vec<[u8; S]>| {
            let kr: Vec<&[u8; S]> = keys.iter().collect();
            let cr: Vec<&[u8]> = ctxs.iter().map(|c| c.as_slice()).collect();
            let nr: Vec<&[u8; 16]> = nonces.iter().collect();
            let mut st = WireStats::default();
            let mut an = None;
            verify_report::<V, S>(vdaf, &kr, &cr, &(), &nr, &ids, &psb, &isb, &mut no_tamper, &mut st, &mut an)
        };
        ctx.eval();
        let o = run(&keys);
        if mis == "NonceAll" && !jr {
            match o {
                Outcome::Finished(outs) => {
                    let ob: Vec<Vec<u8>> = outs.iter().map(|x| x.get_encoded().unwrap()).collect();
                    if ob != honest_out {
                        ctx.violation(format!("{name}|nonce-exception-output-changed"), "consistent nonce substitution (no joint randomness) changed the output shares", json!({"instance": name}));
                    } else {
                        ctx.count("nonce_exception_unchanged_outputs");
                    }
                }
                other => ctx.violation(format!("{name}|nonce-exception-rejected"), "consistent nonce substitution for a type without joint randomness did not produce the honest output shares",
                    json!({"instance": name, "stage": other.stage()})),
            }
            continue;
        }
        match o {
            Outcome::Finished(_) => {
                let mut acc = 1;
                for _ in 0..3 {
                    let base: [u8; S] = rng.array();
                    let ks: Vec<[u8; S]> = keys.iter().map(|kk| if *kk == key { base } else { mutate_arr(rng, &base) }).collect();
                    ctx.eval();
                    if run(&ks).finished() {
                        acc += 1;
                    } else {
                        break;
                    }
                }
                let wit = json!({"instance": name, "aggregators": n, "mismatch": mis, "accepted_of_4": acc, "nonce": hex(&nonce), "ctx": hex_trunc(&vctx, 48), "ids": ids});
                if acc == 4 {
                    ctx.violation(format!("{name}|accepted-under-mismatch|{mis}"), "verification completed at all aggregators under a binding mismatch (4 independent keys)", wit);
                } else {
                    ctx.sporadic(64, format!("{name}|accepted-under-mismatch|{mis}"), wit);
                }
            }
            other => {
                ctx.count(&format!("other_xof_mismatch_rejected_{mis}"));
                ctx.count(&format!("rejected_{}", other.stage()));
            }
        }
    }
}

/// Prio3 instantiated over the crate's other XOF with a different seed size: `XofFixedKeyAes128`, 16-byte seeds
/// and verification keys (the binder of its `Xof` implementation is fed in many `update` calls: aggregator id,
/// nonce, then one per share element).
fn other_xof(ctx: &mut Ctx) {
    use prio::field::{Field128, Field64};
    use prio::flp::gadgets::{Mul, ParallelSum};
    use prio::flp::types::{Count, Histogram, Sum, SumVec};
    use prio::vdaf::xof::XofFixedKeyAes128;
    let mut rng = ctx.rng("c18-other-xof");
    let rounds = ctx.budget(640, 16_000) / ctx.nshards as u64;
    for i in 0..rounds {
        let n = 2 + (i % 3) as usize;
        let proofs = 1 + ((i / 3) % 2) as u8;
        match i % 4 {
            0 => {
                let len = 2 + rng.usize_below(12);
                let chunk = 1 + rng.usize_below(len);
                let Ok(t) = Histogram::<Field128, ParallelSum<Field128, Mul>>::new(len, chunk) else { continue };
                let Ok(v) = Prio3::<_, XofFixedKeyAes128, 16>::new(n as u8, proofs, 0xFFFF_1001, t) else { continue };
                let m = rng.usize_below(len);
                binding_matrix::<_, 16>(ctx, &mut rng, "FixedKeyAes128/Histogram", &v, &m, true, n);
            }
            1 => {
                let len = 1 + rng.usize_below(10);
                let bits = 1 + rng.usize_below(6);
                let max = (1u128 << bits) - 1;
                let chunk = 1 + rng.usize_below(len * bits);
                let Ok(t) = SumVec::<Field128, ParallelSum<Field128, Mul>>::new(max, len, chunk) else { continue };
                let Ok(v) = Prio3::<_, XofFixedKeyAes128, 16>::new(n as u8, proofs, 0xFFFF_1002, t) else { continue };
                let m: Vec<u128> = (0..len).map(|_| rng.u128() % (max + 1)).collect();
                binding_matrix::<_, 16>(ctx, &mut rng, "FixedKeyAes128/SumVec", &v, &m, true, n);
            }
            2 => {
                let Ok(v) = Prio3::<_, XofFixedKeyAes128, 16>::new(n as u8, proofs, 0xFFFF_1003, Count::<Field64>::new()) else { continue };
                let m = rng.bool();
                binding_matrix::<_, 16>(ctx, &mut rng, "FixedKeyAes128/Count", &v, &m, false, n);
            }
            _ => {
                let max = 1 + rng.u64() % 1000;
                let Ok(t) = Sum::<Field64>::new(max) else { continue };
                let Ok(v) = Prio3::<_, XofFixedKeyAes128, 16>::new(n as u8, proofs, 0xFFFF_1004, t) else { continue };
                let m = rng.u64() % (max + 1);
                binding_matrix::<_, 16>(ctx, &mut rng, "FixedKeyAes128/Sum", &v, &m, false, n);
            }
        }
    }
}

pub fn run(ctx: &mut Ctx) {
    let mut rng = ctx.rng("c18");
    let n_cfg = ctx.budget(16_000, 160_000) / ctx.nshards as u64;
    for i in 0..n_cfg {
        let kind = Kind::ALL[(i as usize + ctx.shard) % Kind::ALL.len()];
        // One configuration in eight is LONG (encoded measurement of several hundred elements, beyond 256 and 512):
        // a binding that is only dropped on a batched / streamed path for long shares is invisible below that.
        let p = gen_params(&mut rng, kind, if i % 8 == 5 { 900 } else { 80 });
        let mut cfg = gen_cfg(&mut rng, kind, false);
        cfg.aggs = match rng.below(6) {
            0 | 1 => 2,
            2 | 3 => 3,
            4 => 4,
            _ => 2 + rng.below(5) as u8,
        };
        cfg.proofs = cfg.proofs.min(3);
        let mut rng2 = Rng64::derive(ctx.seed, &["c18-case"], i * 4441 + ctx.shard as u64);
        let mut v = V18 { rng: &mut rng2 };
        if let Err(e) = with_prio3(ctx, &p, &cfg, &mut v) {
            ctx.inconclusive(format!("constructor refused {}: {e}", p.describe()));
        }
    }
    poplar(ctx);
    other_xof(ctx);
}
