//! C19: Prio2 — honestly sharded 0/1 vectors are accepted by both aggregators and aggregate to
//! their element-wise sum; vectors with any other entry and shares / proofs altered in any element
//! are rejected (up to the soundness error of the 32-bit field); the query point chosen by the
//! aggregators is never an interpolation node; shares, verifier shares and states round-trip
//! through their encodings.
//!
//! Oracles
//! * plain-integer element-wise sums (mod p) of the generated measurements;
//! * "must be rejected" = any `Err` before an output share is produced. An unexpected ACCEPTANCE is
//!   re-verified under three fresh independent (verify key, nonce) pairs; only 3/3 acceptances are
//!   violations (and only if the harness' own proof-validity model, `ref_valid`, agrees that the
//!   artefact is not a valid proof); single acceptances are counted as `soundness_flukes`;
//! * query point: the candidate sequence is recomputed from public pieces
//!   (HMAC-SHA256(key, nonce) -> AES-128-CTR key||iv -> 4-byte little-endian words, words >= p
//!   discarded); `verify_init` must behave exactly like `verify_init_with_query_rand(r, ..)` for r
//!   the first candidate with r^(2n) != 1. If it does not, the point actually used is identified
//!   (skipped candidates first, then algebraic recovery from two probe shares) and a violation is
//!   raised only when that point is a 2n-th root of unity;
//! * every share, verifier share, state, output share and aggregate share crosses
//!   encode -> decode -> re-encode on every execution.

use crate::common::*;
use crate::proto::{enc, Outcome};
use ctr::cipher::{KeyIvInit, StreamCipher};
use hmac::{Hmac, KeyInit, Mac};
use prio::codec::{Decode, Encode, ParameterizedDecode};
use prio::field::{FieldPrio2, NttFriendlyFieldElement};
use prio::vdaf::prio2::{Prio2, Prio2VerifierShare, Prio2VerifierState};
use prio::vdaf::xof::Seed;
use prio::vdaf::{AggregateShare, Aggregator, Client, Collector, OutputShare, Share, VerifyTransition};
use serde_json::{json, Value};
use sha2::Sha256;

pub const P: u64 = 4_293_918_721;
/// p - 1 = 2^20 * 4095
const TWO_ADICITY: u32 = 20;

// ---------------------------------------------------------------------------------------------
// Harness-side arithmetic mod p (u64) and reference models
// ---------------------------------------------------------------------------------------------

#[inline]
fn fadd(a: u64, b: u64) -> u64 {
    let s = a + b;
    if s >= P {
        s - P
    } else {
        s
    }
}
#[inline]
fn fsub(a: u64, b: u64) -> u64 {
    if a >= b {
        a - b
    } else {
        a + P - b
    }
}
#[inline]
fn fmul(a: u64, b: u64) -> u64 {
    (a * b) % P
}
fn fpow(mut a: u64, mut e: u64) -> u64 {
    let mut r = 1u64;
    while e > 0 {
        if e & 1 == 1 {
            r = fmul(r, a);
        }
        a = fmul(a, a);
        e >>= 1;
    }
    r
}
fn finv(a: u64) -> u64 {
    fpow(a, P - 2)
}

fn fe(v: u64) -> FieldPrio2 {
    FieldPrio2::from((v % P) as u32)
}
fn fv(x: FieldPrio2) -> u64 {
    u32::from(x) as u64
}

/// Panic class for signatures: file + message with every run of digits collapsed to one '#', and
/// any directory prefix up to "src/" removed (so a scratch copy of the crate gives the same class).
pub fn pclass(p: &PanicInfo) -> String {
    let c = p.class();
    let c = match c.find("src/") {
        Some(i) => c[i..].to_string(),
        None => c,
    };
    let mut out = String::with_capacity(c.len());
    for ch in c.chars() {
        if ch == '#' && out.ends_with('#') {
            continue;
        }
        out.push(ch);
    }
    out
}

/// `ctx.inconclusive` without duplicates.
fn inc_once(ctx: &mut Ctx, msg: &str) {
    if !ctx.inconclusive.iter().any(|m| m == msg) {
        ctx.inconclusive(msg);
    }
}

pub fn n_of(input_len: usize) -> usize {
    (input_len + 1).next_power_of_two()
}
pub fn proof_len(input_len: usize) -> usize {
    input_len + 3 + n_of(input_len)
}

/// Argument class of a length for signatures (lengths straddling a power of two matter most).
pub fn len_class(l: usize) -> &'static str {
    if l == 0 {
        "len=0"
    } else if (l + 1).is_power_of_two() {
        "len=2^k-1"
    } else if l.is_power_of_two() {
        "len=2^k"
    } else if (l - 1).is_power_of_two() {
        "len=2^k+1"
    } else {
        "len=other"
    }
}

/// Spec-level Prio2 pseudorandom field elements: AES-128-CTR (64-bit big-endian counter) keyed with
/// seed[..16], iv seed[16..]; consecutive 4-byte little-endian words, words >= p discarded.
pub struct RefStream {
    cipher: ctr::Ctr64BE<aes::Aes128>,
    buf: [u8; 64],
    pos: usize,
}

impl RefStream {
    pub fn new(seed: &[u8; 32]) -> Self {
        let key: [u8; 16] = seed[..16].try_into().unwrap();
        let iv: [u8; 16] = seed[16..].try_into().unwrap();
        RefStream { cipher: <ctr::Ctr64BE<aes::Aes128> as KeyIvInit>::new((&key).into(), (&iv).into()), buf: [0; 64], pos: 64 }
    }
    /// Next raw word and whether it is a field element.
    fn next_word(&mut self) -> u32 {
        if self.pos == 64 {
            self.buf = [0; 64];
            self.cipher.apply_keystream(&mut self.buf);
            self.pos = 0;
        }
        let w = u32::from_le_bytes(self.buf[self.pos..self.pos + 4].try_into().unwrap());
        self.pos += 4;
        w
    }
    pub fn next_elem(&mut self) -> u64 {
        loop {
            let w = self.next_word() as u64;
            if w < P {
                return w;
            }
        }
    }
}

pub fn ref_expand(seed: &[u8; 32], len: usize) -> Vec<u64> {
    let mut s = RefStream::new(seed);
    (0..len).map(|_| s.next_elem()).collect()
}

pub fn query_seed(key: &[u8; 32], nonce: &[u8; 16]) -> [u8; 32] {
    let mut mac = <Hmac<Sha256> as KeyInit>::new_from_slice(key).unwrap();
    mac.update(nonce);
    mac.finalize().into_bytes().into()
}

/// Reference query point: first candidate r with r^(2n) != 1, plus the candidates skipped before it.
pub fn ref_query_point(key: &[u8; 32], nonce: &[u8; 16], two_n: u64) -> (u64, Vec<u64>) {
    let mut s = RefStream::new(&query_seed(key, nonce));
    let mut skipped = vec![];
    loop {
        let c = s.next_elem();
        if fpow(c, two_n) != 1 {
            return (c, skipped);
        }
        skipped.push(c);
        if skipped.len() > 64 {
            // cannot happen for a pseudorandom stream; keep the loop total
            return (c, skipped);
        }
    }
}

/// The library's principal 2^l-th root of unity (a convention, not a correctness matter), with its
/// order verified by the harness arithmetic.
fn root_of_unity(l: u32) -> Option<u64> {
    let w = fv(FieldPrio2::root(l as usize)?);
    let ok = if l == 0 { w == 1 } else { fpow(w, 1 << l) == 1 && fpow(w, 1 << (l - 1)) == P - 1 };
    if ok {
        Some(w)
    } else {
        None
    }
}

/// Value at `x` of the polynomial of degree < N taking values `vals[k]` at w^k (w a principal N-th
/// root of unity), by direct Lagrange/barycentric evaluation; `x` must not be an N-th root.
fn ref_interp_eval(vals: &[u64], w: u64, x: u64) -> u64 {
    let n = vals.len() as u64;
    let mut acc = 0u64;
    let mut wk = 1u64;
    for v in vals {
        if *v != 0 {
            acc = fadd(acc, fmul(fmul(*v, wk), finv(fsub(x, wk))));
        }
        wk = fmul(wk, w);
    }
    fmul(fmul(fsub(fpow(x, n), 1), finv(n % P)), acc)
}

/// Harness model of "this (data || f0 g0 h0 || h-points) vector is a valid Prio2 proof of a 0/1
/// vector": data binary and f*g == h, where f, g interpolate (f0, data, 0..), (g0, data-1, 0..) on
/// the n-th roots and h takes h0 at 1, 0 at the other n-th roots and the packed values at the odd
/// powers of the 2n-th root. The polynomial identity (degree < 2n) is decided at 2n+1 = more than
/// deg points for small n and at 8 fixed pseudorandom points otherwise (error <= (2n/p)^8).
/// Used ONLY to triage unexpected acceptances and as a self-check, never as a source of alarms.
pub fn ref_valid(input_len: usize, v: &[u64]) -> Option<bool> {
    let n = n_of(input_len);
    if v.len() != proof_len(input_len) {
        return Some(false);
    }
    let l = n.trailing_zeros();
    let wn = root_of_unity(l)?;
    let w2n = root_of_unity(l + 1)?;
    let data = &v[..input_len];
    let binary = data.iter().all(|x| *x <= 1);
    let mut fp = vec![0u64; n];
    let mut gp = vec![0u64; n];
    fp[0] = v[input_len];
    gp[0] = v[input_len + 1];
    for (i, d) in data.iter().enumerate() {
        fp[i + 1] = *d;
        gp[i + 1] = fsub(*d, 1);
    }
    let mut hp = vec![0u64; 2 * n];
    hp[0] = v[input_len + 2];
    for (j, x) in v[input_len + 3..].iter().enumerate() {
        hp[2 * j + 1] = *x;
    }
    let mut pts = vec![];
    let mut rng = Rng64::new(0xC19_0000 + n as u64);
    let want = if n <= 16 { 2 * n + 1 } else { 8 };
    while pts.len() < want {
        let x = rng.below(P);
        if fpow(x, 2 * n as u64) != 1 && !pts.contains(&x) {
            pts.push(x);
        }
    }
    let mut identity = true;
    for x in pts {
        let f = ref_interp_eval(&fp, wn, x);
        let g = ref_interp_eval(&gp, wn, x);
        let h = ref_interp_eval(&hp, w2n, x);
        if fmul(f, g) != h {
            identity = false;
            break;
        }
    }
    Some(binary && identity)
}

// ---------------------------------------------------------------------------------------------
// One report through both aggregators, every object across its wire encoding
// ---------------------------------------------------------------------------------------------

type Sh = Share<FieldPrio2, 32>;
type Out = OutputShare<FieldPrio2>;

macro_rules! guard {
    ($stage:expr, $e:expr) => {
        match catch(|| $e) {
            Ok(Ok(v)) => v,
            Ok(Err(e)) => return Outcome::Rejected($stage, e.to_string()),
            Err(p) => return Outcome::Panicked($stage, p),
        }
    };
}

/// Codec anomalies seen while running (what, detail).
#[derive(Default)]
pub struct Codec {
    pub anomalies: Vec<(String, String)>,
    pub roundtrips: u64,
}

impl Codec {
    fn bad(&mut self, what: &str, detail: String) {
        if self.anomalies.len() < 8 {
            self.anomalies.push((what.to_string(), detail));
        }
    }
    fn enc<T: Encode>(&mut self, what: &str, x: &T) -> Vec<u8> {
        let mut a = None;
        let b = enc(x, &mut a);
        if let Some(a) = a {
            self.bad(what, a);
        }
        b
    }
}

/// Alteration of a verifier share in transit: (aggregator, element 0..3, delta).
pub type VsTamper = Option<(usize, usize, u64)>;

/// Query-point observation for one report.
pub struct QpObs {
    /// verifier-share bytes produced by `verify_init` per aggregator (before any tampering)
    pub vshare: [Vec<u8>; 2],
    /// does `verify_init` equal `verify_init_with_query_rand(r_ref)` for each aggregator?
    pub matches_model: [Option<bool>; 2],
}

#[allow(clippy::too_many_arguments)]
pub fn run_report(
    vdaf: &Prio2,
    key: &[u8; 32],
    actx: &[u8],
    nonce: &[u8; 16],
    shares: &[Sh; 2],
    vs_tamper: VsTamper,
    r_ref: Option<u64>,
    codec: &mut Codec,
    qp: &mut Option<QpObs>,
) -> Outcome<Out> {
    let mut states = vec![];
    let mut vshares = vec![];
    let mut obs = QpObs { vshare: [vec![], vec![]], matches_model: [None, None] };
    for j in 0..2 {
        let b = codec.enc("input-share", &shares[j]);
        let share = guard!("decode-input-share", Sh::get_decoded_with_param(&(vdaf, j), &b));
        codec.roundtrips += 1;
        if share != shares[j] {
            codec.bad("input-share", format!("decode(encode(x)) != x for aggregator {j}"));
        }
        if share.get_encoded().ok().as_deref() != Some(&b[..]) {
            codec.bad("input-share", format!("re-encoding differs for aggregator {j}"));
        }
        let (st, vs) = guard!("verify_init", vdaf.verify_init(key, actx, j, &(), nonce, &(), &share));
        // state round trip
        let sb = codec.enc("verifier-state", &st);
        match catch(|| Prio2VerifierState::get_decoded_with_param(&(vdaf, j), &sb)) {
            Ok(Ok(st2)) => {
                codec.roundtrips += 1;
                if st2 != st {
                    codec.bad("verifier-state", format!("decode(encode(state)) != state for aggregator {j}"));
                }
                if st2.get_encoded().ok().as_deref() != Some(&sb[..]) {
                    codec.bad("verifier-state", format!("re-encoding differs for aggregator {j}"));
                }
                states.push(st2);
            }
            Ok(Err(e)) => {
                codec.bad("verifier-state", format!("own encoding refused by the decoder (aggregator {j}): {e}"));
                states.push(st.clone());
            }
            Err(p) => {
                codec.bad("verifier-state", format!("decoder panicked on own encoding (aggregator {j}): {} at {}", p.message, p.location));
                states.push(st.clone());
            }
        }
        let mut vb = codec.enc("verifier-share", &vs);
        obs.vshare[j] = vb.clone();
        if let Some(r) = r_ref {
            match catch(|| vdaf.verify_init_with_query_rand(fe(r), &share, j == 0)) {
                Ok(Ok((st_m, vs_m))) => {
                    let same = vs_m.get_encoded().ok().as_deref() == Some(&vb[..]) && st_m == st;
                    obs.matches_model[j] = Some(same);
                }
                _ => obs.matches_model[j] = Some(false),
            }
        }
        if let Some((a, el, delta)) = vs_tamper {
            if a == j && vb.len() == 12 {
                let cur = u32::from_le_bytes(vb[4 * el..4 * el + 4].try_into().unwrap()) as u64;
                let new = fadd(cur % P, delta % P) as u32;
                vb[4 * el..4 * el + 4].copy_from_slice(&new.to_le_bytes());
            }
        }
        let vs2 = guard!("decode-verifier-share", Prio2VerifierShare::get_decoded_with_param(&states[j], &vb));
        codec.roundtrips += 1;
        if vs2.get_encoded().ok().as_deref() != Some(&vb[..]) {
            codec.bad("verifier-share", format!("re-encoding differs for aggregator {j}"));
        }
        if vb.len() != 3 * 4 {
            codec.bad("verifier-share", format!("verifier share is {} bytes, not three field elements", vb.len()));
        }
        vshares.push(vs2);
    }
    *qp = Some(obs);
    guard!("verifier_shares_to_message", vdaf.verifier_shares_to_message(actx, &(), vshares));
    let mut outs = vec![];
    for (j, st) in states.into_iter().enumerate() {
        match guard!("verify_next", vdaf.verify_next(actx, st, ())) {
            VerifyTransition::Finish(o) => {
                let ob = codec.enc("output-share", &o);
                let o2 = guard!("decode-output-share", Out::get_decoded_with_param(&(vdaf, &()), &ob));
                codec.roundtrips += 1;
                if o2 != o {
                    codec.bad("output-share", format!("decode(encode(x)) != x for aggregator {j}"));
                }
                outs.push(o2);
            }
            VerifyTransition::Continue(..) => return Outcome::Desync("Prio2 asked for a second round".into()),
        }
    }
    Outcome::Finished(outs)
}

fn share_hex(shares: &[Sh; 2]) -> Value {
    let l = shares[0].get_encoded().unwrap_or_default();
    let h = shares[1].get_encoded().unwrap_or_default();
    json!({"leader_share": hex_trunc(&l, 8192), "helper_share": hex(&h)})
}

fn meas_json(m: &[u32]) -> Value {
    if m.len() <= 128 {
        json!(m)
    } else {
        let nz: Vec<(usize, u32)> = m.iter().enumerate().filter(|(_, x)| **x > 1).map(|(i, x)| (i, *x)).take(8).collect();
        json!({"len": m.len(), "ones": m.iter().filter(|x| **x == 1).count(), "non_binary_entries": nz, "head": m[..32]})
    }
}

fn leader_vec(s: &Sh) -> Vec<u64> {
    match s {
        Share::Leader(v) => v.iter().map(|x| fv(*x)).collect(),
        Share::Helper(_) => vec![],
    }
}

fn helper_seed(s: &Sh) -> [u8; 32] {
    match s {
        Share::Helper(seed) => *seed.as_ref(),
        Share::Leader(_) => [0; 32],
    }
}

fn mk_shares(leader: &[u64], seed: &[u8; 32]) -> [Sh; 2] {
    [Share::Leader(leader.iter().map(|x| fe(*x)).collect()), Share::Helper(Seed::<32>::get_decoded(seed).unwrap())]
}

/// leader + PRG(helper seed): the proof vector in the clear (as long as the leader share is).
fn combined(shares: &[Sh; 2]) -> Vec<u64> {
    let l = leader_vec(&shares[0]);
    let h = ref_expand(&helper_seed(&shares[1]), l.len());
    l.iter().zip(h.iter()).map(|(a, b)| fadd(*a, *b)).collect()
}

/// Number of elements of a leader share of this instance: the packing model's, unless the
/// library's own decoder refuses that length (then: whatever the client produces).
fn leader_len(vdaf: &Prio2, input_len: usize) -> usize {
    let model = proof_len(input_len);
    if let Ok(Ok(_)) = catch(|| Sh::get_decoded_with_param(&(vdaf, 0), &vec![0u8; 4 * model])) {
        return model;
    }
    match catch(|| vdaf.shard(b"", &vec![0u32; input_len], &[0u8; 16])) {
        Ok(Ok((_, v))) if !v.is_empty() => leader_vec(&v[0]).len().max(input_len + 4),
        _ => model,
    }
}

fn segment(input_len: usize, i: usize) -> &'static str {
    if i < input_len {
        "data"
    } else if i == input_len {
        "f0"
    } else if i == input_len + 1 {
        "g0"
    } else if i == input_len + 2 {
        "h0"
    } else if i < proof_len(input_len) {
        "h-point"
    } else {
        "trailing-element"
    }
}

// ---------------------------------------------------------------------------------------------
// Driver state
// ---------------------------------------------------------------------------------------------

struct D<'a> {
    ctx: &'a mut Ctx,
    rng: Rng64,
    prg_selfcheck_failed: bool,
    model_selfcheck_failed: bool,
}

impl D<'_> {
    fn report_codec(&mut self, codec: &mut Codec, input_len: usize, report: Option<(&[u8; 32], &[u8; 16], &[Sh; 2])>) {
        self.ctx.count_n("codec_roundtrips", codec.roundtrips);
        codec.roundtrips = 0;
        for (what, detail) in codec.anomalies.drain(..) {
            let w = match report {
                Some((key, nonce, shares)) => json!({"input_len": input_len, "detail": detail, "verify_key": hex(key), "nonce": hex(nonce), "shares": share_hex(shares)}),
                None => json!({"input_len": input_len, "detail": detail}),
            };
            self.ctx.violation(format!("codec|{what}|{}", len_class(input_len)), format!("{what} does not round-trip through its encoding"), w);
        }
    }

    /// Identify the query point actually used when `verify_init` did not behave like the model.
    /// Returns Some(r) when a point was identified whose behaviour reproduces verify_init exactly.
    #[allow(clippy::too_many_arguments)]
    fn diagnose_query_point(&mut self, vdaf: &Prio2, input_len: usize, key: &[u8; 32], nonce: &[u8; 16], share: &Sh, j: usize, vshare: &[u8], skipped: &[u64]) -> Option<u64> {
        let same = |r: u64, s: &Sh, want: &[u8]| -> bool {
            match catch(|| vdaf.verify_init_with_query_rand(fe(r), s, j == 0)) {
                Ok(Ok((_, vs))) => vs.get_encoded().ok().as_deref() == Some(want),
                _ => false,
            }
        };
        // An independent probe share (random leader vector) verified under the same key/nonce: the
        // query point does not depend on the share.
        let mut prng = Rng64::derive(self.ctx.seed, &["c19-probe"], input_len as u64);
        let plen = leader_len(vdaf, input_len);
        let probe: Sh = Share::Leader((0..plen).map(|_| fe(prng.below(P))).collect());
        let probe_vs = match catch(|| vdaf.verify_init(key, b"", 0, &(), nonce, &(), &probe)) {
            Ok(Ok((_, vs))) => vs.get_encoded().unwrap_or_default(),
            _ => return None,
        };
        let same_probe = |r: u64| -> bool {
            match catch(|| vdaf.verify_init_with_query_rand(fe(r), &probe, true)) {
                Ok(Ok((_, vs))) => vs.get_encoded().ok().as_deref() == Some(&probe_vs[..]),
                _ => false,
            }
        };
        for c in skipped {
            if same(*c, share, vshare) && same_probe(*c) {
                return Some(*c);
            }
        }
        // Algebraic recovery. n = 1: h(x) = (h0 + hp)/2 + (h0 - hp)/2 x, so h0 = 1, hp = -1 gives h(r) = r.
        let n = n_of(input_len);
        let r = if n == 1 {
            let s: Sh = Share::Leader(vec![fe(0), fe(0), fe(1), fe(P - 1)]);
            let (_, vs) = catch(|| vdaf.verify_init(key, b"", 0, &(), nonce, &(), &s)).ok()?.ok()?;
            let b = vs.get_encoded().ok()?;
            u32::from_le_bytes(b[8..12].try_into().ok()?) as u64
        } else {
            // f with points (1,0,..) is L0(r) = (r^n-1)/(n(r-1)); with points (0,1,0,..) it is
            // L1(r) = w(r^n-1)/(n(r-w)); q = L1/L0 = w(r-1)/(r-w)  =>  r = w(q-1)/(q-w).
            let w = root_of_unity(n.trailing_zeros())?;
            let mut a = vec![fe(0); plen];
            a[input_len] = fe(1);
            let mut b = vec![fe(0); plen];
            b[0] = fe(1);
            let fr = |s: Vec<FieldPrio2>| -> Option<u64> {
                let (_, vs) = catch(|| vdaf.verify_init(key, b"", 1, &(), nonce, &(), &Share::Leader(s))).ok()?.ok()?;
                let e = vs.get_encoded().ok()?;
                Some(u32::from_le_bytes(e[0..4].try_into().ok()?) as u64)
            };
            let l0 = fr(a)?;
            let l1 = fr(b)?;
            if l0 == 0 && l1 == 0 {
                // Both probe polynomials vanish: only possible on the n-th roots other than 1 and w.
                // A third probe with f-points (1, 2, 3, .., input_len + 1, 0, ..) reads off which
                // one: f(w^k) = k + 1 for k <= input_len and 0 on the padding nodes (where every
                // polynomial of every share vanishes, so any padding node reproduces verify_init).
                let mut c = vec![fe(0); plen];
                c[input_len] = fe(1);
                for k in 1..=input_len {
                    c[k - 1] = fe(k as u64 + 1);
                }
                let v = fr(c)?;
                let k = if v == 0 { input_len as u64 + 1 } else { v - 1 };
                if k >= n as u64 {
                    return None;
                }
                fpow(w, k)
            } else if l0 == 0 {
                w
            } else {
                let q = fmul(l1, finv(l0));
                if q == w {
                    return None;
                }
                fmul(fmul(w, fsub(q, 1)), finv(fsub(q, w)))
            }
        };
        if same(r, share, vshare) && same_probe(r) {
            Some(r)
        } else {
            None
        }
    }

    /// Check the query-point observation of a run; raise / count accordingly.
    #[allow(clippy::too_many_arguments)]
    fn check_query_point(&mut self, vdaf: &Prio2, input_len: usize, key: &[u8; 32], nonce: &[u8; 16], shares: &[Sh; 2], obs: &QpObs, r_ref: u64, skipped: &[u64]) {
        let two_n = 2 * n_of(input_len) as u64;
        for j in 0..2 {
            match obs.matches_model[j] {
                Some(true) => {
                    self.ctx.count("query_point_checks");
                    if !skipped.is_empty() {
                        self.ctx.count("query_point_checks_after_rejected_candidate");
                    }
                }
                Some(false) => {
                    let found = self.diagnose_query_point(vdaf, input_len, key, nonce, &shares[j], j, &obs.vshare[j], skipped);
                    match found {
                        Some(r) if fpow(r, two_n) == 1 => {
                            let kind = if fpow(r, two_n / 2) == 1 { "n-th-root" } else { "primitive-2n-th-root-class" };
                            let from = if skipped.contains(&r) { "candidate-not-rejected" } else { "other-derivation" };
                            self.ctx.violation(
                                format!("query-point|interpolation-node|{kind}|{from}"),
                                "verify_init evaluated the proof polynomials at a 2n-th root of unity (an interpolation node)",
                                json!({"input_len": input_len, "n": two_n / 2, "verify_key": hex(key), "nonce": hex(nonce), "aggregator": j,
                                       "query_point": r.to_string(), "candidates_before_reference_point": skipped.iter().map(|x| x.to_string()).collect::<Vec<_>>(),
                                       "reference_point": r_ref.to_string(),
                                       "how": "verify_init's verifier share equals verify_init_with_query_rand(query_point) on the report share and on an independent probe share"}),
                            );
                        }
                        Some(_) => {
                            self.ctx.count("query_point_model_mismatch_nonroot");
                            inc_once(self.ctx, "verify_init uses a non-root query point that differs from the harness' model of the derivation; the rejection branch cannot be targeted");
                        }
                        None => {
                            self.ctx.count("query_point_unidentified");
                            inc_once(self.ctx, "verify_init differs from verify_init_with_query_rand(reference point) and the point used could not be identified");
                        }
                    }
                }
                None => {}
            }
        }
    }

    /// Run an honest report; returns output shares if accepted. Raises violations otherwise.
    fn honest(&mut self, vdaf: &Prio2, input_len: usize, m: &[u32], shares: &[Sh; 2], key: &[u8; 32], nonce: &[u8; 16], label: &str) -> Option<Vec<Out>> {
        let two_n = 2 * n_of(input_len) as u64;
        let (r_ref, skipped) = ref_query_point(key, nonce, two_n);
        let actx_len = self.rng.usize_below(12);
        let actx = self.rng.bytes(actx_len);
        let mut codec = Codec::default();
        let mut qp = None;
        let out = run_report(vdaf, key, &actx, nonce, shares, None, Some(r_ref), &mut codec, &mut qp);
        self.ctx.eval();
        self.report_codec(&mut codec, input_len, Some((key, nonce, shares)));
        if let Some(obs) = qp {
            self.check_query_point(vdaf, input_len, key, nonce, shares, &obs, r_ref, &skipped);
        }
        let lc = len_class(input_len);
        let wit = |extra: Value| json!({"input_len": input_len, "measurement": meas_json(m), "verify_key": hex(key), "nonce": hex(nonce), "shares": share_hex(shares), "detail": extra});
        match out {
            Outcome::Finished(o) => {
                self.ctx.count("honest_accepted");
                Some(o)
            }
            Outcome::Rejected(stage, e) => {
                self.ctx.violation(format!("{label}|rejected@{stage}|{lc}"), "honestly sharded 0/1 vector rejected", wit(json!({"stage": stage, "err": e})));
                None
            }
            Outcome::Panicked(stage, p) => {
                self.ctx.violation(format!("{label}|panic@{stage}|{lc}|{}", pclass(&p)), "panic while verifying an honestly sharded 0/1 vector", wit(json!({"panic": p.message, "at": p.location})));
                None
            }
            Outcome::Desync(s) => {
                self.ctx.violation(format!("{label}|desync|{lc}"), "aggregators did not finish in one round", wit(json!(s)));
                None
            }
        }
    }

    fn shard(&mut self, vdaf: &Prio2, input_len: usize, m: &Vec<u32>, nonce: &[u8; 16], label: &str, must_succeed: bool) -> Option<[Sh; 2]> {
        match catch(|| vdaf.shard(b"", m, nonce)) {
            Ok(Ok(((), v))) => {
                if v.len() != 2 {
                    self.ctx.violation(format!("{label}|share-count"), "shard did not return two input shares", json!({"input_len": input_len, "count": v.len()}));
                    return None;
                }
                let mut it = v.into_iter();
                let a = it.next().unwrap();
                let b = it.next().unwrap();
                Some([a, b])
            }
            Ok(Err(e)) => {
                if must_succeed {
                    self.ctx.violation(format!("{label}|shard-err|{}", len_class(input_len)), "shard refused a 0/1 vector of the instance's length", json!({"input_len": input_len, "measurement": meas_json(m), "err": e.to_string()}));
                } else {
                    self.ctx.count("nonbinary_refused_by_client");
                }
                None
            }
            Err(p) => {
                if must_succeed {
                    self.ctx.violation(format!("{label}|shard-panic|{}|{}", len_class(input_len), pclass(&p)), "shard panicked on a 0/1 vector", json!({"input_len": input_len, "measurement": meas_json(m), "panic": p.message, "at": p.location}));
                } else {
                    self.ctx.count("nonbinary_client_panics");
                    self.ctx.note(format!("client panicked on a non-binary vector: {} at {}", p.message, p.location));
                }
                None
            }
        }
    }

    /// Check the harness PRG against what the library's helper expands (first input_len elements
    /// are the helper's output share).
    fn prg_selfcheck(&mut self, input_len: usize, shares: &[Sh; 2], outs: &[Out]) {
        if outs.len() != 2 || input_len == 0 {
            return;
        }
        let want = ref_expand(&helper_seed(&shares[1]), input_len);
        let got: Vec<u64> = outs[1].as_ref().iter().map(|x| fv(*x)).collect();
        if want != got {
            if !self.prg_selfcheck_failed {
                inc_once(self.ctx, "harness model of the Prio2 share expansion (AES-128-CTR, 4-byte LE rejection sampling) disagrees with the helper's output share; element-level oracles disabled");
            }
            self.prg_selfcheck_failed = true;
        } else {
            self.ctx.count("prg_model_selfchecks");
        }
    }

    /// A batch of honest reports at one length: accept each, aggregate, unshard, compare with sums.
    fn honest_batch(&mut self, vdaf: &Prio2, input_len: usize, ms: &[Vec<u32>], label: &str) {
        let mut sums = vec![0u64; input_len];
        let mut per_agg: [Vec<Out>; 2] = [vec![], vec![]];
        let mut n_ok = 0usize;
        for m in ms {
            let key: [u8; 32] = self.rng.array_edge();
            let nonce: [u8; 16] = self.rng.array_edge();
            let Some(mut shares) = self.shard(vdaf, input_len, m, &nonce, label, true) else { continue };
            // Length of the leader share as the packing prescribes.
            if let Share::Leader(v) = &shares[0] {
                if v.len() != proof_len(input_len) {
                    // not demanded by the property (a consistent change of the packing would be
                    // legitimate); the element-alteration workload below covers EVERY element of
                    // the share actually produced, including any that the model does not expect
                    self.ctx.count("leader_share_length_differs_from_model");
                    self.ctx.note(format!("leader share at input_len={input_len} has {} elements, the packing model (data, f0, g0, h0, n points of h) says {}", v.len(), proof_len(input_len)));
                }
            }
            // One time in four: re-share the same proof under a harness-chosen helper seed (edge
            // seeds included), which makes the helper share deterministic.
            if !self.prg_selfcheck_failed && leader_vec(&shares[0]).len() == proof_len(input_len) && self.rng.chance(1, 4) {
                let c = combined(&shares);
                let seed: [u8; 32] = self.rng.array_edge();
                let h = ref_expand(&seed, proof_len(input_len));
                let l: Vec<u64> = c.iter().zip(h.iter()).map(|(a, b)| fsub(*a, *b)).collect();
                // only if the model reproduces the library's expansion of the ORIGINAL seed
                let reshared = mk_shares(&l, &seed);
                let key2: [u8; 32] = self.rng.array();
                let mut codec = Codec::default();
                let mut qp = None;
                let probe = run_report(vdaf, &key2, b"", &nonce, &shares, None, None, &mut codec, &mut qp);
                self.ctx.eval();
                self.report_codec(&mut codec, input_len, Some((&key2, &nonce, &shares)));
                if let Outcome::Finished(o) = &probe {
                    self.prg_selfcheck(input_len, &shares, o);
                    if !self.prg_selfcheck_failed {
                        shares = reshared;
                        self.ctx.count("honest_reshared_with_harness_seed");
                    }
                }
            }
            if let Some(o) = self.honest(vdaf, input_len, m, &shares, &key, &nonce, label) {
                // reference proof-validity model self-check (small instances)
                if n_of(input_len) <= 64 && !self.prg_selfcheck_failed && self.rng.chance(1, 8) {
                    match ref_valid(input_len, &combined(&shares)) {
                        Some(true) => self.ctx.count("proof_model_selfchecks"),
                        _ => {
                            self.prg_selfcheck(input_len, &shares, &o);
                            if !self.prg_selfcheck_failed && !self.model_selfcheck_failed {
                                self.model_selfcheck_failed = true;
                                inc_once(self.ctx, "harness proof-validity model rejects an honest proof that the library accepts (triage oracle unusable)");
                            }
                        }
                    }
                }
                // per-report: output shares sum to the measurement
                let tot: Vec<u64> = (0..input_len).map(|k| fadd(fv(o[0].as_ref()[k]), fv(o[1].as_ref()[k]))).collect();
                let want: Vec<u64> = m.iter().map(|x| *x as u64).collect();
                if o[0].as_ref().len() != input_len || o[1].as_ref().len() != input_len || tot != want {
                    self.ctx.violation(format!("{label}|output-shares|{}", len_class(input_len)), "output shares of an honest report do not sum to the measurement",
                        json!({"input_len": input_len, "measurement": meas_json(m), "verify_key": hex(&key), "nonce": hex(&nonce), "shares": share_hex(&shares)}));
                }
                for (s, x) in sums.iter_mut().zip(m.iter()) {
                    *s = fadd(*s, *x as u64);
                }
                let mut it = o.into_iter();
                per_agg[0].push(it.next().unwrap());
                per_agg[1].push(it.next().unwrap());
                n_ok += 1;
                self.ctx.nontrivial(digest(&[b"honest", &(input_len as u64).to_le_bytes(), &m.iter().flat_map(|x| x.to_le_bytes()).collect::<Vec<u8>>()]));
            }
        }
        // aggregate + unshard
        let mut codec = Codec::default();
        let mut agg_shares = vec![];
        for outs in per_agg {
            match catch(|| vdaf.aggregate(&(), outs)) {
                Ok(Ok(a)) => {
                    let b = codec.enc("aggregate-share", &a);
                    match catch(|| AggregateShare::<FieldPrio2>::get_decoded_with_param(&(vdaf, &()), &b)) {
                        Ok(Ok(a2)) => {
                            codec.roundtrips += 1;
                            if a2 != a {
                                codec.bad("aggregate-share", "decode(encode(x)) != x".into());
                            }
                            agg_shares.push(a2);
                        }
                        Ok(Err(e)) => codec.bad("aggregate-share", format!("own encoding refused: {e}")),
                        Err(p) => codec.bad("aggregate-share", format!("decoder panicked: {} at {}", p.message, p.location)),
                    }
                }
                Ok(Err(e)) => self.ctx.violation(format!("{label}|aggregate-err|{}", len_class(input_len)), "aggregate of honest output shares failed", json!({"input_len": input_len, "err": e.to_string()})),
                Err(p) => self.ctx.violation(format!("{label}|aggregate-panic|{}|{}", len_class(input_len), pclass(&p)), "aggregate panicked", json!({"input_len": input_len, "panic": p.message, "at": p.location})),
            }
        }
        self.report_codec(&mut codec, input_len, None);
        if agg_shares.len() == 2 {
            self.ctx.eval();
            match catch(|| vdaf.unshard(&(), agg_shares, n_ok)) {
                Ok(Ok(r)) => {
                    let got: Vec<u64> = r.iter().map(|x| *x as u64).collect();
                    if got != sums {
                        self.ctx.violation(format!("{label}|sum|{}", len_class(input_len)), "unsharded aggregate != element-wise sum of the measurements",
                            json!({"input_len": input_len, "reports": n_ok, "got": got.iter().take(16).collect::<Vec<_>>(), "want": sums.iter().take(16).collect::<Vec<_>>(),
                                   "measurements": ms.iter().take(6).map(|m| meas_json(m)).collect::<Vec<_>>()}));
                    } else {
                        self.ctx.count("batches_summed");
                    }
                }
                Ok(Err(e)) => self.ctx.violation(format!("{label}|unshard-err|{}", len_class(input_len)), "unshard of honest aggregate shares failed", json!({"input_len": input_len, "err": e.to_string()})),
                Err(p) => self.ctx.violation(format!("{label}|unshard-panic|{}|{}", len_class(input_len), pclass(&p)), "unshard panicked", json!({"input_len": input_len, "panic": p.message, "at": p.location})),
            }
        }
        if LENS.contains(&input_len) || input_len > 3000 {
            self.ctx.set_insert("input_lengths", format!("{input_len:07}"));
        }
        self.ctx.set_insert("input_length_classes", len_class(input_len));
        self.ctx.max("max_input_len", input_len as u64);
    }

    /// Something that must be rejected. `sig` = argument class; on acceptance confirm 3x under
    /// fresh keys/nonces.
    #[allow(clippy::too_many_arguments)]
    fn must_reject(&mut self, vdaf: &Prio2, input_len: usize, shares: &[Sh; 2], vs_tamper: VsTamper, sig: &str, what: &str, extra: Value) {
        let key: [u8; 32] = self.rng.array();
        let nonce: [u8; 16] = self.rng.array();
        let mut codec = Codec::default();
        let mut qp = None;
        let out = run_report(vdaf, &key, b"", &nonce, shares, vs_tamper, None, &mut codec, &mut qp);
        self.ctx.eval();
        self.report_codec(&mut codec, input_len, Some((&key, &nonce, shares)));
        match out {
            Outcome::Rejected(stage, _) => {
                self.ctx.count(&format!("rejected@{stage}"));
                self.ctx.count("rejections");
            }
            Outcome::Panicked(stage, p) => {
                self.ctx.count("invalid_input_panics");
                self.ctx.note(format!("panic (not an acceptance) at {stage} on {sig}: {} at {}", p.message, p.location));
            }
            Outcome::Desync(_) => {
                self.ctx.count("rejections");
            }
            Outcome::Finished(_) => {
                // confirm under three fresh independent keys / nonces
                let mut accepted = 1;
                let mut keys = vec![(hex(&key), hex(&nonce))];
                for _ in 0..3 {
                    let k: [u8; 32] = self.rng.array();
                    let nn: [u8; 16] = self.rng.array();
                    let mut c2 = Codec::default();
                    let mut q2 = None;
                    let o = run_report(vdaf, &k, b"", &nn, shares, vs_tamper, None, &mut c2, &mut q2);
                    self.ctx.eval();
                    if o.finished() {
                        accepted += 1;
                        keys.push((hex(&k), hex(&nn)));
                    }
                }
                if accepted < 4 {
                    self.ctx.count("soundness_flukes");
                    self.ctx.count_n("soundness_fluke_confirmations_accepted", accepted - 1);
                    return;
                }
                // Is the artefact, by accident, a valid proof of a 0/1 vector? (then acceptance is right)
                if vs_tamper.is_none() && !self.prg_selfcheck_failed && !self.model_selfcheck_failed {
                    if let Some(true) = ref_valid(input_len, &combined(shares)) {
                        self.ctx.count("tamper_yielded_valid_proof");
                        return;
                    }
                }
                self.ctx.violation(
                    format!("{sig}|{}", len_class(input_len)),
                    format!("{what}: accepted by both aggregators under the first and three further fresh independent verify keys / nonces"),
                    json!({"input_len": input_len, "shares": share_hex(shares), "accepted_under_key_nonce": keys, "case": extra,
                           "verifier_share_alteration": vs_tamper.map(|(a, e, d)| json!({"aggregator": a, "element": e, "delta": d.to_string()}))}),
                );
            }
        }
    }

    /// All rejection cases for one honest sharing of `m` at `input_len`.
    fn alterations(&mut self, vdaf: &Prio2, input_len: usize, m: &Vec<u32>, all_positions: bool) {
        let nonce: [u8; 16] = self.rng.array();
        let Some(shares) = self.shard(vdaf, input_len, m, &nonce, "honest", true) else { return };
        // positive control
        let key: [u8; 32] = self.rng.array();
        let Some(o) = self.honest(vdaf, input_len, m, &shares, &key, &nonce, "control") else { return };
        self.ctx.count("positive_controls");
        self.prg_selfcheck(input_len, &shares, &o);
        let leader = leader_vec(&shares[0]);
        // positions range over the share actually produced
        let plen = leader.len();
        if plen < input_len + 4 {
            return;
        }
        let seed = helper_seed(&shares[1]);
        let n = n_of(input_len);
        let positions: Vec<usize> = if all_positions {
            (0..plen).collect()
        } else {
            let mut p = vec![input_len, input_len + 1, input_len + 2, input_len + 3, plen - 1, input_len + 3 + n / 2, input_len + 3 + self.rng.usize_below(plen - input_len - 3)];
            if input_len > 0 {
                p.extend([0, input_len - 1, input_len / 2, self.rng.usize_below(input_len)]);
            }
            p.sort();
            p.dedup();
            p
        };
        for &i in &positions {
            let deltas = [1u64, P - 1, 1 + self.rng.below(P - 1)];
            let nd = if all_positions { 3 } else { 2 };
            for (di, d) in deltas.iter().take(nd).enumerate() {
                let mut l = leader.clone();
                l[i] = fadd(l[i], *d);
                let t = mk_shares(&l, &seed);
                let seg = segment(input_len, i);
                let dn = ["+1", "-1", "random"][di];
                self.must_reject(vdaf, input_len, &t, None, &format!("altered-leader-share|{seg}"), "leader share altered in one element",
                    json!({"measurement": meas_json(m), "position": i, "segment": seg, "delta": d.to_string()}));
                self.ctx.count(&format!("altered_{seg}"));
                self.ctx.nontrivial(digest(&[b"alt", &(input_len as u64).to_le_bytes(), &(i as u64).to_le_bytes(), dn.as_bytes()]));
            }
        }
        // helper seed altered in one bit
        for _ in 0..(if all_positions { 4 } else { 1 }) {
            let mut s = seed;
            let bit = self.rng.usize_below(256);
            s[bit / 8] ^= 1 << (bit % 8);
            let t = mk_shares(&leader, &s);
            self.must_reject(vdaf, input_len, &t, None, "altered-helper-seed", "helper seed altered in one bit", json!({"measurement": meas_json(m), "bit": bit}));
            self.ctx.count("altered_helper_seed");
        }
        // verifier share altered in one element
        for a in 0..2 {
            for el in 0..3 {
                let d = if self.rng.bool() { 1 } else { 1 + self.rng.below(P - 1) };
                let name = ["f_r", "g_r", "h_r"][el];
                self.must_reject(vdaf, input_len, &shares, Some((a, el, d)), &format!("altered-verifier-share|{name}"), "verifier share altered in one element",
                    json!({"measurement": meas_json(m)}));
                self.ctx.count("altered_verifier_share");
            }
        }
        // swapped roles: leader vector's proof offered with the helper's seed of another report is
        // covered by the seed alteration; truncated/extended leader share must be refused as well
        for dl in [-1i64, 1] {
            let mut l = leader.clone();
            if dl < 0 {
                l.pop();
            } else {
                l.push(0);
            }
            let t = mk_shares(&l, &seed);
            self.must_reject(vdaf, input_len, &t, None, "leader-share-length", "leader share one element too short / long", json!({"delta_len": dl}));
            self.ctx.count("altered_length");
        }
    }

    fn nonbinary(&mut self, vdaf: &Prio2, input_len: usize, base: &Vec<u32>, all_positions: bool) {
        if input_len == 0 {
            return;
        }
        let p32 = P as u32;
        let vals: [u32; 6] = [2, p32 - 1, p32 - 2, 3, (p32 + 1) / 2, 2 + self.rng.below(P - 2) as u32];
        let positions: Vec<usize> = if all_positions {
            (0..input_len).collect()
        } else {
            let mut p = vec![0, input_len - 1, input_len / 2, self.rng.usize_below(input_len)];
            p.sort();
            p.dedup();
            p
        };
        for &i in &positions {
            let nv = if all_positions { 3 } else { 6 };
            for v in vals.iter().take(nv) {
                let mut m = base.clone();
                m[i] = *v;
                self.nonbinary_one(vdaf, input_len, &m, &format!("pos={i} value={v}"));
                self.ctx.nontrivial(digest(&[b"nb", &(input_len as u64).to_le_bytes(), &(i as u64).to_le_bytes(), &v.to_le_bytes()]));
            }
        }
        // two non-binary entries whose "errors" could cancel in a weak check: 2 and p-1
        if input_len >= 2 {
            let mut m = base.clone();
            m[0] = 2;
            m[input_len - 1] = p32 - 1;
            self.nonbinary_one(vdaf, input_len, &m, "pair(2,p-1)");
            let m2 = vec![2u32; input_len];
            self.nonbinary_one(vdaf, input_len, &m2, "all-twos");
        }
    }

    fn nonbinary_one(&mut self, vdaf: &Prio2, input_len: usize, m: &Vec<u32>, desc: &str) {
        let nonce: [u8; 16] = self.rng.array();
        let Some(shares) = self.shard(vdaf, input_len, m, &nonce, "nonbinary", false) else { return };
        self.ctx.count("nonbinary_vectors");
        self.must_reject(vdaf, input_len, &shares, None, "non-binary-entry", "vector with an entry other than 0/1", json!({"measurement": meas_json(m), "case": desc}));
    }
}

fn gen_binary(rng: &mut Rng64, len: usize) -> Vec<u32> {
    match rng.below(8) {
        0 => vec![0; len],
        1 => vec![1; len],
        2 => {
            // single one
            let mut v = vec![0; len];
            if len > 0 {
                v[rng.usize_below(len)] = 1;
            }
            v
        }
        3 => {
            // ones at the ends
            let mut v = vec![0; len];
            if len > 0 {
                v[0] = 1;
                v[len - 1] = 1;
            }
            v
        }
        _ => (0..len).map(|_| rng.below(2) as u32).collect(),
    }
}

const LENS: [usize; 36] = [
    0, 1, 2, 3, 4, 5, 6, 7, 8, 9, 10, 11, 14, 15, 16, 17, 30, 31, 32, 33, 62, 63, 64, 65, 100, 126, 127, 128, 129, 255, 256, 257, 511, 512, 1023, 1024,
];

fn new_vdaf(ctx: &mut Ctx, len: usize) -> Option<Prio2> {
    match catch(|| Prio2::new(len)) {
        Ok(Ok(v)) => Some(v),
        Ok(Err(e)) => {
            ctx.violation(format!("constructor-refused|{}", len_class(len)), "Prio2::new refused an input length within the field's capacity (2n <= 2^20)", json!({"input_len": len, "err": e.to_string()}));
            None
        }
        Err(p) => {
            ctx.violation(format!("constructor-panic|{}|{}", len_class(len), pclass(&p)), "Prio2::new panicked on an input length within the field's capacity", json!({"input_len": len, "panic": p.message, "at": p.location}));
            None
        }
    }
}

// ---------------------------------------------------------------------------------------------
// Part E: reaching the rejection branch of the query-point loop
// ---------------------------------------------------------------------------------------------

/// log2 of the multiplicative order of `c` if that order is a power of two (<= 2^20).
fn two_power_order(c: u64) -> Option<u32> {
    if c == 0 {
        return None;
    }
    let mut x = c;
    for k in 0..=TWO_ADICITY {
        if x == 1 {
            return Some(k);
        }
        x = fmul(x, x);
    }
    None
}

struct Hit {
    key: [u8; 32],
    nonce: [u8; 16],
    log_order: u32,
}

fn search_hits(ctx: &mut Ctx, trials: u64) -> Vec<Hit> {
    let mut rng = ctx.rng("c19-search");
    let mut hits: Vec<Hit> = vec![];
    let mut done = 0u64;
    while done < trials {
        // one key, many nonces (the HMAC key schedule is shared)
        let key: [u8; 32] = rng.array();
        let base = <Hmac<Sha256> as KeyInit>::new_from_slice(&key).unwrap();
        let mut nonce: [u8; 16] = rng.array();
        let chunk = (trials - done).min(1 << 16);
        for i in 0..chunk {
            nonce[..8].copy_from_slice(&i.to_le_bytes());
            let mut mac = base.clone();
            mac.update(&nonce);
            let seed: [u8; 32] = mac.finalize().into_bytes().into();
            let c0 = RefStream::new(&seed).next_elem();
            // c0^(2^20) == 1 ?
            let mut x = c0;
            for _ in 0..TWO_ADICITY {
                x = fmul(x, x);
            }
            if x == 1 {
                if let Some(k) = two_power_order(c0) {
                    hits.push(Hit { key, nonce, log_order: k });
                }
            }
        }
        done += chunk;
    }
    ctx.count_n("query_point_search_trials", trials);
    ctx.count_n("query_point_search_hits_order_le_2^20", hits.len() as u64);
    hits.sort_by_key(|h| h.log_order);
    hits
}

fn part_e(d: &mut D) {
    let trials = d.ctx.budget(4_000_000, 300_000_000);
    let t_s = std::time::Instant::now();
    let hits = search_hits(d.ctx, trials);
    d.ctx.trace(|| format!("search done {:?}", t_s.elapsed()));
    // Budget in units of n (cost of a targeted case is ~ n log n).
    let mut budget_n: u64 = d.ctx.budget(1 << 21, 1 << 25);
    let mut used_small = 0;
    for h in &hits {
        // tightest instance: 2n = order (so the candidate is a PRIMITIVE 2n-th root: an h-node that
        // is not an n-th root); and a second instance one size up (the candidate is an n-th root).
        let k = h.log_order;
        let n_tight: usize = if k == 0 { 1 } else { 1usize << (k - 1) };
        let mut ns = vec![n_tight];
        if 2 * n_tight <= (1 << 19) && d.rng.chance(1, 4) {
            ns.push(2 * n_tight);
        }
        if k <= 12 {
            used_small += 1;
        }
        for n in ns {
            if (n as u64) > budget_n {
                continue;
            }
            // expensive size classes are capped so that the budget is spread over all sizes
            if n >= (1 << 16) && (n.trailing_zeros() as usize - 16) != d.ctx.shard % 4 {
                continue; // each shard takes one of the four largest size classes
            }
            let cap = if n >= (1 << 16) { d.ctx.budget(1, 8) } else if n >= (1 << 13) { d.ctx.budget(4, 64) } else { u64::MAX };
            if d.ctx.counters.get(&format!("rejection_branch_cases_n=2^{}", n.trailing_zeros())).copied().unwrap_or(0) >= cap {
                continue;
            }
            budget_n -= n as u64;
            let lens: Vec<usize> = if n == 1 { vec![0] } else { vec![n - 1, n / 2] };
            let input_len = *d.rng.choose(&lens);
            let Some(vdaf) = new_vdaf(d.ctx, input_len) else { continue };
            let two_n = 2 * n as u64;
            let (r_ref, skipped) = ref_query_point(&h.key, &h.nonce, two_n);
            if skipped.is_empty() {
                continue; // cannot happen: the first candidate has order dividing 2n
            }
            // probe shares: random leader vector, random helper seed (the query point does not
            // depend on the share; honest proofs at these lengths are exercised elsewhere)
            let lv: Vec<u64> = (0..leader_len(&vdaf, input_len)).map(|_| d.rng.below(P)).collect();
            let seed: [u8; 32] = d.rng.array();
            let shares = mk_shares(&lv, &seed);
            let mut obs = QpObs { vshare: [vec![], vec![]], matches_model: [None, None] };
            let mut ok = true;
            for j in 0..2 {
                match catch(|| vdaf.verify_init(&h.key, b"", j, &(), &h.nonce, &(), &shares[j])) {
                    Ok(Ok((st, vs))) => {
                        let vb = vs.get_encoded().unwrap_or_default();
                        let m = match catch(|| vdaf.verify_init_with_query_rand(fe(r_ref), &shares[j], j == 0)) {
                            Ok(Ok((st2, vs2))) => vs2.get_encoded().ok().as_deref() == Some(&vb[..]) && st2 == st,
                            _ => false,
                        };
                        obs.vshare[j] = vb;
                        obs.matches_model[j] = Some(m);
                    }
                    Ok(Err(e)) => {
                        ok = false;
                        d.ctx.violation(format!("query-point|verify_init-err|{}", len_class(input_len)), "verify_init failed on a well-formed share (nonce whose first query-point candidate is a root of unity)",
                            json!({"input_len": input_len, "verify_key": hex(&h.key), "nonce": hex(&h.nonce), "err": e.to_string()}));
                    }
                    Err(p) => {
                        ok = false;
                        d.ctx.violation(format!("query-point|verify_init-panic|{}|{}", len_class(input_len), pclass(&p)), "verify_init panicked (nonce whose first query-point candidate is a root of unity)",
                            json!({"input_len": input_len, "verify_key": hex(&h.key), "nonce": hex(&h.nonce), "panic": p.message, "at": p.location}));
                    }
                }
            }
            d.ctx.eval();
            if !ok {
                continue;
            }
            d.check_query_point(&vdaf, input_len, &h.key, &h.nonce, &shares, &obs, r_ref, &skipped);
            d.ctx.count("rejection_branch_cases");
            d.ctx.count(&format!("rejection_branch_cases_n=2^{}", n.trailing_zeros()));
            if fpow(skipped[0], n as u64) != 1 {
                d.ctx.count("rejection_branch_cases_primitive_2n_th_root");
            } else {
                d.ctx.count("rejection_branch_cases_n_th_root");
            }
            if skipped.len() >= 2 {
                d.ctx.count("rejection_branch_cases_two_or_more_rejected");
            }
            d.ctx.max("max_candidates_rejected", skipped.len() as u64);
            d.ctx.set_insert("rejection_branch_log2_n", format!("{:02}", n.trailing_zeros()));
            d.ctx.nontrivial(digest(&[b"qp", &h.key, &h.nonce, &(n as u64).to_le_bytes()]));
            if d.ctx.samples.len() < 2 {
                let (k, nn) = (hex(&h.key), hex(&h.nonce));
                let first = skipped[0];
                d.ctx.sample(|| json!({"kind": "rejection-branch", "input_len": input_len, "verify_key": k, "nonce": nn, "first_candidate": first.to_string(), "query_point": r_ref.to_string()}));
            }
        }
    }
    d.ctx.count_n("query_point_search_hits_order_le_2^12", used_small);
}

// ---------------------------------------------------------------------------------------------
// Entry point
// ---------------------------------------------------------------------------------------------

pub fn run(ctx: &mut Ctx) {
    let rng = ctx.rng("c19");
    let quick = ctx.quick();
    let mut d = D { ctx, rng, prg_selfcheck_failed: false, model_selfcheck_failed: false };
    let mut item: u64 = 0;

    // Part A: every 0/1 vector of every length <= 10 (quick: <= 8 plus a sample of 9, 10),
    // in batches of <= 64 reports that are aggregated and unsharded.
    for len in 0..=10usize {
        let total = 1u64 << len;
        let mut v = 0u64;
        while v < total {
            let hi = (v + 64).min(total);
            item += 1;
            if d.ctx.mine(item) {
                let ms: Vec<Vec<u32>> = (v..hi).map(|bits| (0..len).map(|k| ((bits >> k) & 1) as u32).collect()).collect();
                if let Some(vdaf) = new_vdaf(d.ctx, len) {
                    d.honest_batch(&vdaf, len, &ms, "honest");
                    d.ctx.count_n("exhaustive_binary_vectors", hi - v);
                }
            }
            v = hi;
        }
    }

    let t0 = std::time::Instant::now();
    d.ctx.trace(|| "part A done".to_string());
    // Part B: random honest batches over the length set and random lengths.
    let per_len = d.ctx.budget(80, 8_000);
    for (li, len) in LENS.iter().enumerate() {
        for rep in 0..per_len {
            item += 1;
            if !d.ctx.mine(item) {
                continue;
            }
            let Some(vdaf) = new_vdaf(d.ctx, *len) else { continue };
            let batch = match d.rng.below(5) {
                0 => 1,
                1 => 2,
                _ => 2 + d.rng.usize_below(if *len > 300 { 6 } else { 24 }),
            };
            let ms: Vec<Vec<u32>> = (0..batch).map(|_| gen_binary(&mut d.rng, *len)).collect();
            d.ctx.trace(|| format!("B len={len} rep={rep} li={li} batch={batch}"));
            d.honest_batch(&vdaf, *len, &ms, "honest");
        }
    }
    let n_rand = d.ctx.budget(2_000, 120_000) / d.ctx.nshards as u64 + 1;
    for _ in 0..n_rand {
        let len = match d.rng.below(4) {
            0 => d.rng.usize_below(40),
            1 => {
                // around a power of two
                let k = 1 + d.rng.below(11) as u32;
                ((1usize << k) + d.rng.usize_below(5)).saturating_sub(2)
            }
            _ => d.rng.usize_below(if quick { 600 } else { 3000 }),
        };
        let Some(vdaf) = new_vdaf(d.ctx, len) else { continue };
        let batch = 1 + d.rng.usize_below(8);
        let ms: Vec<Vec<u32>> = (0..batch).map(|_| gen_binary(&mut d.rng, len)).collect();
        d.honest_batch(&vdaf, len, &ms, "honest");
    }

    d.ctx.trace(|| format!("part B done {:?}", t0.elapsed()));
    // Parts C, D: non-binary vectors and alterations. Small lengths: every position.
    let small: Vec<usize> = (0..=9).chain([15, 16, 17]).collect();
    let small_reps = d.ctx.budget(24, 3_000);
    for len in &small {
        for _ in 0..small_reps {
            item += 1;
            if !d.ctx.mine(item) {
                continue;
            }
            let Some(vdaf) = new_vdaf(d.ctx, *len) else { continue };
            let m = gen_binary(&mut d.rng, *len);
            d.alterations(&vdaf, *len, &m, true);
            let m = gen_binary(&mut d.rng, *len);
            d.nonbinary(&vdaf, *len, &m, true);
        }
    }
    let big_reps = d.ctx.budget(24, 3_000);
    for len in LENS.iter().filter(|l| **l > 9) {
        for _ in 0..big_reps {
            item += 1;
            if !d.ctx.mine(item) {
                continue;
            }
            let Some(vdaf) = new_vdaf(d.ctx, *len) else { continue };
            let m = gen_binary(&mut d.rng, *len);
            d.alterations(&vdaf, *len, &m, false);
            let m = gen_binary(&mut d.rng, *len);
            d.nonbinary(&vdaf, *len, &m, false);
        }
    }

    d.ctx.trace(|| format!("part CD done {:?}", t0.elapsed()));
    // Part E: query-point rejection branch.
    part_e(&mut d);

    d.ctx.trace(|| format!("part E done {:?}", t0.elapsed()));
    // Part F: large instances up to the field's capacity (the top three lengths and the lengths around
    // 2^16 in both tiers; quick: one honest batch and one non-binary vector each, thorough: twice, with
    // alterations).
    {
        let big: [usize; 7] = [4095, 4096, 65535, 65536, (1 << 19) - 3, (1 << 19) - 2, (1 << 19) - 1];
        for (i, len) in big.iter().enumerate() {
            for rep in 0..(if quick { 1u64 } else { 2 }) {
                if !d.ctx.mine(i as u64 * 2 + rep + 3) {
                    continue;
                }
                let Some(vdaf) = new_vdaf(d.ctx, *len) else { continue };
                let ms: Vec<Vec<u32>> = (0..2).map(|_| gen_binary(&mut d.rng, *len)).collect();
                d.honest_batch(&vdaf, *len, &ms, "honest");
                let m = gen_binary(&mut d.rng, *len);
                if !quick {
                    d.alterations(&vdaf, *len, &m, false);
                }
                if *len < 100_000 || rep == 0 {
                    let mut m = gen_binary(&mut d.rng, *len);
                    let pos = d.rng.usize_below(*len);
                    m[pos] = 2;
                    d.nonbinary_one(&vdaf, *len, &m, &format!("pos={pos} value=2"));
                }
                d.ctx.count("large_instances");
            }
        }
        // one above capacity must be refused by the constructor (not part of "supported" lengths)
        if !quick && d.ctx.shard == 0 {
            match catch(|| Prio2::new(1 << 19)) {
                Ok(Err(_)) => d.ctx.count("over_capacity_refused"),
                Ok(Ok(_)) => d.ctx.note("Prio2::new(2^19) accepted (2n = 2^21 exceeds the 2-adicity of the field)"),
                Err(_) => d.ctx.count("over_capacity_panicked"),
            }
        }
    }

    // Anti-vacuity per shard.
    let c = |k: &str| d.ctx.counters.get(k).copied().unwrap_or(0);
    let (h, r, q, b) = (c("honest_accepted"), c("rejections"), c("query_point_checks"), c("rejection_branch_cases"));
    if h == 0 {
        d.ctx.inconclusive("no honest report was accepted on this shard");
    }
    if r == 0 {
        d.ctx.inconclusive("no rejection observed on this shard");
    }
    if q == 0 {
        d.ctx.inconclusive("no query-point check performed on this shard");
    }
    d.ctx.max_samples += 1;
    d.ctx.sample(|| json!({"kind": "shard-summary", "honest_accepted": h, "rejections": r, "query_point_checks": q, "rejection_branch_cases": b}));
}
