//! C20: aggregation-parameter admissibility matches the specification for all histories.
//!
//! Three monitors, each against an independent oracle over `Vec<Vec<bool>>` (a parameter is the
//! list of its candidate prefixes):
//!
//! * `is_agg_param_valid(cur, prev)` for Poplar1 against the rule of the property statement
//!   (`ref_valid`, 8 lines): valid iff `prev` is empty, or level(cur) > level(last(prev)) and every
//!   candidate of `cur` extends one of the candidates of last(prev).  For Prio3 / Prio2: valid iff
//!   `prev` is empty.
//! * `Poplar1AggregationParam::try_from_prefixes` against `ref_list_ok`: accepted iff the list is
//!   non-empty, every prefix has the same length in 1..=65536 bits, strictly increasing.
//! * `Poplar1AggregationParam::get_decoded` against `ref_decode`: accepted iff the bytes are the
//!   canonical encoding (u16 level, u32 count, count * ceil((level+1)/8) bytes, padding bits zero)
//!   of an acceptable list; the decoded value must be that list and must re-encode to the bytes.
//!
//! Small spaces are enumerated completely (see `run`); deeper spaces are sampled.

use crate::common::*;
use prio::codec::{Decode, Encode};
use prio::idpf::IdpfInput;
use prio::vdaf::poplar1::{Poplar1, Poplar1AggregationParam};
use prio::vdaf::prio2::Prio2;
use prio::vdaf::prio3::{
    Prio3Average, Prio3Count, Prio3Histogram, Prio3MultihotCountVec, Prio3Sum, Prio3SumVec, Prio3SumVecMultithreaded,
};
use prio::vdaf::xof::{XofHmacSha256Aes128, XofTurboShake128};
use prio::vdaf::Aggregator;
use serde_json::{json, Value};

type Pfx = Vec<bool>;
type Param = Vec<Pfx>;

/// Stable class of a panic for signatures: source file relative to its crate (`src/...`, prefixed
/// with the crate directory for registry crates) + message with digit runs collapsed to one `#`.
/// (common.rs `PanicInfo::class` keeps absolute paths outside /repo and one `#` per digit.)
fn pclass(pi: &PanicInfo) -> String {
    let file = pi.location.rsplit_once(':').map(|x| x.0).unwrap_or(&pi.location);
    let file = match file.rfind("/src/") {
        Some(i) if file.contains("/registry/") => {
            let krate = file[..i].rsplit('/').next().unwrap_or("");
            format!("{krate}/{}", &file[i + 1..])
        }
        Some(i) => file[i + 1..].to_string(),
        None => file.to_string(),
    };
    let mut msg = String::new();
    for c in pi.message.chars().take(60) {
        if c.is_ascii_digit() {
            if !msg.ends_with('#') {
                msg.push('#');
            }
        } else {
            msg.push(c);
        }
    }
    format!("{file}:{msg}")
}

// ---------------------------------------------------------------------------------------------
// Oracles (written from the property statement / the wire format of the spec, not from the code)
// ---------------------------------------------------------------------------------------------

/// The admissibility rule of the property statement. Parameters are non-empty lists of
/// equal-length prefixes; level = length - 1, so comparing lengths compares levels.
fn ref_valid(cur: &Param, prev: &[Param]) -> bool {
    match prev.last() {
        None => true,
        Some(last) => {
            let (cl, ll) = (cur[0].len(), last[0].len());
            cl > ll && cur.iter().all(|c| last.iter().any(|l| c[..ll] == l[..]))
        }
    }
}

/// Is `list` a conforming prefix list (non-empty, equal lengths within 1..=2^16 bits, strictly
/// increasing in lexicographic order, fewer than 2^32 entries)?
fn ref_list_ok(list: &[Pfx]) -> bool {
    !list.is_empty()
        && (list.len() as u64) < (1u64 << 32)
        && (1..=65536).contains(&list[0].len())
        && list.iter().all(|p| p.len() == list[0].len())
        && list.windows(2).all(|w| w[0] < w[1])
}

/// Canonical encoding of a conforming list.
fn ref_encode(list: &[Pfx]) -> Vec<u8> {
    let plen = list[0].len();
    let mut out = vec![];
    out.extend_from_slice(&((plen - 1) as u16).to_be_bytes());
    out.extend_from_slice(&(list.len() as u32).to_be_bytes());
    for p in list {
        let mut bytes = vec![0u8; plen.div_ceil(8)];
        for (i, b) in p.iter().enumerate() {
            if *b {
                bytes[i / 8] |= 0x80 >> (i % 8);
            }
        }
        out.extend_from_slice(&bytes);
    }
    out
}

/// Reference decoder: `Some(list)` iff `bytes` is the canonical encoding of a conforming list.
fn ref_decode(bytes: &[u8]) -> Option<Param> {
    if bytes.len() < 6 {
        return None;
    }
    let plen = u16::from_be_bytes([bytes[0], bytes[1]]) as usize + 1;
    let count = u32::from_be_bytes([bytes[2], bytes[3], bytes[4], bytes[5]]) as u128;
    let pbl = plen.div_ceil(8);
    let body = &bytes[6..];
    if count == 0 || body.len() as u128 != count * pbl as u128 {
        return None;
    }
    let mut list: Param = vec![];
    for chunk in body.chunks(pbl) {
        let bits: Vec<bool> = (0..pbl * 8).map(|i| chunk[i / 8] & (0x80 >> (i % 8)) != 0).collect();
        if bits[plen..].iter().any(|b| *b) {
            return None;
        }
        list.push(bits[..plen].to_vec());
    }
    if ref_list_ok(&list) {
        Some(list)
    } else {
        None
    }
}

// ---------------------------------------------------------------------------------------------
// Helpers
// ---------------------------------------------------------------------------------------------

fn pfx_str(p: &Pfx) -> String {
    if p.len() > 96 {
        let head: String = p[..96].iter().map(|b| if *b { '1' } else { '0' }).collect();
        format!("{head}..(+{} bits)", p.len() - 96)
    } else if p.is_empty() {
        "e".into()
    } else {
        p.iter().map(|b| if *b { '1' } else { '0' }).collect()
    }
}

fn param_json(p: &Param) -> Value {
    json!(p.iter().take(40).map(pfx_str).collect::<Vec<_>>())
}

fn hist_json(h: &[Param]) -> Value {
    json!(h.iter().map(param_json).collect::<Vec<_>>())
}

fn to_inputs(list: &[Pfx]) -> Vec<IdpfInput> {
    list.iter().map(|p| crate::common::to_input(p)).collect()
}

fn lib_prefixes(p: &Poplar1AggregationParam) -> Param {
    p.prefixes().iter().map(|x| x.iter().collect()).collect()
}

/// Build the library object for a conforming list; `None` (and a violation) if refused.
fn build(ctx: &mut Ctx, list: &Param, site: &str) -> Option<Poplar1AggregationParam> {
    match catch(|| Poplar1AggregationParam::try_from_prefixes(to_inputs(list))) {
        Ok(Ok(p)) => Some(p),
        Ok(Err(e)) => {
            ctx.violation(
                format!("try_from_prefixes|conforming-list-refused|{site}"),
                "a non-empty, equal-length, strictly increasing prefix list was refused",
                json!({"prefixes": param_json(list), "err": e.to_string()}),
            );
            None
        }
        Err(pi) => {
            ctx.violation(
                format!("try_from_prefixes|conforming-list-panic|{site}|{}", pclass(&pi)),
                "try_from_prefixes panicked on a conforming list",
                json!({"prefixes": param_json(list), "panic": pi.message, "at": pi.location}),
            );
            None
        }
    }
}

/// All prefixes of exactly `len` bits, in lexicographic order.
fn all_prefixes(len: usize) -> Vec<Pfx> {
    (0..1u32 << len).map(|v| (0..len).map(|i| v >> (len - 1 - i) & 1 == 1).collect()).collect()
}

/// Every parameter over `bits`-bit inputs: every non-empty subset of the prefixes of every level.
fn all_params(bits: usize) -> Vec<Param> {
    let mut out = vec![];
    for len in 1..=bits {
        let ps = all_prefixes(len);
        for mask in 1u64..(1u64 << ps.len()) {
            out.push(ps.iter().enumerate().filter(|(i, _)| mask >> i & 1 == 1).map(|(_, p)| p.clone()).collect());
        }
    }
    out
}

/// Is `h` an admissible chain (each element valid given the ones before it)?
fn is_chain(h: &[Param]) -> bool {
    (0..h.len()).all(|i| ref_valid(&h[i], &h[..i]))
}

type P1Turbo = Poplar1<XofTurboShake128, 32>;
type P1Hmac = Poplar1<XofHmacSha256Aes128, 32>;

struct Pool {
    refs: Vec<Param>,
    libs: Vec<Poplar1AggregationParam>,
}

#[derive(Default)]
struct Tally {
    valid: u64,
    invalid: u64,
    inadmissible_hist: u64,
}

impl Tally {
    fn flush(&mut self, ctx: &mut Ctx) {
        ctx.count_n("valid_decisions", self.valid);
        ctx.count_n("invalid_decisions", self.invalid);
        ctx.count_n("pairs_with_inadmissible_history", self.inadmissible_hist);
        *self = Tally::default();
    }
}

/// One monitored call of Poplar1's `is_agg_param_valid`. `via` alternates the two instantiations
/// (the function is generic over the XOF). `chain`: is `prev` an admissible chain?
#[allow(clippy::too_many_arguments)]
fn check_valid(ctx: &mut Ctx, t: &mut Tally, site: &str, cur: (&Param, &Poplar1AggregationParam), prev_ref: &[Param], prev_lib: &[Poplar1AggregationParam], chain: bool, via: bool) -> bool {
    let want = ref_valid(cur.0, prev_ref);
    let got = if via {
        catch(|| <P1Hmac as Aggregator<32, 16>>::is_agg_param_valid(cur.1, prev_lib))
    } else {
        catch(|| <P1Turbo as Aggregator<32, 16>>::is_agg_param_valid(cur.1, prev_lib))
    };
    ctx.eval();
    let hist_class = if chain { "admissible-history" } else { "arbitrary-history" };
    match got {
        Ok(g) if g == want => {}
        Ok(g) => {
            let dir = if g { "accepted-but-rule-rejects" } else { "rejected-but-rule-accepts" };
            ctx.violation(
                format!("is_agg_param_valid|poplar1|{hist_class}|{dir}"),
                "Poplar1 is_agg_param_valid disagrees with the admissibility rule of the statement",
                json!({"site": site, "cur": param_json(cur.0), "prev_oldest_first": hist_json(prev_ref), "library": g, "rule": want}),
            );
        }
        Err(pi) => {
            ctx.violation(
                format!("is_agg_param_valid|poplar1|{hist_class}|panic|{}", pclass(&pi)),
                "Poplar1 is_agg_param_valid panicked",
                json!({"site": site, "cur": param_json(cur.0), "prev_oldest_first": hist_json(prev_ref), "rule": want, "panic": pi.message, "at": pi.location}),
            );
        }
    }
    if want {
        t.valid += 1;
    } else {
        t.invalid += 1;
    }
    if !chain {
        t.inadmissible_hist += 1;
    }
    want
}

// ---------------------------------------------------------------------------------------------
// Part A: exhaustive histories over small bit lengths
// ---------------------------------------------------------------------------------------------

fn make_pool(ctx: &mut Ctx, bits: usize) -> Option<Pool> {
    let refs = all_params(bits);
    let mut libs = vec![];
    for (i, r) in refs.iter().enumerate() {
        // Alternate the two construction routes (constructor / decoder); they must agree.
        let a = build(ctx, r, "pool")?;
        let enc = ref_encode(r);
        match catch(|| Poplar1AggregationParam::get_decoded(&enc)) {
            Ok(Ok(b)) => {
                if a != b {
                    ctx.violation("decode|pool|differs-from-constructor", "decoded parameter != constructed parameter for the same list",
                        json!({"prefixes": param_json(r), "bytes": hex(&enc)}));
                }
                libs.push(if i % 2 == 0 { a } else { b });
            }
            Ok(Err(e)) => {
                ctx.violation("decode|pool|conforming-encoding-refused", "canonical encoding of a conforming list was refused",
                    json!({"prefixes": param_json(r), "bytes": hex(&enc), "err": e.to_string()}));
                libs.push(a);
            }
            Err(pi) => {
                ctx.violation(format!("decode|pool|conforming-encoding-panic|{}", pclass(&pi)), "decoder panicked on a canonical encoding",
                    json!({"prefixes": param_json(r), "bytes": hex(&enc), "panic": pi.message, "at": pi.location}));
                libs.push(a);
            }
        }
    }
    Some(Pool { refs, libs })
}

/// Every history of length exactly `hlen` over the pool x every `cur`; the global index of the
/// history decides the shard.
fn exhaustive_histories(ctx: &mut Ctx, pool: &Pool, hlen: usize, site: &str) -> u64 {
    let n = pool.refs.len();
    let total = (n as u64).pow(hlen as u32);
    let mut pairs = 0u64;
    let mut t = Tally::default();
    let mut prev_ref: Vec<Param> = Vec::with_capacity(hlen);
    let mut prev_lib: Vec<Poplar1AggregationParam> = Vec::with_capacity(hlen);
    for h in 0..total {
        if !ctx.mine(h) {
            continue;
        }
        prev_ref.clear();
        prev_lib.clear();
        let mut x = h;
        for _ in 0..hlen {
            let i = (x % n as u64) as usize;
            x /= n as u64;
            prev_ref.push(pool.refs[i].clone());
            prev_lib.push(pool.libs[i].clone());
        }
        let chain = is_chain(&prev_ref);
        for c in 0..n {
            let want = check_valid(ctx, &mut t, site, (&pool.refs[c], &pool.libs[c]), &prev_ref, &prev_lib, chain, (h + c as u64) % 2 == 1);
            pairs += 1;
            if want && hlen >= 1 {
                ctx.nontrivial(digest(&[site.as_bytes(), &h.to_le_bytes(), &(c as u64).to_le_bytes()]));
            }
        }
    }
    t.flush(ctx);
    pairs
}

fn sampled_histories(ctx: &mut Ctx, pool: &Pool, hlen: usize, samples: u64, site: &str) {
    let mut rng = ctx.rng(site);
    let n = pool.refs.len();
    let mut t = Tally::default();
    let mut recorded = 0u32;
    for _ in 0..samples {
        let idx: Vec<usize> = (0..hlen).map(|_| rng.usize_below(n)).collect();
        let prev_ref: Vec<Param> = idx.iter().map(|i| pool.refs[*i].clone()).collect();
        let prev_lib: Vec<Poplar1AggregationParam> = idx.iter().map(|i| pool.libs[*i].clone()).collect();
        // Half of the time draw `cur` uniformly, half of the time among deeper levels than the last
        // (a few redraws), so that the level test alone does not decide most samples.
        let mut c = rng.usize_below(n);
        if rng.bool() {
            for _ in 0..8 {
                if pool.refs[c][0].len() > prev_ref[hlen - 1][0].len() {
                    break;
                }
                c = rng.usize_below(n);
            }
        }
        let chain = is_chain(&prev_ref);
        let want = check_valid(ctx, &mut t, site, (&pool.refs[c], &pool.libs[c]), &prev_ref, &prev_lib, chain, rng.bool());
        if want && recorded < 20_000 {
            recorded += 1;
            ctx.nontrivial(digest(&[site.as_bytes(), format!("{idx:?}/{c}").as_bytes()]));
        }
    }
    ctx.count_n("sampled_history_pairs", samples);
    t.flush(ctx);
}

// ---------------------------------------------------------------------------------------------
// Part B: every short list offered to the constructor
// ---------------------------------------------------------------------------------------------

fn check_constructor(ctx: &mut Ctx, list: &Param, site: &str) {
    let want = ref_list_ok(list);
    let got = catch(|| Poplar1AggregationParam::try_from_prefixes(to_inputs(list)));
    ctx.eval();
    let class = if list.is_empty() {
        "empty"
    } else if list.iter().any(|p| p.len() != list[0].len()) {
        "ragged"
    } else if list[0].is_empty() {
        "zero-length"
    } else if list[0].len() > 65536 {
        "too-long"
    } else if list.windows(2).any(|w| w[0] == w[1]) {
        "repeated"
    } else if list.windows(2).any(|w| w[0] > w[1]) {
        "unsorted"
    } else {
        "conforming"
    };
    ctx.count(&format!("ctor_lists_{class}"));
    match got {
        Ok(Ok(p)) => {
            if !want {
                ctx.violation(format!("try_from_prefixes|accepted|{class}"), "a non-conforming prefix list was accepted",
                    json!({"site": site, "prefixes": param_json(list)}));
                return;
            }
            ctx.count("ctor_accepted");
            if p.level() + 1 != list[0].len() || lib_prefixes(&p) != *list {
                ctx.violation("try_from_prefixes|wrong-content", "constructed parameter does not hold the offered level/prefixes",
                    json!({"site": site, "prefixes": param_json(list), "level": p.level()}));
            }
            // The encoder is C07's subject: a wrong / failing / panicking encoding of an accepted
            // parameter is only recorded here (counter + note), never raised as a C20 violation.
            match catch(|| p.get_encoded()) {
                Ok(Ok(b)) if b == ref_encode(list) => {
                    if list[0].len() == 65536 {
                        ctx.count("encode_level_0xffff_ok");
                    }
                }
                Ok(other) => {
                    ctx.count("encoder_anomalies");
                    ctx.note(format!("encode|not-canonical-or-err (owned by C07): prefixes {:?} -> {:?}", param_json(list).to_string().chars().take(120).collect::<String>(),
                        other.map(|b| hex_trunc(&b, 32)).map_err(|e| e.to_string())));
                }
                Err(pi) => {
                    ctx.count(if list[0].len() == 65536 { "encode_level_0xffff_panics" } else { "encoder_anomalies" });
                    ctx.note(format!("encode|level={}|panic:{} (owned by C07/C08)", if list[0].len() == 65536 { "0xffff" } else { "<0xffff" }, pclass(&pi)));
                }
            }
        }
        Ok(Err(e)) => {
            if want {
                ctx.violation(format!("try_from_prefixes|conforming-list-refused|{site}"), "a non-empty, equal-length, strictly increasing prefix list was refused",
                    json!({"prefixes": param_json(list), "err": e.to_string()}));
            } else {
                ctx.count("ctor_rejected");
                ctx.nontrivial(digest(&[b"ctor-rej", format!("{list:?}").as_bytes()]));
            }
        }
        Err(pi) => {
            ctx.violation(format!("try_from_prefixes|panic|{class}|{}", pclass(&pi)), "try_from_prefixes panicked",
                json!({"site": site, "prefixes": param_json(list), "panic": pi.message, "at": pi.location}));
        }
    }
}

fn constructor_lists(ctx: &mut Ctx) {
    // Alphabet: the empty prefix and every prefix of length 1..=3 (15 symbols); every list of
    // 0..=4 symbols with repetition in any order: 1 + 15 + 15^2 + 15^3 + 15^4 = 54 241 lists.
    let mut alpha: Vec<Pfx> = vec![vec![]];
    for len in 1..=3 {
        alpha.extend(all_prefixes(len));
    }
    let a = alpha.len() as u64;
    let mut g = 0u64;
    for n in 0..=4u32 {
        for code in 0..a.pow(n) {
            g += 1;
            if !ctx.mine(g) {
                continue;
            }
            let mut x = code;
            let mut list = vec![];
            for _ in 0..n {
                list.push(alpha[(x % a) as usize].clone());
                x /= a;
            }
            check_constructor(ctx, &list, "short-lists");
        }
    }
    // Size limits on the prefix length (the count limit of 2^32 - 1 entries is out of reach:
    // it needs > 2^32 `IdpfInput`s in memory).
    if ctx.shard == 0 {
        for len in [65535usize, 65536, 65537, 70000] {
            let mut rng = ctx.rng_global("ctor-long");
            let mut p: Pfx = (0..len).map(|_| rng.bool()).collect();
            let mut q = p.clone();
            p[len - 1] = false;
            q[len - 1] = true;
            check_constructor(ctx, &vec![p.clone()], "length-limits");
            check_constructor(ctx, &vec![p.clone(), q.clone()], "length-limits");
            check_constructor(ctx, &vec![q.clone(), p.clone()], "length-limits");
            check_constructor(ctx, &vec![p.clone(), p.clone()], "length-limits");
        }
    }
}

// ---------------------------------------------------------------------------------------------
// Part C: decoder on every header x every short body
// ---------------------------------------------------------------------------------------------

struct DecStats {
    accepted: u64,
    rejected: u64,
    panics_0xffff: u64,
}

fn check_decode(ctx: &mut Ctx, bytes: &[u8], st: &mut DecStats) {
    let want = ref_decode(bytes);
    let got = catch(|| Poplar1AggregationParam::get_decoded(bytes));
    ctx.eval();
    let level = if bytes.len() >= 2 { Some(u16::from_be_bytes([bytes[0], bytes[1]])) } else { None };
    // level class for signatures: the only level with special arithmetic is 0xFFFF
    let lvl = || match level {
        Some(0xffff) => "0xffff",
        Some(_) => "<0xffff",
        None => "none",
    };
    match (got, want) {
        (Ok(Ok(p)), Some(list)) => {
            st.accepted += 1;
            if lib_prefixes(&p) != list || p.level() + 1 != list[0].len() {
                ctx.violation("decode|wrong-content", "decoded parameter differs from the encoded list",
                    json!({"bytes": hex_trunc(bytes, 64), "want": param_json(&list)}));
            }
            // Re-encoding is observed for C07's benefit only (counter + note, not a C20 verdict).
            match catch(|| p.get_encoded()) {
                Ok(Ok(b)) if b == bytes => {}
                _ => {
                    ctx.count("encoder_anomalies");
                    ctx.note(format!("re-encoding an accepted parameter did not reproduce the input bytes {} (owned by C07)", hex_trunc(bytes, 32)));
                }
            }
            if bytes.len() <= 8 {
                ctx.nontrivial(digest(&[b"dec-acc", bytes]));
            }
        }
        (Ok(Ok(p)), None) => {
            ctx.violation(format!("decode|accepted-nonconforming|level={}", lvl()), "decoder accepted bytes that are not the canonical encoding of a conforming list",
                json!({"bytes": hex_trunc(bytes, 64), "decoded_level": p.level(), "decoded": param_json(&lib_prefixes(&p))}));
        }
        (Ok(Err(_)), None) => st.rejected += 1,
        (Ok(Err(e)), Some(list)) => {
            ctx.violation(format!("decode|conforming-encoding-refused|level={}", lvl()), "decoder refused the canonical encoding of a conforming list",
                json!({"bytes": hex_trunc(bytes, 64), "list": param_json(&list), "err": e.to_string()}));
        }
        (Err(pi), want) => {
            if level == Some(0xffff) && want.is_none() {
                // DESIGN §7 #2: `level + 1` overflows in u16 before the body is looked at. The
                // admissibility answer for these inputs is "reject" and nothing is accepted, so
                // this is recorded, not raised here (finding owned by C08).
                st.panics_0xffff += 1;
                if st.panics_0xffff == 1 {
                    ctx.note(format!("decode|level=0xffff|panic:{} on an encoding that must be rejected (u16 `level + 1` overflow; finding owned by C08)", pclass(&pi)));
                }
            } else if level == Some(0xffff) {
                ctx.violation(format!("decode|level=0xffff|conforming-encoding-refused|panic:{}", pclass(&pi)),
                    "decoder panicked on the canonical encoding of a conforming list of 65536-bit prefixes (a list try_from_prefixes accepts)",
                    json!({"bytes": hex_trunc(bytes, 40), "len": bytes.len(),
                           "bytes_after_the_first_40": if bytes.len() > 40 && bytes[40..bytes.len() - 1].iter().all(|b| *b == 0) { format!("all 0x00 except the last byte = {:#04x}", bytes[bytes.len() - 1]) } else { "see hex".into() },
                           "call": "Poplar1AggregationParam::get_decoded(bytes)", "panic": pi.message, "at": pi.location}));
            } else {
                ctx.violation(format!("decode|panic|level={}|{}", lvl(), pclass(&pi)), "decoder panicked",
                    json!({"bytes": hex_trunc(bytes, 64), "panic": pi.message, "at": pi.location, "conforming": want.is_some()}));
            }
        }
    }
}

const DEC_LEVELS: [u16; 9] = [0, 1, 2, 3, 7, 8, 15, 0xfffe, 0xffff];
const DEC_COUNTS: [u32; 6] = [0, 1, 2, 3, 4, u32::MAX];

fn decoder_space(ctx: &mut Ctx) -> bool {
    let mut st = DecStats { accepted: 0, rejected: 0, panics_0xffff: 0 };
    let mut complete = true;
    // Truncated headers: every string of <= 2 bytes, sampled 3..5 bytes.
    let mut g = 0u64;
    for len in 0..=2usize {
        for v in 0..(1u32 << (8 * len)) {
            g += 1;
            if ctx.mine(g) {
                let b = v.to_be_bytes();
                check_decode(ctx, &b[4 - len..], &mut st);
            }
        }
    }
    let mut rng = ctx.rng("dec-trunc");
    for _ in 0..2000 {
        let n = 3 + rng.usize_below(3);
        let mut b = rng.bytes(n);
        if rng.bool() {
            b[0] = 0;
            b[1] = *rng.choose(&[0u8, 1, 7, 8]);
        }
        check_decode(ctx, &b, &mut st);
    }
    ctx.count_n("decode_truncated_headers", st.rejected);

    // Does the decoder panic on level 0xFFFF regardless of the body?
    let probe = catch(|| Poplar1AggregationParam::get_decoded(&[0xff, 0xff, 0, 0, 0, 0]));
    let ffff_panics = probe.is_err();
    let mut buf = Vec::with_capacity(9);
    let mut header_idx = 0u64;
    for level in DEC_LEVELS {
        for count in DEC_COUNTS {
            header_idx += 1;
            let reduced = level == 0xffff && ffff_panics && ctx.quick();
            for blen in 0..=3usize {
                let nbodies = 1u32 << (8 * blen);
                if reduced && blen >= 2 {
                    // The panic happens before the body is read and costs microseconds to unwind:
                    // at quick tier bodies of >= 2 bytes are sampled for this header row.
                    complete = false;
                    let mut r = ctx.rng(&format!("dec-ffff-{count}-{blen}"));
                    for _ in 0..64 {
                        buf.clear();
                        buf.extend_from_slice(&level.to_be_bytes());
                        buf.extend_from_slice(&count.to_be_bytes());
                        buf.extend_from_slice(&r.bytes(blen));
                        check_decode(ctx, &buf, &mut st);
                    }
                    continue;
                }
                // Partition: contiguous blocks of 256 bodies round-robin over shards.
                for v in 0..nbodies {
                    if !ctx.mine((v as u64 >> 8) + header_idx) {
                        continue;
                    }
                    buf.clear();
                    buf.extend_from_slice(&level.to_be_bytes());
                    buf.extend_from_slice(&count.to_be_bytes());
                    buf.extend_from_slice(&v.to_be_bytes()[4 - blen..]);
                    check_decode(ctx, &buf, &mut st);
                }
            }
        }
    }
    ctx.count_n("decode_accepted", st.accepted);
    ctx.count_n("decode_rejected", st.rejected);
    ctx.count_n("decode_level_0xffff_panics", st.panics_0xffff);
    if ffff_panics {
        ctx.count("decode_level_0xffff_probe_panicked");
    }

    // Canonical encodings at the size limit (level 0xFFFE and 0xFFFF, 8192-byte prefixes) and
    // near misses, on shard 0.
    if ctx.shard == 0 {
        let mut st2 = DecStats { accepted: 0, rejected: 0, panics_0xffff: 0 };
        // Structured prefixes so that the witness is fully described: p = all-zero bits,
        // q = all-zero bits except the last one.
        for len in [65535usize, 65536] {
            let p: Pfx = vec![false; len];
            let mut q = p.clone();
            q[len - 1] = true;
            for list in [vec![p.clone()], vec![p.clone(), q.clone()]] {
                let enc = ref_encode(&list);
                check_decode(ctx, &enc, &mut st2); // conforming
                let mut short = enc.clone();
                short.pop();
                check_decode(ctx, &short, &mut st2); // truncated
                let mut long = enc.clone();
                long.push(0);
                check_decode(ctx, &long, &mut st2); // trailing byte
            }
            let enc = ref_encode(&[q.clone(), p.clone()]); // unsorted
            check_decode(ctx, &enc, &mut st2);
            if len == 65535 {
                let mut enc = ref_encode(&[p.clone()]);
                *enc.last_mut().unwrap() |= 1; // padding bit set
                check_decode(ctx, &enc, &mut st2);
            }
        }
        ctx.count_n("decode_long_accepted", st2.accepted);
        ctx.count_n("decode_long_rejected", st2.rejected);
        ctx.count_n("decode_level_0xffff_panics", st2.panics_0xffff);
    }
    complete
}

// ---------------------------------------------------------------------------------------------
// Part D: random deeper histories
// ---------------------------------------------------------------------------------------------

fn rand_pfx(rng: &mut Rng64, len: usize) -> Pfx {
    match rng.below(8) {
        0 => vec![false; len],
        1 => vec![true; len],
        _ => (0..len).map(|_| rng.bool()).collect(),
    }
}

fn norm(mut v: Vec<Pfx>) -> Param {
    v.sort();
    v.dedup();
    v
}

/// A random parameter at `len` bits whose candidates all extend candidates of `parent`
/// (or unconstrained when `parent` is None).
fn rand_param(rng: &mut Rng64, len: usize, parent: Option<&Param>, max_cands: usize) -> Param {
    let n = 1 + rng.usize_below(max_cands);
    let mut v = vec![];
    for _ in 0..n {
        let mut p = match parent {
            Some(par) => rng.choose(par).clone(),
            None => vec![],
        };
        let tail = rand_pfx(rng, len - p.len().min(len));
        p.truncate(len);
        p.extend(tail);
        v.push(p);
    }
    norm(v)
}

/// Generate an admissible chain over `bits`-bit inputs of at most `maxlen` parameters.
fn rand_chain(rng: &mut Rng64, bits: usize, maxlen: usize) -> Vec<Param> {
    let mut chain: Vec<Param> = vec![];
    let mut len = 0usize;
    let want = rng.usize_below(maxlen + 1);
    while chain.len() < want && len < bits {
        let cap = if bits > 64 { bits / 3 } else { 8 };
        let step = if rng.chance(1, 3) { 1 } else { 1 + rng.usize_below((bits - len).min(cap)) };
        len += step;
        let p = rand_param(rng, len, chain.last(), 6);
        chain.push(p);
    }
    chain
}

fn deep_case(ctx: &mut Ctx, rng: &mut Rng64, bits: usize) {
    let mut prev = rand_chain(rng, bits, 12);
    // Optionally disturb the history so that it is an arbitrary (inadmissible) list.
    let disturb = rng.below(5);
    if disturb == 0 && prev.len() >= 2 {
        rng.shuffle(&mut prev);
    } else if disturb == 1 && !prev.is_empty() {
        let i = rng.usize_below(prev.len());
        let l = 1 + rng.usize_below(bits);
        prev[i] = rand_param(rng, l, None, 5);
    }
    let last = prev.last().cloned();
    let first = prev.first().cloned();
    let (class, cur): (&str, Param) = match (rng.below(10), &last) {
        (_, None) => {
            let l = 1 + rng.usize_below(bits);
            ("first-use", rand_param(rng, l, None, 6))
        }
        (0 | 1, Some(last)) if last[0].len() < bits => {
            let l = last[0].len() + 1 + rng.usize_below(bits - last[0].len());
            ("extends-last", rand_param(rng, l, Some(last), 6))
        }
        (2, Some(last)) => ("equal-level", {
            // same level: a subset of the last candidates or the same set
            let keep: Vec<Pfx> = last.iter().filter(|_| rng.bool()).cloned().collect();
            if keep.is_empty() { last.clone() } else { norm(keep) }
        }),
        (3, Some(last)) if last[0].len() > 1 => ("lower-level", {
            let l = 1 + rng.usize_below(last[0].len() - 1);
            norm(last.iter().map(|p| p[..l].to_vec()).collect())
        }),
        (4, Some(last)) if last[0].len() < bits => ("one-candidate-off", {
            // all candidates extend the last set except one whose bit inside the last level is flipped
            let l = last[0].len() + 1 + rng.usize_below(bits - last[0].len());
            let mut c = rand_param(rng, l, Some(last), 6);
            let i = rng.usize_below(c.len());
            let j = rng.usize_below(last[0].len());
            c[i][j] = !c[i][j];
            norm(c)
        }),
        (5, Some(last)) if last[0].len() < bits => ("no-candidate-extends", {
            let l = last[0].len() + 1 + rng.usize_below(bits - last[0].len());
            let mut c = rand_param(rng, l, Some(last), 4);
            let j = rng.usize_below(last[0].len());
            for p in c.iter_mut() {
                p[j] = !p[j];
            }
            norm(c)
        }),
        (6, Some(last)) if first.as_ref().map(|f| f[0].len() < last[0].len() && last[0].len() < bits).unwrap_or(false) => ("extends-first-only", {
            // candidates extend the FIRST previous parameter, freshly drawn below it
            let l = last[0].len() + 1 + rng.usize_below(bits - last[0].len());
            rand_param(rng, l, first.as_ref(), 6)
        }),
        (7, Some(last)) if prev.len() >= 2 && last[0].len() < bits => ("extends-older-only", {
            let older = &prev[rng.usize_below(prev.len() - 1)];
            let l = last[0].len() + 1 + rng.usize_below(bits - last[0].len());
            if older[0].len() < l { rand_param(rng, l, Some(older), 6) } else { rand_param(rng, l, None, 6) }
        }),
        (_, Some(_)) => {
            let l = 1 + rng.usize_below(bits);
            ("arbitrary", rand_param(rng, l, None, 6))
        }
    };
    let Some(cur_lib) = build(ctx, &cur, "deep") else { return };
    let mut prev_lib = vec![];
    for p in &prev {
        match build(ctx, p, "deep") {
            Some(x) => prev_lib.push(x),
            None => return,
        }
    }
    let mut t = Tally::default();
    let chain = is_chain(&prev);
    let want = check_valid(ctx, &mut t, "deep", (&cur, &cur_lib), &prev, &prev_lib, chain, rng.bool());
    t.flush(ctx);
    ctx.count(&format!("deep_{class}_{}", if want { "valid" } else { "invalid" }));
    ctx.max("max_history_len", prev.len() as u64);
    ctx.max("max_bits", bits as u64);
    if ctx.distinct.len() < 600_000 {
        ctx.nontrivial(digest(&[b"deep", format!("{cur:?}{prev:?}").as_bytes()]));
    }
    ctx.sample(|| json!({"part": "deep", "class": class, "bits": bits, "cur": param_json(&cur), "prev_oldest_first": hist_json(&prev), "valid": want}));
}

// ---------------------------------------------------------------------------------------------
// Part E: Prio3 / Prio2 single-use rule
// ---------------------------------------------------------------------------------------------

fn unit_rule<A: Aggregator<32, 16, AggregationParam = ()>>(ctx: &mut Ctx, name: &str) {
    for n in 0..=5usize {
        let prev = vec![(); n];
        let got = catch(|| A::is_agg_param_valid(&(), &prev));
        ctx.eval();
        match got {
            Ok(g) if g == (n == 0) => {
                ctx.count(if g { "unit_valid_decisions" } else { "unit_invalid_decisions" });
                ctx.nontrivial(digest(&[b"unit", name.as_bytes(), &[n as u8]]));
            }
            Ok(g) => ctx.violation(format!("is_agg_param_valid|{name}|prev_len={}", if n == 0 { "0" } else { ">0" }),
                "single-use rule violated: valid must be equivalent to `no previous use`", json!({"vdaf": name, "prev_len": n, "library": g})),
            Err(pi) => ctx.violation(format!("is_agg_param_valid|{name}|panic|{}", pclass(&pi)), "is_agg_param_valid panicked",
                json!({"vdaf": name, "prev_len": n, "panic": pi.message, "at": pi.location})),
        }
    }
}

// ---------------------------------------------------------------------------------------------

pub fn run(ctx: &mut Ctx) {
    let mut complete = true;

    // Oracle self-check on the examples of the statement (harness error if the oracle is off).
    {
        let p = |s: &[&str]| -> Param { s.iter().map(|x| x.chars().map(|c| c == '1').collect()).collect() };
        assert!(ref_valid(&p(&["0"]), &[]));
        assert!(ref_valid(&p(&["00", "01"]), &[p(&["0"])]));
        assert!(!ref_valid(&p(&["00", "10"]), &[p(&["0"])]));
        assert!(!ref_valid(&p(&["0"]), &[p(&["0"])]));
        assert!(!ref_valid(&p(&["00"]), &[p(&["0"]), p(&["01"])]));
        assert!(ref_valid(&p(&["010"]), &[p(&["0"]), p(&["01"])]));
        assert!(ref_decode(&ref_encode(&p(&["010", "011"]))) == Some(p(&["010", "011"])));
    }

    ctx.trace(|| "part A: exhaustive histories".into());
    // Part A, bits = 2: all 18 parameters, every history of length <= 4 (2 000 718 pairs).
    match make_pool(ctx, 2) {
        Some(pool) => {
            ctx.max("params_bits2", pool.refs.len() as u64);
            let mut pairs = 0;
            for hlen in 0..=4 {
                pairs += exhaustive_histories(ctx, &pool, hlen, "bits2");
            }
            ctx.count_n("exh_bits2_pairs", pairs);
        }
        None => complete = false,
    }
    // bits = 3: all 273 parameters, every history of length <= 2; length 3 sampled (thorough).
    match make_pool(ctx, 3) {
        Some(pool) => {
            ctx.max("params_bits3", pool.refs.len() as u64);
            let mut pairs = 0;
            for hlen in 0..=2 {
                pairs += exhaustive_histories(ctx, &pool, hlen, "bits3");
            }
            ctx.count_n("exh_bits3_pairs", pairs);
            if !ctx.quick() {
                let n = ctx.budget(0, 120_000_000) / ctx.nshards as u64;
                sampled_histories(ctx, &pool, 3, n, "bits3-len3");
                sampled_histories(ctx, &pool, 4, n / 8, "bits3-len4");
            } else {
                let n = ctx.budget(200_000, 0) / ctx.nshards as u64;
                sampled_histories(ctx, &pool, 3, n, "bits3-len3");
            }
        }
        None => complete = false,
    }

    // Part B.
    ctx.trace(|| "part B: constructor lists".into());
    constructor_lists(ctx);

    // Part C.
    ctx.trace(|| "part C: decoder space".into());
    if !decoder_space(ctx) {
        ctx.note("decoder enumeration: header rows with level 0xFFFF were sampled for bodies of >= 2 bytes at quick tier because every call panics before the body is read");
    }

    // Part D: random deeper cases.
    ctx.trace(|| "part D: deep histories".into());
    let mut rng = ctx.rng("deep");
    let n_deep = ctx.budget(60_000, 8_000_000) / ctx.nshards as u64;
    for i in 0..n_deep {
        let bits = match i % 16 {
            0 => 4,
            1 => 8,
            2 => 16,
            3 => 64,
            4 => 63,
            5 => 65,
            _ => 2 + rng.usize_below(63),
        };
        deep_case(ctx, &mut rng, bits);
    }
    // A few beyond 64 bits, up to the size limit.
    let n_big = ctx.budget(32, 640) / ctx.nshards as u64;
    for i in 0..n_big.max(1) {
        let bits = [128usize, 1000, 4096, 65536][(i as usize + ctx.shard) % 4];
        deep_case(ctx, &mut rng, bits);
    }

    // Part E.
    if ctx.mine(0) || !ctx.quick() {
        unit_rule::<Prio3Count>(ctx, "Prio3Count");
        unit_rule::<Prio3Sum>(ctx, "Prio3Sum");
        unit_rule::<Prio3SumVec>(ctx, "Prio3SumVec");
        unit_rule::<Prio3SumVecMultithreaded>(ctx, "Prio3SumVecMultithreaded");
        unit_rule::<Prio3Histogram>(ctx, "Prio3Histogram");
        unit_rule::<Prio3MultihotCountVec>(ctx, "Prio3MultihotCountVec");
        unit_rule::<Prio3Average>(ctx, "Prio3Average");
        unit_rule::<Prio2>(ctx, "Prio2");
    }

    if complete {
        ctx.exhaustive = Some(true);
    } else {
        ctx.exhaustive = Some(false);
        ctx.inconclusive("the parameter pool for the exhaustive history enumeration could not be built");
    }
}
